"""C22 — resolve_dynamic_wires / device_resolve_dynamic_wires never alias live wires and keep the circuit's meaning."""
import json

import numpy as np
from hypothesis import strategies as st

from pv import gen, specs
from pv.engine import Reject, Result, Viol
from pv.ref import dyn2
from pv.ref import sim

ID = "C22"
TECHNIQUE = ("state-machine generated allocate/deallocate histories that are honest by construction; oracle = lock-step structural "
             "walk of input and resolved tape + numpy branch-enumerating reference (zero state at allocation, fresh-wire-per-allocation results)")
RULE = (
    "Histories of up to 16 steps over 1-3 static wires: open register (1-2 dynamic wires, state zero|any, restored T|F) of one of the honest "
    "kinds scratch (zero, not restored: free use), scratch-any (any, not restored: user resets first, then free use), dirty (any: gates "
    "inside the register only, inverse appended before deallocation if restored), compute (zero, restored: classical compute from "
    "control wires, control-only use, uncompute on close), block (restored: B B^dagger blocks), borrow (any, restored: "
    "Toffoli/CNOT toggling trick = multi-controlled X independent of the borrowed state); gates on static and live dynamic wires "
    "respecting the control-only locks; user mid-circuit measurements; partial / nested / interleaved deallocation; registers "
    "zeroed (0-3 untouched wires), any_state (0-2 wires prepared in an entangled garbage state), min_int in {None, above all "
    "integer labels}, allow_resets T|F; transform API or device_resolve_dynamic_wires (device wires | None); documented examples "
    "with their documented assignment. Oracle: (structural) input and output walked in lock-step: every output op is the input op "
    "with static wires unchanged and each dynamic wire replaced by one concrete wire for its whole life, extra ops are only "
    "reset measurements at allocations of zero-state wires with allow_resets; concrete wires come from zeroed / any_state / integers "
    ">= min_int; two dynamic wires with overlapping lifetimes never share a concrete wire; AllocationError is only accepted "
    "when min_int is None; (semantic) in the resolved circuit every wire requested in state zero is in |0> in every measurement "
    "branch at its allocation point, and the branch-averaged outcome distribution on the measured wires equals the one of the "
    "circuit in which every allocation gets a fresh wire (|0>), at 1e-8. Non-trivial: >= 2 used dynamic wires whose lifetimes "
    "overlap or that share a concrete wire."
)
ASSUMPTIONS = [
    "Honesty of the generated circuits (restored=True really restores, state='any' wires never influence other wires before a reset) is "
    "re-validated by check() by replaying the state machine; specs that break the discipline are rejected.",
    "Wires handed over in zeroed / any_state are not otherwise used by the circuit (any_state wires are prepared by gates at the start), "
    "and min_int is larger than every integer label in the circuit and the registers (disjoint resources).",
    "Dynamic wires that are never used by any operation or measurement have no observable concrete wire and are skipped by the structural check.",
]
BUDGET = {"quick": {"examples": 500}, "thorough": {"examples": 50000, "shards": 16}}
SHRINK_LISTS = ("steps", "prep", "meas")
TOL = 1e-8

FREE1 = ["PauliX", "PauliY", "Hadamard", "SX", "RX", "RY", "Rot"]
DIAG1 = ["PauliZ", "S", "T", "RZ", "PhaseShift"]
# name -> number of leading control-role wires (the remaining wires are targets); "all" = diagonal on every wire
CTRL = {"CNOT": 1, "CY": 1, "CRX": 1, "CRY": 1, "CRZ": 1, "Toffoli": 2, "CSWAP": 1, "CZ": "all", "ControlledPhaseShift": "all", "CCZ": "all", "IsingZZ": "all"}
FREE2 = ["SWAP", "IsingXX", "IsingXY", "SingleExcitation"]
NPAR = {**{k: v[0] for k, v in gen.ALL_GATES.items()}, "CCZ": 0}
NW = {**{k: v[1] for k, v in gen.ALL_GATES.items()}, "CCZ": 3}
CLASSICAL = ["PauliX", "CNOT", "Toffoli"]


def _tok(w):
    return tuple(w) if isinstance(w, list) else w


def _is_dyn(t):
    return isinstance(t, tuple)


# ----------------------------------------------------------------------------------------------
# the honest state machine (used by the generator to list legal moves and by check() to validate + emit)
# ----------------------------------------------------------------------------------------------
class Machine:
    def __init__(self, static):
        self.static = [_tok(w) for w in static]
        self.regs = {}      # rid -> dict(k, state, restored, kind, live=set(idx), compute=[...], applied=[...], locks=[tokens])
        self.locks = {}     # token -> number of live compute registers using it as a control
        self.out = []       # ("alloc", rid, k, state, restored) | ("dealloc", [tokens]) | ("gate", name, params, [tokens]) | ("mcm", token, reset)

    # -- roles ------------------------------------------------------------------------------
    def kind_of(self, t):
        return self.regs[t[1]]["kind"] if _is_dyn(t) else "static"

    def live(self, t):
        if not _is_dyn(t):
            return t in self.static
        r = self.regs.get(t[1])
        return r is not None and t[2] in r["live"]

    def can_target(self, t):
        """value-changing use: unlocked static wires and wires of scratch registers."""
        if not self.live(t) or self.locks.get(t, 0):
            return False
        return self.kind_of(t) in ("static", "scratch", "scratch-any")

    def can_control(self, t):
        """control / diagonal use: any live wire with a defined state (never an any-state wire)."""
        return self.live(t) and self.kind_of(t) in ("static", "scratch", "scratch-any", "compute")

    def targets(self):
        return [t for t in self.all_live() if self.can_target(t)]

    def controls(self):
        return [t for t in self.all_live() if self.can_control(t)]

    def all_live(self):
        return list(self.static) + [("d", rid, i) for rid, r in self.regs.items() for i in sorted(r["live"])]

    # -- moves ------------------------------------------------------------------------------
    def gate(self, name, params, wires):
        wires = [_tok(w) for w in wires]
        if len(set(wires)) != len(wires) or NW.get(name) != len(wires) or NPAR.get(name) != len(params):
            raise Reject("malformed gate")
        if name in DIAG1:
            ok = self.can_control(wires[0]) or self._own_dirty(wires)
        elif name in CTRL:
            nc = len(wires) if CTRL[name] == "all" else CTRL[name]
            ok = all(self.can_control(w) for w in wires[:nc]) and all(self.can_target(w) for w in wires[nc:])
            ok = ok or self._own_dirty(wires)
        elif name in FREE1 or name in FREE2:
            ok = all(self.can_target(w) for w in wires) or self._own_dirty(wires)
        else:
            raise Reject("gate outside the pool")
        if not ok:
            raise Reject("dishonest use of a locked / any-state wire")
        self._emit_gate(name, params, wires)

    def _own_dirty(self, wires):
        """all wires inside one live dirty register (isolated garbage)."""
        if not all(_is_dyn(w) and self.live(w) for w in wires):
            return False
        rids = {w[1] for w in wires}
        return len(rids) == 1 and self.regs[wires[0][1]]["kind"] == "dirty"

    def _emit_gate(self, name, params, wires):
        self.out.append(("gate", name, list(params), list(wires)))
        for w in wires:
            if _is_dyn(w) and self.regs[w[1]]["kind"] == "dirty":
                self.regs[w[1]]["applied"].append((name, list(params), list(wires)))
                break

    def mcm(self, w, reset):
        w = _tok(w)
        if not self.can_target(w):
            raise Reject("measurement of a locked / any-state wire")
        self.out.append(("mcm", w, bool(reset)))

    def open(self, rid, k, state, restored, kind, compute=()):
        if rid in self.regs or k not in (1, 2):
            raise Reject("malformed open")
        legal = {"scratch": ("zero", False), "scratch-any": ("any", False), "compute": ("zero", True), "borrow": ("any", True)}
        if kind in legal and legal[kind] != (state, bool(restored)):
            raise Reject("kind does not match state/restored")
        if kind == "dirty" and state != "any":
            raise Reject("dirty registers are any-state")
        if kind == "block" and not restored:
            raise Reject("block registers are restored")
        if kind not in ("scratch", "scratch-any", "compute", "borrow", "dirty", "block") or state not in ("zero", "any"):
            raise Reject("unknown kind")
        self.regs[rid] = {"k": k, "state": state, "restored": bool(restored), "kind": kind, "live": set(range(k)), "compute": [], "applied": [], "locks": []}
        self.out.append(("alloc", rid, k, state, bool(restored)))
        reg = self.regs[rid]
        if kind == "scratch-any":
            for i in range(k):
                self.out.append(("mcm", ("d", rid, i), True))
        if kind == "compute":
            # classical reversible compute: targets are this register's wires, controls any defined live wire
            for name, wires in compute:
                wires = [_tok(w) for w in wires]
                if name not in CLASSICAL or NW[name] != len(wires) or len(set(wires)) != len(wires):
                    raise Reject("malformed compute")
                tgt, ctl = wires[-1], wires[:-1]
                if not (_is_dyn(tgt) and tgt[1] == rid) or not all(self.can_control(c) for c in ctl):
                    raise Reject("dishonest compute")
                reg["compute"].append((name, wires))
                self.out.append(("gate", name, [], wires))
                for c in ctl:
                    if not (_is_dyn(c) and c[1] == rid):
                        reg["locks"].append(c)
                        self.locks[c] = self.locks.get(c, 0) + 1

    def block(self, rid, ops):
        """B then B^dagger; B acts on this register's wires and on freely usable wires."""
        reg = self.regs.get(rid)
        if reg is None or reg["kind"] != "block" or not ops:
            raise Reject("malformed block")
        seq = []
        for name, params, wires in ops:
            wires = [_tok(w) for w in wires]
            if len(set(wires)) != len(wires) or NW.get(name) != len(wires) or NPAR.get(name) != len(params) or name not in (FREE1 + DIAG1 + FREE2 + list(CTRL)):
                raise Reject("malformed block gate")
            if not any(_is_dyn(w) and w[1] == rid for w in wires):
                raise Reject("block gate must touch the register")
            for w in wires:
                if _is_dyn(w) and w[1] == rid:
                    if not self.live(w):
                        raise Reject("dead wire")
                elif not self.can_target(w):
                    raise Reject("block partner must be freely usable")
            seq.append((name, list(params), wires))
        for name, params, wires in seq:
            self.out.append(("gate", name, params, wires))
        for name, params, wires in reversed(seq):
            self.out.append(("adjoint", name, params, wires))

    def borrow(self, rid, idx, ctl, tgt):
        """Toffoli(a,b,d) CNOT(d,t) Toffoli(a,b,d) CNOT(d,t) = Toffoli(a,b,t) for every state of d (one control: CNOTs)."""
        reg = self.regs.get(rid)
        d = ("d", rid, idx)
        ctl = [_tok(c) for c in ctl]
        tgt = _tok(tgt)
        if reg is None or reg["kind"] != "borrow" or not self.live(d) or len(ctl) not in (1, 2) or len(set(ctl + [tgt])) != len(ctl) + 1:
            raise Reject("malformed borrow")
        if not all(self.can_control(c) for c in ctl) or not self.can_target(tgt):
            raise Reject("dishonest borrow")
        g = "CNOT" if len(ctl) == 1 else "Toffoli"
        for _ in range(2):
            self.out.append(("gate", g, [], ctl + [d]))
            self.out.append(("gate", "CNOT", [], [d, tgt]))

    def can_close(self, rid, idxs):
        reg = self.regs.get(rid)
        if reg is None or not idxs or not set(idxs) <= reg["live"]:
            return False
        if reg["kind"] in ("compute", "dirty") and reg["restored"] and set(idxs) != reg["live"]:
            return False  # restoring needs the whole register
        if reg["kind"] == "compute" and set(idxs) != reg["live"]:
            return False
        return not any(self.locks.get(("d", rid, i), 0) for i in idxs)

    def close(self, rid, idxs):
        idxs = sorted(set(idxs))
        if not self.can_close(rid, idxs):
            raise Reject("close not allowed")
        reg = self.regs[rid]
        if reg["kind"] == "compute":
            for name, wires in reversed(reg["compute"]):
                self.out.append(("gate", name, [], wires))
            for c in reg["locks"]:
                self.locks[c] -= 1
            reg["locks"] = []
        if reg["kind"] == "dirty" and reg["restored"]:
            for name, params, wires in reversed(reg["applied"]):
                self.out.append(("adjoint", name, params, wires))
            reg["applied"] = []
        self.out.append(("dealloc", [("d", rid, i) for i in idxs]))
        reg["live"] -= set(idxs)

    def measurable(self):
        return [t for t in self.all_live() if self.can_control(t)]


def replay(spec):
    m = Machine(spec["static"])
    for s in spec["steps"]:
        replay_into(m, s)
    meas = [_tok(w) for w in spec["meas"]]
    if not meas or len(set(meas)) != len(meas) or not all(w in m.measurable() for w in meas):
        raise Reject("measurement of a dead / any-state wire")
    return m, meas


# ----------------------------------------------------------------------------------------------
# generator
# ----------------------------------------------------------------------------------------------
LABELS = [([0, 1, 2], [10, 11, 12], [20, 21]), (["a", "b", "c"], ["z0", "z1", "z2"], ["y0", "y1"]), ([2, "q", 0], ["z0", 7, "z2"], [5, "y1"])]


def _jt(t):
    return list(t) if isinstance(t, tuple) else t


@st.composite
def _gate_on(draw, m):
    """one legal generic gate for machine state m, or None."""
    tg, ct = m.targets(), m.controls()
    if draw(st.integers(0, 9)) < 6:
        # prefer gates that touch dynamic wires: put them first and draw "subsets" from a list that repeats them
        dt, dc = [w for w in tg if _is_dyn(w)], [w for w in ct if _is_dyn(w)]
        if dt and draw(st.booleans()):
            tg = dt
        if dc and draw(st.booleans()):
            ct = dc
    ang = gen.generic_angles()
    forms = []
    if tg:
        forms += ["free1", "free1"]
    if ct:
        forms += ["diag1"]
    if ct and tg:
        forms += ["ctrl", "ctrl", "ctrl"]
    if len(ct) >= 2:
        forms += ["diag2"]
    if len(tg) >= 2:
        forms += ["free2"]
    if not forms:
        return None
    f = draw(st.sampled_from(forms))
    if f == "free1":
        name, ws = draw(st.sampled_from(FREE1)), [draw(st.sampled_from(tg))]
    elif f == "diag1":
        name, ws = draw(st.sampled_from(DIAG1)), [draw(st.sampled_from(ct))]
    elif f == "free2":
        name, ws = draw(st.sampled_from(FREE2)), draw(gen.subset(tg, 2))
    elif f == "diag2":
        name = draw(st.sampled_from(["CZ", "ControlledPhaseShift", "IsingZZ"] + (["CCZ"] if len(ct) >= 3 else [])))
        ws = draw(gen.subset(ct, NW[name]))
    else:
        name = draw(st.sampled_from(["CNOT", "CNOT", "CY", "CRX", "CRY", "CRZ", "Toffoli", "CSWAP"]))
        nc = CTRL[name]
        nt = NW[name] - nc
        t = draw(gen.subset(tg, min(nt, len(tg))))
        c = draw(gen.subset([w for w in ct if w not in t], min(nc, len([w for w in ct if w not in t]))))
        if len(t) < nt or len(c) < nc:
            return None
        ws = c + t
    return {"t": "gate", "name": name, "p": [draw(ang) for _ in range(NPAR[name])], "w": [_jt(w) for w in ws]}


def _ctrl_on(draw, c, t):
    name = draw(st.sampled_from(["CNOT", "CNOT", "CRY", "CY", "CRX"]))
    return {"t": "gate", "name": name, "p": [draw(gen.generic_angles()) for _ in range(NPAR[name])], "w": [_jt(c), _jt(t)]}


@st.composite
def _case(draw, tier):
    static_pool, z_pool, y_pool = draw(st.sampled_from(LABELS))
    static = static_pool[:draw(st.sampled_from([1, 2, 2, 3, 3]))]
    api = draw(st.sampled_from(["transform"] * 4 + ["device"]))
    zeroed = z_pool[:draw(st.sampled_from([0, 0, 1, 1, 2, 3]))]
    any_state = y_pool[:draw(st.sampled_from([0, 0, 1, 2]))] if api == "transform" else []
    ints = [w for w in static + zeroed + any_state if isinstance(w, int)]
    min_int = draw(st.sampled_from([None, None, max(ints, default=-1) + 1, 40]))
    if api == "device":
        min_int = None  # wires given -> zeroed register, wires=None -> integers above the circuit's
        dev_wires = None if draw(st.booleans()) else list(draw(st.permutations(static + zeroed)))
        if dev_wires is None:
            zeroed = []
    spec = {"static": static, "zeroed": zeroed, "any_state": any_state, "min_int": min_int, "allow_resets": draw(st.booleans()), "api": api}
    if api == "device":
        spec["dev_wires"] = dev_wires
    prep = [{"name": "RY", "p": [draw(gen.generic_angles())], "w": [w]} for w in any_state]
    if len(any_state) == 2:
        prep.append({"name": "CNOT", "p": [], "w": list(any_state)})
    spec["prep"] = prep
    m = Machine(static)
    steps = []
    # without min_int the registers bound the number of simultaneously live dynamic wires (more is a documented AllocationError)
    capacity = 99 if (min_int is not None or (api == "device" and dev_wires is None)) else max(1, len(zeroed) + len(any_state))

    def push(s):
        steps.append(s)
        replay_into(m, s)

    for w in static:
        if draw(st.integers(0, 3)) > 0:
            push({"t": "gate", "name": "RY", "p": [draw(gen.generic_angles())], "w": [w]})
    n_steps = draw(st.integers(3, 16))
    rid = 0
    total_dyn = 0
    for _ in range(n_steps):
        live_regs = [r for r, g in m.regs.items() if g["live"]]
        moves = ["gate"] * 5
        n_live = sum(len(m.regs[r]["live"]) for r in live_regs)
        if len(live_regs) < 4 and total_dyn < 7 and n_live + 1 <= capacity:
            moves += ["open"] * 5
        if live_regs:
            moves += ["close"] * 4
        if any(m.regs[r]["kind"] == "block" for r in live_regs):
            moves += ["block"] * 2
        if any(m.regs[r]["kind"] == "borrow" for r in live_regs):
            moves += ["borrow"] * 3
        if any(m.regs[r]["kind"] == "dirty" for r in live_regs):
            moves += ["dirty"] * 2
        moves += ["mcm"]
        mv = draw(st.sampled_from(moves))
        if not m.regs and "open" in moves and draw(st.integers(0, 3)):
            mv = "open"
        if mv == "gate":
            g = draw(_gate_on(m))
            if g:
                push(g)
        elif mv == "mcm":
            tg = m.targets()
            if tg:
                push({"t": "mcm", "w": _jt(draw(st.sampled_from(tg))), "reset": draw(st.booleans())})
        elif mv == "open":
            kind = draw(st.sampled_from(["scratch"] * 4 + ["scratch-any", "compute", "compute", "block", "borrow", "dirty"]))
            k = draw(st.sampled_from([1, 1, 2])) if n_live + 2 <= capacity else 1
            state, restored = {"scratch": ("zero", False), "scratch-any": ("any", False), "compute": ("zero", True), "borrow": ("any", True)}.get(
                kind, (draw(st.sampled_from(["zero", "any"])) if kind == "block" else "any", True if kind == "block" else draw(st.booleans())))
            s = {"t": "open", "r": rid, "k": k, "state": state, "restored": restored, "kind": kind}
            if kind == "compute":
                ct = m.controls()
                comp = []
                for i in range(k):
                    avail = ct + [("d", rid, j) for j in range(i)]
                    nm = draw(st.sampled_from([n for n in CLASSICAL if NW[n] - 1 <= len(avail)]))
                    comp.append([nm, [_jt(w) for w in draw(gen.subset(avail, NW[nm] - 1))] + [["d", rid, i]]])
                    if draw(st.booleans()) and avail:
                        comp.append(["CNOT", [_jt(draw(st.sampled_from(avail))), ["d", rid, i]]])
                s["compute"] = comp
            push(s)
            rid += 1
            total_dyn += k
            # first use right away, so that the concrete wire is observable and the register matters
            own = [("d", s["r"], i) for i in range(k)]
            if kind in ("scratch", "scratch-any"):
                for d in own:
                    others = [w for w in m.controls() if w != d]
                    if others and draw(st.integers(0, 3)):
                        push(_ctrl_on(draw, draw(st.sampled_from(others)), d))
                    else:
                        push({"t": "gate", "name": "RY", "p": [draw(gen.generic_angles())], "w": [_jt(d)]})
            elif kind == "compute":
                tg = m.targets()
                if tg:
                    push(_ctrl_on(draw, draw(st.sampled_from(own)), draw(st.sampled_from(tg))))
            elif kind == "dirty":
                push({"t": "gate", "name": "RY", "p": [draw(gen.generic_angles())], "w": [_jt(own[0])]})
        elif mv == "close":
            r = draw(st.sampled_from(live_regs))
            live = sorted(m.regs[r]["live"])
            idx = live if draw(st.integers(0, 2)) or len(live) == 1 else [draw(st.sampled_from(live))]
            if m.can_close(r, idx):
                push({"t": "close", "r": r, "idx": idx})
        elif mv == "block":
            r = draw(st.sampled_from([r for r in live_regs if m.regs[r]["kind"] == "block"]))
            own = [("d", r, i) for i in sorted(m.regs[r]["live"])]
            ops = []
            for _ in range(draw(st.integers(1, 3))):
                partner = m.targets()
                nm = draw(st.sampled_from(FREE1 + DIAG1 + (["CNOT", "CRY", "CZ", "SWAP", "IsingXX"] if partner or len(own) > 1 else [])))
                if NW[nm] == 1:
                    ws = [draw(st.sampled_from(own))]
                else:
                    others = [w for w in partner + own]
                    a = draw(st.sampled_from(own))
                    b = draw(st.sampled_from([w for w in others if w != a]))
                    ws = [a, b] if draw(st.booleans()) else [b, a]
                ops.append([nm, [draw(gen.generic_angles()) for _ in range(NPAR[nm])], [_jt(w) for w in ws]])
            push({"t": "block", "r": r, "ops": ops})
        elif mv == "borrow":
            r = draw(st.sampled_from([r for r in live_regs if m.regs[r]["kind"] == "borrow"]))
            tg, ct = m.targets(), m.controls()
            if tg and len(ct) >= 2:
                t = draw(st.sampled_from(tg))
                cs = [c for c in ct if c != t]
                nc = draw(st.sampled_from([1, 2])) if len(cs) >= 2 else 1
                if cs:
                    push({"t": "borrow", "r": r, "i": draw(st.sampled_from(sorted(m.regs[r]["live"]))), "c": [_jt(c) for c in draw(gen.subset(cs, nc))], "tgt": _jt(t)})
        elif mv == "dirty":
            r = draw(st.sampled_from([r for r in live_regs if m.regs[r]["kind"] == "dirty"]))
            own = [("d", r, i) for i in sorted(m.regs[r]["live"])]
            nm = draw(st.sampled_from(FREE1 + DIAG1 + (["CNOT", "SWAP", "CRX"] if len(own) > 1 else [])))
            ws = draw(gen.subset(own, NW[nm]))
            push({"t": "gate", "name": nm, "p": [draw(gen.generic_angles()) for _ in range(NPAR[nm])], "w": [_jt(w) for w in ws]})
    # close some of the remaining registers
    for r in [r for r, g in m.regs.items() if g["live"]]:
        if draw(st.integers(0, 2)) and m.can_close(r, sorted(m.regs[r]["live"])):
            push({"t": "close", "r": r, "idx": sorted(m.regs[r]["live"])})
    ms = m.measurable()
    k = draw(st.integers(1, len(ms)))
    keep = [w for w in draw(gen.subset(ms, k))]
    if not any(not _is_dyn(w) for w in keep):
        keep.append(static[0])
    spec["steps"] = steps
    spec["meas"] = [_jt(w) for w in keep]
    return spec


def replay_into(m, s):
    t = s["t"]
    if t == "open":
        m.open(s["r"], s["k"], s["state"], s["restored"], s["kind"], [(c[0], c[1]) for c in s.get("compute", [])])
    elif t == "gate":
        m.gate(s["name"], s["p"], s["w"])
    elif t == "mcm":
        m.mcm(s["w"], s["reset"])
    elif t == "block":
        m.block(s["r"], [(o[0], o[1], o[2]) for o in s["ops"]])
    elif t == "borrow":
        m.borrow(s["r"], s["i"], s["c"], s["tgt"])
    elif t == "close":
        m.close(s["r"], s["idx"])
    else:
        raise Reject("unknown step")


def strategy(tier):
    return _case(tier)


def enumerate_cases(tier):
    """documented examples (with the documented assignment in 'expect': register -> concrete wire per dynamic wire)."""
    def two(state):
        return [{"t": "open", "r": 0, "k": 1, "state": state, "restored": False, "kind": "scratch" if state == "zero" else "dirty"},
                {"t": "gate", "name": "PauliX", "p": [], "w": [["d", 0, 0]]}, {"t": "close", "r": 0, "idx": [0]},
                {"t": "open", "r": 1, "k": 1, "state": state, "restored": False, "kind": "scratch" if state == "zero" else "dirty"},
                {"t": "gate", "name": "PauliY", "p": [], "w": [["d", 1, 0]]}, {"t": "close", "r": 1, "idx": [0]}]
    base = {"static": ["s"], "prep": [], "meas": ["s"], "api": "transform", "min_int": None, "allow_resets": True, "zeroed": [], "any_state": []}
    yield {**base, "steps": two("zero"), "zeroed": ["a", "b"], "expect": {"0": ["b"], "1": ["a"]}, "expect_resets": 0}
    yield {**base, "steps": two("zero"), "zeroed": ["a"], "expect": {"0": ["a"], "1": ["a"]}, "expect_resets": 1}
    yield {**base, "steps": two("zero"), "zeroed": ["a"], "allow_resets": False, "expect_error": True}
    yield {**base, "steps": two("zero"), "any_state": ["a", "b"], "expect": {"0": ["b"], "1": ["b"]}, "expect_resets": 2}
    yield {**base, "steps": two("any"), "any_state": ["a", "b"], "expect": {"0": ["b"], "1": ["b"]}, "expect_resets": 0}
    yield {**base, "steps": two("zero"), "min_int": 0, "expect": {"0": [0], "1": [0]}, "expect_resets": 1}
    multi = [{"t": "open", "r": 0, "k": 1, "state": "zero", "restored": False, "kind": "scratch"}, {"t": "gate", "name": "PauliX", "p": [], "w": [["d", 0, 0]]},
             {"t": "close", "r": 0, "idx": [0]}, {"t": "open", "r": 1, "k": 2, "state": "zero", "restored": False, "kind": "scratch"},
             {"t": "gate", "name": "Toffoli", "p": [], "w": ["s", ["d", 1, 0], ["d", 1, 1]]}, {"t": "close", "r": 1, "idx": [0, 1]}]
    yield {**base, "steps": multi, "min_int": 0, "expect": {"0": [0], "1": [0, 1]}, "expect_resets": 1}
    yield {**base, "steps": multi, "zeroed": ["a"], "min_int": 0, "expect": {"0": ["a"], "1": ["a", 0]}, "expect_resets": 1}
    # device_resolve_dynamic_wires docstring
    dev = [{"t": "gate", "name": "Hadamard", "p": [], "w": [0]}] + two("zero")
    yield {**base, "static": [0], "meas": [0], "steps": dev, "api": "device", "dev_wires": [0, "a", "b"], "zeroed": ["a", "b"], "expect": {"0": ["a"], "1": ["b"]}, "expect_resets": 0}
    yield {**base, "static": [0], "meas": [0], "steps": dev, "api": "device", "dev_wires": None, "expect": {"0": [1], "1": [1]}, "expect_resets": 1}


# ----------------------------------------------------------------------------------------------
# building tapes / reference programs
# ----------------------------------------------------------------------------------------------
def _matrix(name, params, adjoint=False):
    op = specs.build_op({"op": name, "p": params, "w": list(range(NW[name]))})
    M = sim.op_matrix(op)
    return M.conj().T if adjoint else M


def _build_input(spec, m, meas):
    """PennyLane tape with DynamicWire objects; returns (tape, dyn objects by token, alloc op index per token, dealloc index per token)."""
    import pennylane as qp
    from pennylane.allocation import Allocate, Deallocate
    from pennylane.ops.mid_measure import MidMeasure
    from pennylane.wires import DynamicWire

    dw = {}
    ops = [specs.build_op({"op": p["name"], "p": p["p"], "w": p["w"]}) for p in spec["prep"]]

    def W(t):
        return dw[t] if _is_dyn(t) else t

    born, died = {}, {}
    uid = 0
    for ins in m.out:
        if ins[0] == "alloc":
            _, rid, k, state, restored = ins
            toks = [("d", rid, i) for i in range(k)]
            for t in toks:
                dw[t] = DynamicWire()
                born[t] = len(ops)
            ops.append(Allocate([dw[t] for t in toks], state=qp.allocation.AllocateState(state), restored=restored))
        elif ins[0] == "dealloc":
            for t in ins[1]:
                died[t] = len(ops)
            ops.append(Deallocate([dw[t] for t in ins[1]]))
        elif ins[0] == "mcm":
            ops.append(MidMeasure(wires=[W(ins[1])], reset=ins[2], meas_uid=f"user{uid}"))
            uid += 1
        else:
            op = specs.build_op({"op": ins[1], "p": ins[2], "w": [W(t) for t in ins[3]]})
            ops.append(qp.adjoint(op) if ins[0] == "adjoint" else op)
    tape = qp.tape.QuantumScript(ops, [qp.probs(wires=[W(t) for t in meas])])
    return tape, dw, born, died


def _fresh_program(spec, m, meas):
    """reference: every dynamic wire gets its own fresh axis in |0>; any_state wires are prepared but never lent."""
    toks = []
    for ins in m.out:
        if ins[0] == "alloc":
            toks += [("d", ins[1], i) for i in range(ins[2])]
    order = list(m.static) + toks
    ax = {t: i for i, t in enumerate(order)}
    prog = []
    key = 0
    for ins in m.out:
        if ins[0] in ("gate", "adjoint"):
            prog.append(("U", _matrix(ins[1], ins[2], ins[0] == "adjoint"), [ax[t] for t in ins[3]]))
        elif ins[0] == "mcm":
            prog.append(("M", ax[ins[1]], key, ins[2], None))
            key += 1
    return prog, len(order), [ax[t] for t in meas]


def _tape_program(tape, order):
    ax = {w: i for i, w in enumerate(order)}
    prog = []
    marks = []  # program index per tape op index
    key = 0
    for op in tape.operations:
        marks.append(len(prog))
        if type(op).__name__ == "MidMeasure":
            if op.postselect is not None:
                raise Reject("unexpected postselection")
            prog.append(("M", ax[op.wires[0]], key, bool(op.reset), None))
            key += 1
        else:
            prog.append(("U", sim.op_matrix(op), [ax[w] for w in op.wires]))
    return prog, marks


def _probs(prog, n, axes):
    ex = dyn2.Exact(prog, n)
    r = dyn2.reduced(ex.rho(), n, axes)
    return np.clip(np.real(np.diag(r)), 0, 1)


# ----------------------------------------------------------------------------------------------
# check
# ----------------------------------------------------------------------------------------------
def check(spec):
    import pennylane as qp
    from pennylane.exceptions import AllocationError
    from pennylane.wires import DynamicWire

    m, meas = replay(spec)
    static = list(m.static)
    zeroed = [_tok(w) for w in spec["zeroed"]]
    any_state = [_tok(w) for w in spec["any_state"]]
    min_int = spec["min_int"]
    api = spec["api"]
    ints = [w for w in static + zeroed + any_state if isinstance(w, int)]
    if len(set(static + zeroed + any_state)) != len(static + zeroed + any_state) or (min_int is not None and ints and min_int <= max(ints)):
        raise Reject("registers / min_int overlap the circuit")
    if any(set(p["w"]) - set(spec["any_state"]) for p in spec["prep"]):
        raise Reject("prep outside any_state")
    n_meas = sum(1 for i in m.out if i[0] == "mcm")
    n_alloc = sum(i[2] for i in m.out if i[0] == "alloc")
    if n_meas > 6 or len(static) + n_alloc > 11:
        raise Reject("too large for the reference")
    tape, dw, born, died = _build_input(spec, m, meas)
    feats = {"api": api, "allow_resets": bool(spec["allow_resets"]), "min_int": min_int is not None, "n_zeroed": len(zeroed), "n_any": len(any_state)}
    try:
        if api == "transform":
            (out,), fn = qp.transforms.resolve_dynamic_wires(tape, zeroed=zeroed, any_state=any_state, min_int=min_int, allow_resets=spec["allow_resets"])
        else:
            from pennylane.devices.preprocess import device_resolve_dynamic_wires

            dev_wires = spec.get("dev_wires")
            (out,), fn = device_resolve_dynamic_wires(tape, wires=qp.wires.Wires(dev_wires) if dev_wires else None, allow_resets=spec["allow_resets"])
            # documented: device wires not present in the tape / integers above all integer wires present in the tape
            in_tape = [w for w in tape.wires if not isinstance(w, DynamicWire)]
            if dev_wires:
                zeroed, any_state, min_int = [_tok(w) for w in dev_wires if _tok(w) not in in_tape], [], None
            else:
                zeroed, any_state, min_int = [], [], max((w for w in in_tape if isinstance(w, int)), default=-1) + 1
            static = in_tape
    except AllocationError as e:
        if spec.get("expect_error"):
            return Result(True, ["documented-example", "alloc-error"])
        if min_int is not None or (api == "device" and not spec.get("dev_wires")):
            raise Viol("allocation-error-with-min-int", f"AllocationError although new integer wires may be created: {e}", sig=api, features=feats) from None
        if "expect" in spec:
            raise Viol("documented-example", f"AllocationError for a documented example: {e}", sig=api, features=feats) from None
        raise Reject("AllocationError (insufficient registers)") from None
    if spec.get("expect_error"):
        raise Viol("documented-example", "documented AllocationError not raised", sig=api, features=feats)

    # ---- structural walk ---------------------------------------------------------------------
    in_ops = tape.operations
    out_ops = out.operations
    user_uids = {op.meas_uid for op in in_ops if type(op).__name__ == "MidMeasure"}
    concrete = {}      # DynamicWire -> concrete wire
    start_pos = {}     # DynamicWire -> index into out_ops where its life starts (after its inserted resets)
    resets = []        # (allocate op, [concrete wires reset at this allocation])
    n_resets = 0
    j = 0

    def bind(d, c, where):
        if isinstance(c, DynamicWire):
            raise Viol("unresolved-dynamic-wire", f"{where}: a DynamicWire is left in the output", sig=api, features=feats)
        if d in concrete and concrete[d] != c:
            raise Viol("map-changes-during-life", f"{where}: dynamic wire mapped to {concrete[d]!r} and later to {c!r}", sig=api, features=feats)
        concrete[d] = c

    group = []         # Allocate ops of the current run of Allocate / Deallocate instructions (no output op separates them)

    def close_group():
        nonlocal j, n_resets
        if not group:
            return
        got = []
        while j < len(out_ops) and type(out_ops[j]).__name__ == "MidMeasure" and out_ops[j].meas_uid not in user_uids:
            r = out_ops[j]
            if not r.reset or r.postselect is not None:
                raise Viol("inserted-op", f"inserted measurement {r!r} is not a plain reset", sig=api, features=feats)
            got.append(r.wires[0])
            j += 1
        zero_wires = [d for a in group for d in a.wires if a.state == "zero"]
        if got and not spec["allow_resets"]:
            raise Viol("inserted-op", f"{len(got)} resets inserted with allow_resets=False", sig=api, features=feats)
        if len(got) > len(zero_wires):
            raise Viol("inserted-op", f"{len(got)} resets {got} at allocations requesting {len(zero_wires)} zero-state wires", sig=api, features=feats)
        n_resets += len(got)
        resets.append((list(group), got))
        for a in group:
            for d in a.wires:
                start_pos[d] = j
        group.clear()

    for op in in_ops:
        if op.name == "Allocate":
            group.append(op)
            continue
        if op.name == "Deallocate":
            continue
        close_group()
        if j >= len(out_ops):
            raise Viol("op-missing", f"output ends before input op {op!r}", sig=api, features=feats)
        o = out_ops[j]
        same = type(o) is type(op) and len(o.wires) == len(op.wires) and len(o.data) == len(op.data) and all(
            np.allclose(np.asarray(a), np.asarray(b)) for a, b in zip(o.data, op.data))
        if same and type(op).__name__ == "MidMeasure":
            same = o.meas_uid == op.meas_uid and o.reset == op.reset and o.postselect == op.postselect
        if same and type(op).__name__ == "Adjoint":
            same = type(o.base) is type(op.base)
        if not same:
            raise Viol("op-changed", f"output op {j} {o!r} does not correspond to input op {op!r}", sig=api, features=feats)
        for a, b in zip(op.wires, o.wires):
            if isinstance(a, DynamicWire):
                bind(a, b, f"op {op!r}")
            elif a != b:
                raise Viol("static-wire-changed", f"static wire {a!r} of {op!r} became {b!r}", sig=api, features=feats)
        j += 1
    close_group()
    if j != len(out_ops):
        raise Viol("extra-ops", f"{len(out_ops) - j} unexpected trailing ops: {out_ops[j:]}", sig=api, features=feats)
    if len(out.measurements) != 1 or len(out.measurements[0].wires) != len(meas):
        raise Viol("measurement-changed", f"measurements {out.measurements}", sig=api, features=feats)
    for a, b in zip(tape.measurements[0].wires, out.measurements[0].wires):
        if isinstance(a, DynamicWire):
            bind(a, b, "measurement")
        elif a != b:
            raise Viol("static-wire-changed", f"measured static wire {a!r} became {b!r}", sig=api, features=feats)
    for grp, got in resets:
        zw = [d for a in grp for d in a.wires if a.state == "zero"]
        known = [concrete[d] for d in zw if d in concrete]
        if len(known) == len(zw) and (not set(got) <= set(known) or len(set(got)) != len(got)):
            raise Viol("inserted-op", f"resets on {got} but the zero-state allocations received {known}", sig=api, features=feats)

    tok_of = {d: t for t, d in dw.items()}
    for d, c in concrete.items():
        ok = c in zeroed or c in any_state or (min_int is not None and isinstance(c, int) and not isinstance(c, bool) and c >= min_int)
        if not ok or c in static:
            raise Viol("wire-outside-resources", f"dynamic wire {tok_of[d]} resolved to {c!r}; zeroed={zeroed} any_state={any_state} min_int={min_int} static={static}",
                       sig=api, features=feats)
    end = len(in_ops)
    used = list(concrete)
    overlap = reuse = False
    for a_i, a in enumerate(used):
        for b in used[a_i + 1:]:
            ta, tb = tok_of[a], tok_of[b]
            lo = max(born[ta], born[tb])
            hi = min(died.get(ta, end), died.get(tb, end))
            if lo < hi:
                overlap = True
                if concrete[a] == concrete[b]:
                    raise Viol("aliasing", f"dynamic wires {ta} (life {born[ta]}-{died.get(ta, end)}) and {tb} (life {born[tb]}-{died.get(tb, end)}) "
                               f"are live at the same time on concrete wire {concrete[a]!r}", sig=api, features=feats)
            elif concrete[a] == concrete[b]:
                reuse = True
    if "expect" in spec:
        for rid, want in spec["expect"].items():
            got = [concrete.get(dw[("d", int(rid), i)]) for i in range(len(want))]
            if got != [_tok(w) for w in want]:
                raise Viol("documented-example", f"register {rid} resolved to {got}, documented {want}", sig=api, features=feats)
        if n_resets != spec["expect_resets"]:
            raise Viol("documented-example", f"{n_resets} resets inserted, documented {spec['expect_resets']}", sig=api, features=feats)

    # ---- semantics ----------------------------------------------------------------------------
    out_wires = list(dict.fromkeys(static + zeroed + any_state + [w for op in out_ops for w in op.wires] + list(out.measurements[0].wires)))
    if len(out_wires) > 11:
        raise Reject("too many concrete wires for the reference")
    prog, marks = _tape_program(out, out_wires)
    marks.append(len(prog))
    n_out = len(out_wires)
    if sum(1 for i in prog if i[0] == "M") > 9:
        raise Reject("too many measurements for the reference")
    zero_checked = 0
    for d in [d for grp, _ in resets for a in grp for d in a.wires if a.state == "zero"]:
        if True:
            if d not in concrete:
                continue
            c_ax = out_wires.index(concrete[d])
            st0 = np.zeros((2,) * n_out, dtype=complex)
            st0[(0,) * n_out] = 1
            from pv.ref import dyn

            for oc, psi in dyn.enumerate_branches(prog[:marks[start_pos[d]]], st0):
                one = np.take(psi, 1, axis=c_ax)
                w = float(np.vdot(psi, psi).real)
                p1 = float(np.vdot(one, one).real)
                if w > 1e-12 and p1 > 1e-9 * w:
                    raise Viol("zero-wire-not-zero", f"dynamic wire {tok_of[d]} requested in state zero received concrete wire {concrete[d]!r} which holds |1> with "
                               f"probability {p1 / w:.3e} (measurement history {oc})", sig=api, features=feats)
            zero_checked += 1
    got = _probs(prog, n_out, [out_wires.index(w) for w in out.measurements[0].wires])
    fprog, n_f, f_axes = _fresh_program(spec, m, meas)
    want = _probs(fprog, n_f, f_axes)
    res = fn([got])  # the post-processing must be the identity on the single result
    if not np.allclose(np.asarray(res), got):
        raise Viol("postprocessing", "post-processing function changes the result", sig=api, features=feats)
    err = float(np.abs(got - want).max())
    if err > TOL:
        raise Viol("results-differ", f"probs on {meas}: resolved circuit {got.tolist()}, fresh wire per allocation {want.tolist()} (|diff| {err:.3e}); "
                   f"map {[(tok_of[d], c) for d, c in concrete.items()]}", sig=api, features=feats)
    kinds = sorted({g["kind"] for g in m.regs.values()})
    labels = [f"api:{api}", f"dyn-wires:{min(n_alloc, 6)}", f"used:{min(len(used), 6)}", f"resets:{min(n_resets, 4)}", f"zero-checked:{min(zero_checked, 4)}"]
    labels += [f"kind:{k}" for k in kinds]
    labels += ["overlap"] if overlap else []
    labels += ["reuse"] if reuse else []
    labels += ["new-int-wire"] if any(isinstance(c, int) and min_int is not None and c >= min_int for c in concrete.values()) else []
    labels += ["user-mcm"] if n_meas else []
    labels += ["partial-dealloc"] if any(s["t"] == "close" and len(s["idx"]) < m.regs[s["r"]]["k"] for s in spec["steps"]) else []
    labels += ["live-at-end"] if any(g["live"] for g in m.regs.values()) else []
    labels += ["documented-example"] if "expect" in spec else []
    return Result(len(used) >= 2 and (overlap or reuse), labels)


def selftest():
    dyn2.selftest()
    # the borrow identity and the compute/uncompute discipline, checked on the reference itself
    m = Machine(["a", "b", "t"])
    for w in ("a", "b", "t"):
        m.gate("RY", [0.7], [w])
    m.open(0, 1, "any", True, "borrow")
    m.borrow(0, 0, ["a", "b"], "t")
    m.close(0, [0])
    prog, n, axes = _fresh_program({}, m, ["a", "b", "t"])
    got = _probs(prog, n, axes)
    m2 = Machine(["a", "b", "t"])
    for w in ("a", "b", "t"):
        m2.gate("RY", [0.7], [w])
    m2.gate("Toffoli", [], ["a", "b", "t"])
    prog2, n2, axes2 = _fresh_program({}, m2, ["a", "b", "t"])
    assert np.allclose(got, _probs(prog2, n2, axes2))
    try:
        m.gate("CNOT", [], [("d", 0, 0), "a"])
        raise AssertionError("dead wire accepted")
    except Reject:
        pass
