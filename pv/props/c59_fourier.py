"""C59 — Fourier tools are sound: spectra are supersets of the true spectrum, coefficients exact, reconstruct reproduces f."""
import itertools
import warnings

import numpy as np
from hypothesis import strategies as st

from pv import gen, specs
from pv.engine import Reject, Result, Viol
from pv.ref import fourier_ref as FR
from pv.ref import gates as G
from pv.ref import sim

ID = "C59"
TECHNIQUE = ("hypothesis-generated encoding circuits (repeated / scaled / linearly mixed encodings, multi-parameter encoders) and random "
             "trigonometric polynomials; true spectrum from DFT of an independent batched gate-table simulator, generating coefficients and "
             "point-wise function values as oracles")
RULE = (
    "Six case kinds. circuit: 1-3 wires, 1-3 inputs, 2-9 gates mixing fixed gates, constant rotations and 1-4 marked single-parameter "
    "encoding gates (22 classes with a generator incl. controlled rotations, Ising, excitations, MultiRZ, PauliRot), output = expval of a "
    "Pauli word / Hermitian / linear combination or one probs entry; circuit_spectrum(encoding_gates None / subset / with an unknown "
    "marker). qnode: same circuits but gate parameters are affine forms sum_j (p/q) x_j + b over scalar and array QNode arguments "
    "(scales from {+-1,+-2,3,1/2,3/2,1/4,23/10,2/5}), multi-parameter encoders Rot/U2/U3/CRot, optional trailing weights argument; "
    "qnode_spectrum selected via argnum / name set / index dict / all, autograd or jax arguments. Oracle for both: for every reported "
    "input j the reference circuit (numpy gate table, never PennyLane) is sampled along x_j on a grid commensurate with all scales "
    "(other inputs at generic generated values), DFT gives the true spectrum (model validated off-grid at 4 points to 1e-9); every "
    "frequency with amplitude > 1e-8 must be in the reported list (|df| <= 1e-6; supersets allowed); reported lists are sorted, "
    "symmetric, contain 0 and carry exactly the requested keys; sin/square pre-processing must raise the documented ValueError. "
    "coeffs: real trigonometric polynomial sum c_n e^{i n.x} (1-3 inputs, per-input degree <= 4, complex c_n from the strategy); "
    "coefficients(f, n, degree >= true degree | int or tuple | use_broadcasting) == c_n in numpy FFT order (1e-9); with lowpass_filter and "
    "threshold >= true degree the coefficients up to the (possibly smaller) requested degree are exact. coeffs_qnode: the same for a "
    "default.qubit QNode of an integer-frequency encoding circuit against the DFT of the reference simulator. recon_poly / recon_qnode: "
    "reconstruct(f, ids, nums_frequency | spectra [| shifts])(args) evaluated at 50 fixed quasi-random points in [-7,7] equals the "
    "polynomial / the reference simulator along that parameter (1e-7; spectra are supersets of the true spectrum, optionally taken from "
    "qnode_spectrum itself; an ill-conditioning warning = rejected). Non-trivial: >= 2 encoding gate parameters on one input "
    "(spectra), degree >= 2 or >= 2 inputs (coefficients), >= 2 frequencies (reconstruct)."
)
ASSUMPTIONS = [
    "coefficients sign convention: numpy forward DFT, f(x) = sum_n c_n e^{+i n.x} with output in numpy FFT order (doc/code/qp_fourier.rst: "
    "'computed using NumPy's discrete Fourier transform ... standard output ordering'); for real f this equals the e^{-i n.x} sum of the docstring with n -> -n.",
    "Soundness only: reported spectra may be strict supersets (documented: 'all frequencies that will potentially appear').",
    "All QNode arguments are trainable autograd tensors / jax arrays (qnode_spectrum documents that pure numpy arguments are not supported).",
    "reconstruct is also exercised on plain callables (the implementation takes the signature of non-QNode callables explicitly).",
]
BUDGET = {"quick": {"examples": 140}, "thorough": {"examples": 6000, "shards": 16}}
SHRINK_LISTS = ("ops",)

# single-parameter encoding gates with a generator: name -> number of wires (0 = variable)
ENC = {"RX": 1, "RY": 1, "RZ": 1, "PhaseShift": 1, "U1": 1, "CRX": 2, "CRY": 2, "CRZ": 2, "ControlledPhaseShift": 2,
       "CPhaseShift00": 2, "CPhaseShift01": 2, "CPhaseShift10": 2, "IsingXX": 2, "IsingYY": 2, "IsingZZ": 2, "IsingXY": 2,
       "SingleExcitation": 2, "SingleExcitationPlus": 2, "SingleExcitationMinus": 2, "FermionicSWAP": 2, "MultiRZ": 0, "PauliRot": 0}
# gates whose generator has integer eigenvalue differences only (2*pi periodic at integer scale)
INT_ENC = ["RX", "RY", "RZ", "PhaseShift", "U1", "ControlledPhaseShift", "CPhaseShift00", "CPhaseShift01", "CPhaseShift10",
           "IsingXX", "IsingYY", "IsingZZ", "SingleExcitationPlus", "SingleExcitationMinus", "FermionicSWAP", "MultiRZ", "PauliRot"]
MULTI = {"Rot": (3, 1), "U2": (2, 1), "U3": (3, 1), "CRot": (3, 2)}
FIXED = {"Hadamard": 1, "PauliX": 1, "S": 1, "T": 1, "SX": 1, "CNOT": 2, "CZ": 2, "SWAP": 2, "Toffoli": 3}
CONST = {"RX": 1, "RY": 1, "RZ": 1, "Rot": 3, "CRY": 1, "IsingXY": 1}
SCALES = [(1, 1), (1, 1), (1, 1), (2, 1), (3, 1), (-1, 1), (-2, 1), (1, 2), (3, 2), (1, 4), (23, 10), (2, 5)]
ARG_NAMES = ["x", "y", "z"]

val = st.floats(0.15, 2.9).map(lambda v: round(v, 4)).flatmap(lambda v: st.sampled_from([v, -v]))


# ----------------------------------------------------------------------------------------------------------------
# strategies
# ----------------------------------------------------------------------------------------------------------------

def _wires(n, k):
    return st.permutations(list(range(n))).map(lambda p: list(p)[:k])


@st.composite
def enc_gate(draw, n, m, mode, pool=None):
    """mode 'mark': parameter is exactly x_j; 'lin': affine form; 'int': integer-frequency form (2*pi periodic)."""
    names = sorted(k for k, nw in ENC.items() if nw <= n) if pool is None else [k for k in pool if ENC[k] <= n]
    # (FermionicSWAP used to be down-weighted in "lin" mode while its complex-parameter decomposition crashed qnode_spectrum;
    # repaired in the repository, so every encoder class has the same share again)
    name = draw(st.sampled_from(names))
    nw = ENC[name] or draw(st.integers(1, n))
    op = {"g": name, "w": draw(_wires(n, nw))}
    if name == "PauliRot":
        word = draw(st.text("XYZ", min_size=nw, max_size=nw))
        op["kw"] = {"pauli_word": word}
    j = draw(st.sampled_from(list(range(m)) + [0, 0]))  # biased: repeated encodings of input 0
    if mode == "mark":
        op["p"] = [{"t": [[j, 1, 1]], "b": 0.0}]
        op["mark"] = j
    elif mode == "int":
        s = draw(st.sampled_from([1, 1, 2, -1]))
        op["p"] = [{"t": [[j, s, 1]], "b": draw(st.sampled_from([0.0, 0.0, 0.4]))}]
    else:
        op["p"] = [draw(lin_form(m, j))]
    return op


@st.composite
def lin_form(draw, m, j=None):
    j = draw(st.sampled_from(list(range(m)) + [0, 0])) if j is None else j
    terms = [[j, *draw(st.sampled_from(SCALES))]]
    if m > 1 and draw(st.integers(0, 4)) == 0:
        j2 = draw(st.sampled_from([q for q in range(m) if q != j]))
        terms.append([j2, *draw(st.sampled_from(SCALES))])
    return {"t": terms, "b": draw(st.sampled_from([0.0, 0.0, 0.3, -1.1]))}


@st.composite
def multi_gate(draw, n, m):
    name = draw(st.sampled_from(sorted(k for k, (_, nw) in MULTI.items() if nw <= n)))
    npar, nw = MULTI[name]
    ps = [draw(st.one_of(lin_form(m), val.map(lambda v: {"c": v}))) for _ in range(npar)]
    if all("c" in p for p in ps):
        ps[0] = draw(lin_form(m))
    return {"g": name, "w": draw(_wires(n, nw)), "p": ps}


@st.composite
def plain_gate(draw, n):
    if draw(st.booleans()):
        name = draw(st.sampled_from(sorted(k for k, nw in FIXED.items() if nw <= n)))
        return {"g": name, "w": draw(_wires(n, FIXED[name]))}
    name = draw(st.sampled_from(sorted(k for k in CONST if (2 if k in ("CRY", "IsingXY") else 1) <= n)))
    nw = 2 if name in ("CRY", "IsingXY") else 1
    return {"g": name, "w": draw(_wires(n, nw)), "p": [{"c": draw(val)} for _ in range(CONST[name])]}


@st.composite
def out_spec(draw, n, allow_probs=True):
    wires = list(range(n))
    if allow_probs and draw(st.integers(0, 5)) == 0:
        return {"probs": True, "idx": draw(st.integers(0, 2**n - 1))}
    return {"obs": draw(gen.observable(wires))}


@st.composite
def enc_circuit(draw, mode, max_enc=4, pool=None, n_max=3, m_max=3):
    n = draw(st.integers(1, n_max))
    m = draw(st.integers(1, m_max))
    ops = [{"g": "RY", "w": [w], "p": [{"c": draw(val)}]} for w in range(n)]
    n_enc = draw(st.integers(1, max_enc))
    for i in range(n_enc):
        if mode == "lin" and draw(st.integers(0, 4)) == 0:
            ops.append(draw(multi_gate(n, m)))
        else:
            ops.append(draw(enc_gate(n, m, mode, pool)))
        for _ in range(draw(st.integers(0, 2))):
            ops.append(draw(plain_gate(n)))
    return {"n": n, "m": m, "ops": ops, "x": [draw(val) for _ in range(m)], "out": draw(out_spec(n, allow_probs=(mode != "int")))}


@st.composite
def layout(draw, m):
    """Group inputs 0..m-1 into QNode arguments: list of {"name", "idx": [..] (array) | int (scalar)}."""
    args = []
    j = 0
    while j < m:
        k = draw(st.integers(1, m - j))
        name = ARG_NAMES[len(args)]
        if k == 1 and draw(st.booleans()):
            args.append({"name": name, "idx": j})
        else:
            args.append({"name": name, "idx": list(range(j, j + k))})
        j += k
    return args


@st.composite
def circuit_case(draw):
    c = draw(enc_circuit("mark"))
    marks = sorted({op["mark"] for op in c["ops"] if "mark" in op})
    sel = draw(st.sampled_from(["none", "none", "subset", "unknown"]))
    eg = None
    if sel == "subset":
        eg = draw(st.lists(st.sampled_from(marks), min_size=1, unique=True))
    elif sel == "unknown":
        eg = marks + [7]
    return {"kind": "circuit", **c, "encoding_gates": eg, "decimals": draw(st.sampled_from([8, 8, 5]))}


@st.composite
def qnode_case(draw):
    c = draw(enc_circuit("lin"))
    lay = draw(layout(c["m"]))
    sel = draw(st.sampled_from(["all", "argnum", "names", "dict"]))
    has_w = draw(st.integers(0, 3)) > 0  # constants as a trainable weights argument (75%) or as python floats
    pick = draw(st.lists(st.integers(0, len(lay) - 1), min_size=1, unique=True)) if sel != "all" else list(range(len(lay)))
    elems = None
    if sel == "dict":
        elems = {}
        for a in pick:
            idx = lay[a]["idx"]
            if isinstance(idx, list) and draw(st.booleans()):
                elems[str(a)] = draw(st.lists(st.integers(0, len(idx) - 1), min_size=1, unique=True))
            else:
                elems[str(a)] = None
    nonlin = draw(st.sampled_from([None] * 9 + ["sin", "square"]))
    return {"kind": "qnode", **c, "layout": lay, "sel": sel, "pick": sorted(pick), "elems": elems, "w_arg": has_w,
            "iface": draw(st.sampled_from(["autograd", "autograd", "jax"])), "nonlin": nonlin}


@st.composite
def poly(draw, m_max=3, d_max=4):
    m = draw(st.integers(1, m_max))
    deg = [draw(st.integers(0 if m > 1 else 1, d_max if m < 3 else 2)) for _ in range(m)]
    half = [nv for nv in itertools.product(*[range(-d, d + 1) for d in deg]) if nv > tuple([0] * m)]
    cf = st.floats(-1, 1).map(lambda v: round(v, 3))
    terms = []
    # force the extreme frequency of every axis to be present so that `deg` is the true degree
    forced = []
    for a, d in enumerate(deg):
        if d:
            nv = [0] * m
            nv[a] = d
            forced.append(tuple(nv))
    rest = [nv for nv in half if nv not in forced]
    chosen = forced + (draw(st.lists(st.sampled_from(rest), max_size=6, unique=True)) if rest else [])
    for nv in chosen:
        re, im = draw(cf), draw(cf)
        if nv in forced and abs(re) + abs(im) < 0.05:
            re = 0.5
        terms.append([list(nv), re, im])
    return {"m": m, "deg": deg, "c0": draw(cf), "terms": terms}


@st.composite
def coeffs_case(draw):
    p = draw(poly())
    m, deg = p["m"], p["deg"]
    lowpass = draw(st.booleans())
    if lowpass:
        req = [draw(st.integers(0 if m > 1 else 1, d + 1)) for d in deg]
        thr_mode = draw(st.sampled_from(["none", "int", "tuple"]))
        if thr_mode == "none":
            req = [max(r, (d + 1) // 2) for r, d in zip(req, deg)]  # default threshold 2*degree must cover the true degree
            thr = None
        elif thr_mode == "int":
            thr = max(max(deg), max(req)) + draw(st.integers(0, 2))
        else:
            thr = [max(d, r) + draw(st.integers(0, 2)) for d, r in zip(deg, req)]
    else:
        req = [d + draw(st.integers(0, 2)) for d in deg]
        thr = None
    as_int = draw(st.booleans())
    if as_int:
        r = max(req)
        req = [r] * m
        if isinstance(thr, list):
            thr = [max(t, r) for t in thr]
        elif isinstance(thr, int):
            thr = max(thr, r)
    return {"kind": "coeffs", **p, "req": req, "as_int": as_int, "lowpass": lowpass, "thr": thr, "bcast": draw(st.booleans())}


@st.composite
def coeffs_qnode_case(draw):
    c = draw(enc_circuit("int", max_enc=3, pool=INT_ENC, n_max=2, m_max=2))
    return {"kind": "coeffs_qnode", **c, "extra": draw(st.integers(0, 1)), "lowpass": draw(st.booleans()), "bcast": draw(st.booleans())}


@st.composite
def recon_poly_case(draw):
    mode = draw(st.sampled_from(["nums", "spectra", "spectra_shifts"]))
    cf = st.floats(-1, 1).map(lambda v: round(v, 3))
    if mode == "nums":
        R = draw(st.integers(1, 6))
        freqs = sorted(draw(st.lists(st.integers(1, R), min_size=1, unique=True)))
        given = R + draw(st.integers(0, 2))
        shifts = None
    else:
        pool = [1.0, 2.0, 3.0, 4.0, 5.0, 6.0, 0.5, 1.5, 2.3, 0.4, 3.7]
        freqs = sorted(draw(st.lists(st.sampled_from(pool), min_size=1, max_size=4, unique=True)))
        extra = draw(st.lists(st.sampled_from(pool), max_size=1))
        given = sorted(set(freqs) | set(extra) | {0.0})
        shifts = None
        if mode == "spectra_shifts":
            R = len(given) - 1
            base = [(-1 + 2 * (i + 0.5) / (2 * R + 1)) * np.pi / max(given) * R for i in range(2 * R + 1)]
            jit = draw(st.lists(st.floats(-0.05, 0.05).map(lambda v: round(v, 3)), min_size=2 * R + 1, max_size=2 * R + 1))
            shifts = [round(b + e, 6) for b, e in zip(base, jit)]
            if draw(st.booleans()):
                shifts[R] = 0.0
    return {"kind": "recon_poly", "mode": mode, "freqs": freqs, "a0": draw(cf), "ab": [[draw(cf), draw(cf)] for _ in freqs],
            "given": given, "shifts": shifts, "x0": draw(val), "iface": draw(st.sampled_from(["float", "autograd", "jax"])),
            "f0": draw(st.booleans())}


@st.composite
def recon_qnode_case(draw):
    mode = draw(st.sampled_from(["nums", "spectra", "own"]))
    if mode == "nums":
        c = draw(enc_circuit("int", max_enc=3, pool=INT_ENC, n_max=2, m_max=3))
    else:
        c = draw(enc_circuit("lin", max_enc=3, n_max=2, m_max=3))
    c["out"] = draw(out_spec(c["n"], allow_probs=False))
    lay = draw(layout(c["m"]))
    return {"kind": "recon_qnode", **c, "layout": lay, "mode": mode, "target": draw(st.integers(0, c["m"] - 1)), "w_arg": draw(st.integers(0, 3)) > 0,
            "extra": draw(st.integers(0, 2)), "ids": draw(st.sampled_from(["dict", "none", "list", "str"])),
            "iface": draw(st.sampled_from(["autograd", "autograd", "jax"]))}


@st.composite
def utils_case(draw):
    fr = st.sampled_from([0.5, 1.0, 1.5, 2.0, 3.0, 0.25, 2.3, 0.4, 1.15, 4.0, 0.75])
    s1 = sorted(set(draw(st.lists(fr, max_size=4)) + [0.0]))
    s2 = sorted(set(draw(st.lists(fr, max_size=4)) + [0.0]))
    n = draw(st.integers(1, 3))
    g = draw(enc_gate(n, 1, "mark"))
    return {"kind": "utils", "s1": s1, "s2": s2, "gate": g, "theta": draw(val), "decimals": draw(st.sampled_from([8, 8, 3]))}


def enumerate_cases(tier):
    """join_spectra over every pair of small frequency sets (each containing 0): sums and absolute differences in both orders."""
    import itertools

    fr = [1.0, 2.0, 3.0, 5.0, 0.5]
    sets = [[0.0] + list(c) for k in (0, 1, 2) for c in itertools.combinations(fr, k)]
    g = {"g": "RX", "w": [0], "p": [{"t": [[0, 1, 1]], "b": 0.0}], "mark": 0}
    for s1 in sets:
        for s2 in sets:
            yield {"kind": "utils", "s1": s1, "s2": s2, "gate": g, "theta": 0.3, "decimals": 8}


def strategy(tier):
    return st.one_of(circuit_case(), qnode_case(), qnode_case(), qnode_case(), coeffs_case(), coeffs_qnode_case(), recon_poly_case(), recon_qnode_case(), utils_case())


# ----------------------------------------------------------------------------------------------------------------
# builders
# ----------------------------------------------------------------------------------------------------------------

def _out(spec):
    """Reference output descriptor {"O": matrix} | {"idx": basis index}."""
    o = spec["out"]
    if o.get("probs"):
        return {"idx": o["idx"]}
    obs = specs.build_op(o["obs"])
    return {"O": sim.obs_matrix(obs, list(range(spec["n"])))}


def _measure(spec, qp):
    o = spec["out"]
    if o.get("probs"):
        return qp.probs(wires=list(range(spec["n"])))
    return qp.expval(specs.build_op(o["obs"]))


def _apply_ops(spec, xs, qp, mark=False, nonlin=None, w=None):
    """Queue the circuit's gates; xs = list of scalar (possibly traced) inputs; w = optional weights tensor."""
    math = qp.math
    wi = 0
    first = True
    for op in spec["ops"]:
        ps = []
        for p in op.get("p", []):
            if "c" in p:
                if w is not None:
                    ps.append(w[wi])
                    wi += 1
                else:
                    ps.append(p["c"])
            else:
                v = p.get("b", 0.0)
                for j, num, den in p["t"]:
                    xj = xs[j]
                    if nonlin and first:
                        xj = math.sin(xj) if nonlin == "sin" else xj**2
                        first = False
                    v = v + (num / den) * xj
                ps.append(v)
        O = getattr(qp, op["g"])(*ps, wires=op["w"], **(op.get("kw") or {}))
        if mark and "mark" in op:
            qp.fourier.mark(O, f"x{op['mark']}")


def _weights(spec):
    return [p["c"] for op in spec["ops"] for p in op.get("p", []) if "c" in p]


def _make_qnode(spec, qp, lay, w_arg=False, nonlin=None):
    """QNode with named positional arguments following `lay` (+ trailing `w`)."""
    dev = qp.device("default.qubit")

    def body(args, w=None):
        xs = [None] * spec["m"]
        for a, arg in zip(lay, args):
            if isinstance(a["idx"], list):
                for k, j in enumerate(a["idx"]):
                    xs[j] = arg[k]
            else:
                xs[a["idx"]] = arg
        _apply_ops(spec, xs, qp, nonlin=nonlin, w=w)
        return _measure(spec, qp)

    k = len(lay)
    if w_arg:
        fns = {1: lambda x, w: body((x,), w), 2: lambda x, y, w: body((x, y), w), 3: lambda x, y, z, w: body((x, y, z), w)}
    else:
        fns = {1: lambda x: body((x,)), 2: lambda x, y: body((x, y)), 3: lambda x, y, z: body((x, y, z))}
    return qp.QNode(fns[k], dev)


def _args(spec, qp, lay, iface, w_arg=False):
    vals = []
    for a in lay:
        v = [spec["x"][j] for j in a["idx"]] if isinstance(a["idx"], list) else spec["x"][a["idx"]]
        vals.append(v)
    if w_arg:
        vals.append(_weights(spec))
    if iface == "jax":
        import jax.numpy as jnp

        return tuple(jnp.array(v, dtype=jnp.float64) for v in vals)
    from pennylane import numpy as pnp

    return tuple(pnp.array(v, requires_grad=True) for v in vals)


def _check_format(freqs, where, sig):
    fl = [float(f) for f in freqs]
    if fl != sorted(fl):
        raise Viol("format", f"{where}: spectrum not sorted {fl}", sig=sig)
    if not any(abs(f) < 1e-12 for f in fl):
        raise Viol("format", f"{where}: 0 not in spectrum {fl}", sig=sig)
    for f in fl:
        if not any(abs(f + g) < 1e-9 for g in fl):
            raise Viol("format", f"{where}: spectrum not symmetric {fl}", sig=sig)


def _check_sound(spec, out, j, reported, where, sig, feats):
    true, amp, _ = FR.spectrum_1d(spec, out, j)
    rep = np.array([float(f) for f in reported], dtype=float)
    for f in true:
        if not (rep.size and np.min(np.abs(rep - f)) <= 1e-6):
            raise Viol("missing-frequency", f"{where}: frequency {f} (amplitude {amp[f]:.3g}) present in the circuit output but not in "
                       f"reported spectrum {sorted(set(abs(r) for r in rep.tolist()))}; ops={spec['ops']} out={spec['out']}",
                       sig=sig, features=feats)
    return len(true), len([r for r in rep if r >= -1e-12])


def _spectrum_call(fn, args, spec, documented=None):
    """qnode_spectrum on documented-valid input must not raise; bucket crashes by the encoder classes involved.
    `documented`: text of a documented ValueError that the caller handles itself (passed through unchanged)."""
    try:
        return fn(*args)
    except Exception as e:  # noqa: BLE001
        if documented and isinstance(e, ValueError) and documented in str(e):
            raise
        enc = sorted({op["g"] for op in spec["ops"] if any("t" in p for p in op.get("p", []))})
        raise Viol("qnode_spectrum-crash", f"{type(e).__name__}: {str(e)[:300]}; encoders={enc} iface={spec['iface']} ops={spec['ops']}",
                   sig="crash:" + type(e).__name__ + (":FermionicSWAP" if "FermionicSWAP" in enc else ""),
                   features={"fn": "qnode_spectrum", "exc": type(e).__name__, "fswap": "FermionicSWAP" in enc, "iface": spec["iface"]}) from None


def _const_params(spec):
    """True if the QNode contains gate parameters that are python constants (non-trainable tape parameters)."""
    if not _weights(spec):
        return False
    if not spec.get("w_arg"):
        return True
    # a weights argument that is not among the selected arguments is not traced by jax: its gate parameters are constants too
    return spec.get("iface") == "jax" and spec.get("kind") == "qnode" and spec.get("sel") != "all"


def _enc_count(spec):
    cnt = {}
    for op in spec["ops"]:
        for p in op.get("p", []):
            for t in p.get("t", []):
                cnt[t[0]] = cnt.get(t[0], 0) + 1
    return cnt


QUASI = [(-7 + 14 * ((k * 0.6180339887498949 + 0.137) % 1.0)) for k in range(50)]


# ----------------------------------------------------------------------------------------------------------------
# checks
# ----------------------------------------------------------------------------------------------------------------

def check_circuit(spec, qp):
    out = _out(spec)
    eg = spec["encoding_gates"]
    eg_arg = None if eg is None else [f"x{j}" if j != 7 else "ghost" for j in eg]
    dev = qp.device("default.qubit")

    @qp.qnode(dev)
    def circ(x):
        _apply_ops(spec, [x[j] for j in range(spec["m"])], qp, mark=True)
        return _measure(spec, qp)

    res = qp.fourier.circuit_spectrum(circ, encoding_gates=eg_arg, decimals=spec["decimals"])(np.array(spec["x"]))
    marks = sorted({op["mark"] for op in spec["ops"] if "mark" in op})
    want = {f"x{j}" for j in marks} if eg is None else set(eg_arg)
    if set(res) != want:
        raise Viol("keys", f"circuit_spectrum keys {sorted(res)} != requested {sorted(want)}", sig="circuit_spectrum")
    if eg is not None and 7 in eg and list(res["ghost"]) != []:
        raise Viol("keys", f"spectrum of a marker not in the circuit should be [] (documented), got {res['ghost']}", sig="circuit_spectrum")
    labels = ["circuit"]
    cnt = _enc_count(spec)
    for j in marks:
        key = f"x{j}"
        if key not in res:
            continue
        _check_format(res[key], key, "circuit_spectrum")
        nt, nr = _check_sound(spec, out, j, res[key], f"circuit_spectrum[{key}]", "circuit_spectrum",
                              {"fn": "circuit_spectrum", "gates": sorted({op["g"] for op in spec["ops"] if op.get("mark") == j})})
        labels.append("tight" if nt == nr else "superset")
    labels += ["enc:" + op["g"] for op in spec["ops"] if "mark" in op]
    return Result(max(cnt.values()) >= 2, labels=labels)


def check_qnode(spec, qp):
    out = _out(spec)
    lay = spec["layout"]
    qnode = _make_qnode(spec, qp, lay, spec["w_arg"], spec["nonlin"])
    args = _args(spec, qp, lay, spec["iface"], spec["w_arg"])
    sel = spec["sel"]
    kw = {}
    if sel == "argnum":
        kw["argnum"] = list(spec["pick"])
    elif sel == "names":
        kw["encoding_args"] = {lay[a]["name"] for a in spec["pick"]}
    elif sel == "dict":
        d = {}
        for a in spec["pick"]:
            e = spec["elems"][str(a)]
            if e is None:
                d[lay[a]["name"]] = ...
            else:
                d[lay[a]["name"]] = [(k,) for k in e]
        kw["encoding_args"] = d
    # which flat inputs are varied inside gates together with an unselected input? (documented: unselected encoded inputs may
    # invalidate the result only if they "resemble encoded inputs" in the linearity test -- they are constants here, which is fine)
    fn = qp.fourier.qnode_spectrum(qnode, **kw)
    if spec["nonlin"]:
        # the first affine parameter is replaced by a non-linear function of its first input; that input must be selected
        first = next(p for op in spec["ops"] for p in op.get("p", []) if "t" in p)
        j0 = first["t"][0][0]
        a0 = next(i for i, a in enumerate(lay) if (j0 in a["idx"] if isinstance(a["idx"], list) else j0 == a["idx"]))
        if a0 not in spec["pick"]:
            raise Reject("non-linear input not among the selected arguments")
        # any other exception is a crash of qnode_spectrum and is bucketed like the crashes of the linear cases (it used to
        # propagate as a feature-less `unexpected-exception`, which hid the encoder class from the known-findings matching)
        try:
            _spectrum_call(fn, args, spec, documented="only linear classical preprocessing")
        except ValueError as e:
            if "only linear classical preprocessing" in str(e):
                return Result(True, labels=["qnode", "nonlinear-rejected:" + spec["nonlin"]])
            raise
        raise Viol("nonlinear-accepted", f"qnode_spectrum returned a spectrum for {spec['nonlin']}(x) pre-processing", sig="qnode_spectrum")
    res = _spectrum_call(fn, args, spec)
    want = {lay[a]["name"] for a in spec["pick"]}
    if sel == "all" and spec["w_arg"]:
        want.add("w")
    if set(res) != want:
        raise Viol("keys", f"qnode_spectrum keys {sorted(res)} != requested {sorted(want)}", sig="qnode_spectrum")
    labels = ["qnode", "sel:" + sel, "iface:" + spec["iface"]]
    cnt = _enc_count(spec)
    checked = []
    for a in spec["pick"]:
        name = lay[a]["name"]
        idx = lay[a]["idx"]
        if isinstance(idx, list):
            e = spec["elems"].get(str(a)) if spec["elems"] else None
            keys = {(k,): idx[k] for k in (e if e is not None else range(len(idx)))}
        else:
            keys = {(): idx}
        if set(res[name]) != set(keys):
            raise Viol("keys", f"qnode_spectrum[{name}] keys {sorted(res[name])} != requested {sorted(keys)}", sig="qnode_spectrum")
        for k, j in keys.items():
            _check_format(res[name][k], f"{name}{k}", "qnode_spectrum")
            gates = sorted({op["g"] for op in spec["ops"] for p in op.get("p", []) for t in p.get("t", []) if t[0] == j})
            nt, nr = _check_sound(spec, out, j, res[name][k], f"qnode_spectrum[{name}][{k}]", "qnode_spectrum",
                                  {"fn": "qnode_spectrum", "gates": gates, "const_params": _const_params(spec), "iface": spec["iface"]})
            labels.append("tight" if nt == nr else "superset")
            checked.append(j)
    labels += ["enc:" + op["g"] for op in spec["ops"] if any("t" in p for p in op.get("p", []))]
    return Result(any(cnt.get(j, 0) >= 2 for j in checked), labels=labels)


def _poly_fn(spec):
    terms = [(np.array(nv), complex(re, im)) for nv, re, im in spec["terms"]]
    c0 = spec["c0"]

    def f(x):
        tot = c0
        for nv, c in terms:
            ph = sum(int(n) * x[a] for a, n in enumerate(nv))
            tot = tot + 2 * (c * np.exp(1j * ph)).real
        return tot

    return f


def _expected_coeffs(spec, req):
    shape = [2 * r + 1 for r in req]
    E = np.zeros(shape, dtype=complex)
    E[tuple([0] * len(req))] = spec["c0"]
    for nv, re, im in spec["terms"]:
        if all(abs(n) <= r for n, r in zip(nv, req)):
            E[tuple(n % s for n, s in zip(nv, shape))] += complex(re, im)
            E[tuple((-n) % s for n, s in zip(nv, shape))] += complex(re, -im)
    return E


def _call_coefficients(qp, f, m, spec, req, thr):
    degree = req[0] if spec.get("as_int") else tuple(req)
    kw = {}
    if spec["lowpass"]:
        kw["lowpass_filter"] = True
        if thr is not None:
            kw["filter_threshold"] = thr if isinstance(thr, int) else tuple(thr)
    if spec["bcast"]:
        kw["use_broadcasting"] = True
    return np.asarray(qp.fourier.coefficients(f, m, degree, **kw))


def check_coeffs(spec, qp):
    f = _poly_fn(spec)
    req = spec["req"]
    got = _call_coefficients(qp, f, spec["m"], spec, req, spec["thr"])
    E = _expected_coeffs(spec, req)
    if got.shape != E.shape:
        raise Viol("coefficients-shape", f"shape {got.shape} expected {E.shape}", sig="coefficients")
    err = float(np.abs(got - E).max())
    if err > 1e-9:
        i = np.unravel_index(np.argmax(np.abs(got - E)), E.shape)
        raise Viol("coefficients-value", f"max error {err:.3g} at index {i}: got {got[i]}, generating coefficient {E[i]}; deg={spec['deg']} "
                   f"req={req} lowpass={spec['lowpass']} thr={spec['thr']} bcast={spec['bcast']} terms={spec['terms']}",
                   sig="coefficients:" + ("lowpass" if spec["lowpass"] else "plain"),
                   features={"fn": "coefficients", "lowpass": spec["lowpass"], "bcast": spec["bcast"], "m": spec["m"]})
    trunc = any(r < d for r, d in zip(req, spec["deg"]))
    labels = ["coeffs", f"m={spec['m']}", "lowpass" if spec["lowpass"] else "plain", "bcast" if spec["bcast"] else "loop"]
    if trunc:
        labels.append("truncating-filter")
    return Result(max(spec["deg"]) >= 2 or spec["m"] >= 2, labels=labels)


def check_coeffs_qnode(spec, qp):
    out = _out(spec)
    m = spec["m"]
    coeff = [[FR.coeff_of(p, j) for op in spec["ops"] for p in op.get("p", [])] for j in range(m)]
    deg = [int(sum(abs(c) for c in cs)) for cs in coeff]
    if np.prod([2 * (d + spec["extra"]) + 1 for d in deg]) > 300:
        raise Reject("grid too large")
    dev = qp.device("default.qubit")

    @qp.qnode(dev)
    def circ(x):
        _apply_ops(spec, [x[j] for j in range(m)], qp)
        return _measure(spec, qp)

    req = [d + spec["extra"] for d in deg]
    if spec["lowpass"]:
        req = [max(0 if m > 1 else 1, (d + 1) // 2) for d in deg]
    req = [max(r, 1) if m == 1 else r for r in req]
    sp = {**spec, "as_int": False}
    got = _call_coefficients(qp, circ, m, sp, req, None)
    # reference: DFT of the reference simulator on an own, finer grid
    Ns = [2 * d + 3 for d in deg]
    grids = [2 * np.pi * np.arange(N) / N for N in Ns]
    pts = np.array(list(itertools.product(*grids)))
    vals = FR.f_batch(spec, out, [pts[:, j] for j in range(m)], len(pts)).reshape(Ns)
    F = np.fft.fftn(vals) / vals.size
    E = np.zeros([2 * r + 1 for r in req], dtype=complex)
    for nv in itertools.product(*[range(-r, r + 1) for r in req]):
        if all(abs(n) <= d for n, d in zip(nv, deg)):
            E[tuple(n % (2 * r + 1) for n, r in zip(nv, req))] = F[tuple(n % N for n, N in zip(nv, Ns))]
    if got.shape != E.shape:
        raise Viol("coefficients-shape", f"shape {got.shape} expected {E.shape}", sig="coefficients")
    err = float(np.abs(got - E).max())
    if err > 1e-8:
        raise Viol("coefficients-qnode", f"max error {err:.3g}; deg={deg} req={req} lowpass={spec['lowpass']} ops={spec['ops']}",
                   sig="coefficients:qnode", features={"fn": "coefficients", "lowpass": spec["lowpass"], "bcast": spec["bcast"]})
    return Result(max(deg) >= 2 or m >= 2, labels=["coeffs_qnode", f"m={m}", "lowpass" if spec["lowpass"] else "plain",
                                                     "bcast" if spec["bcast"] else "loop"])


def _scalar(v, iface):
    if iface == "jax":
        import jax.numpy as jnp

        return jnp.array(v, dtype=jnp.float64)
    if iface == "autograd":
        from pennylane import numpy as pnp

        return pnp.array(v, requires_grad=True)
    return v


def _recon_call(fn_factory):
    with warnings.catch_warnings(record=True) as rec:
        warnings.simplefilter("always")
        out = fn_factory()
    if any("condition number" in str(w.message) for w in rec):
        raise Reject("documented ill-conditioning warning")
    return out


def check_recon_poly(spec, qp):
    freqs = spec["freqs"]
    a0, ab = spec["a0"], spec["ab"]
    math = qp.math

    def f(x):
        tot = a0
        for w, (a, b) in zip(freqs, ab):
            tot = tot + a * math.cos(w * x) + b * math.sin(w * x)
        return tot

    def fnp(x):
        return a0 + sum(a * np.cos(w * x) + b * np.sin(w * x) for w, (a, b) in zip(freqs, ab))

    x0 = spec["x0"]
    arg = _scalar(x0, spec["iface"])
    if spec["mode"] == "nums":
        kw = {"nums_frequency": {"x": {(): spec["given"]}}}
    else:
        kw = {"spectra": {"x": {(): list(spec["given"])}}}
        if spec["shifts"] is not None:
            kw["shifts"] = {"x": {(): np.array(spec["shifts"])}}
    call_kw = {"f0": f(arg)} if spec["f0"] else {}
    rec = _recon_call(lambda: qp.fourier.reconstruct(f, **kw)(arg, **call_kw))
    r = rec["x"][()]
    pts = np.array(QUASI)
    got = np.array([float(r(_scalar(p, spec["iface"]))) for p in pts])
    exp = fnp(pts)
    err = float(np.abs(got - exp).max())
    if err > 1e-7:
        k = int(np.argmax(np.abs(got - exp)))
        raise Viol("reconstruct-poly", f"max error {err:.3g} at x={pts[k]}: got {got[k]} expected {exp[k]}; mode={spec['mode']} "
                   f"freqs={freqs} given={spec['given']} shifts={spec['shifts']} x0={x0} f0={spec['f0']}",
                   sig="reconstruct:" + spec["mode"], features={"fn": "reconstruct", "mode": spec["mode"], "iface": spec["iface"]})
    return Result(len(freqs) >= 2, labels=["recon_poly", "mode:" + spec["mode"], "iface:" + spec["iface"], f"R={len(freqs)}"])


def check_recon_qnode(spec, qp):
    out = _out(spec)
    lay = spec["layout"]
    j = spec["target"]
    a = next(i for i, ar in enumerate(lay) if (j in ar["idx"] if isinstance(ar["idx"], list) else j == ar["idx"]))
    name = lay[a]["name"]
    key = (lay[a]["idx"].index(j),) if isinstance(lay[a]["idx"], list) else ()
    true, _, _ = FR.spectrum_1d(spec, out, j)
    qnode = _make_qnode(spec, qp, lay, spec.get("w_arg", False))
    args = _args(spec, qp, lay, spec["iface"], spec.get("w_arg", False))
    mode = spec["mode"]
    if mode == "nums":
        if any(abs(f - round(f)) > 1e-9 for f in true):
            raise AssertionError("integer-frequency generator produced a non-integer frequency")
        R = int(round(max(true, default=0.0))) + spec["extra"]
        kw = {"nums_frequency": {name: {key: R}}}
        nfreq = R
    elif mode == "spectra":
        given = sorted(set([0.0] + [round(f, 10) for f in true]))
        if spec["extra"]:
            given = sorted(set(given + [round(max(given) + 0.5 * spec["extra"], 10)]))
        if len(given) < 2:
            given = [0.0, 1.0]
        kw = {"spectra": {name: {key: given}}}
        nfreq = len(given) - 1
    else:
        spectra = _spectrum_call(qp.fourier.qnode_spectrum(qnode), args, spec)
        kw = {"spectra": spectra}
        nfreq = len([f for f in spectra[name][key] if f > 0])
        if nfreq > 30:
            raise Reject("reported spectrum too large for a cheap reconstruction")
    ids = spec["ids"]
    if ids == "dict":
        kw["ids"] = {name: [key]}
    elif ids == "list":
        kw["ids"] = [name]
    elif ids == "str":
        kw["ids"] = name
    if ids != "dict" and mode == "own":
        kw["ids"] = {name: [key]}  # keep the job list small when the spectra dict covers every parameter
    rec = _recon_call(lambda: qp.fourier.reconstruct(qnode, **kw)(*args))
    if name not in rec or key not in rec[name]:
        raise Viol("reconstruct-keys", f"reconstruction for {name}{key} missing: {list(rec)}", sig="reconstruct")
    r = rec[name][key]
    pts = np.array(QUASI)
    got = np.array([float(r(_scalar(p, spec["iface"]))) for p in pts])
    exp = FR.scan(spec, out, j, pts)
    err = float(np.abs(got - exp).max())
    scale = max(1.0, float(np.abs(exp).max()))
    if err > 1e-7 * scale:
        k = int(np.argmax(np.abs(got - exp)))
        raise Viol("reconstruct-qnode", f"max error {err:.3g} at {name}{key}={pts[k]}: got {got[k]} expected {exp[k]}; mode={mode} kw={ {k_: v for k_, v in kw.items() if k_ != 'spectra' or mode != 'own'} } "
                   f"true={true} ops={spec['ops']} out={spec['out']} x={spec['x']}",
                   sig="reconstruct:" + mode, features={"fn": "reconstruct", "mode": mode, "iface": spec["iface"], "const_params": _const_params(spec)})
    return Result(len([f for f in true if f > 0]) >= 2, labels=["recon_qnode", "mode:" + mode, "ids:" + ids, "iface:" + spec["iface"], f"R={min(nfreq, 9)}"])


def check_utils(spec, qp):
    """Public helpers: join_spectra == {a+b} u {|a-b|} (docstring); get_spectrum == non-negative eigenvalue differences of the generator."""
    s1, s2 = spec["s1"], spec["s2"]
    got = qp.fourier.join_spectra(set(s1), set(s2))
    want = {round(a + b, 10) for a in s1 for b in s2} | {round(abs(a - b), 10) for a in s1 for b in s2}
    gotr = {round(float(f), 10) for f in got}
    if gotr != want:
        raise Viol("join_spectra", f"join_spectra({s1}, {s2}) = {sorted(gotr)}, expected {sorted(want)}", sig="join_spectra")
    g = spec["gate"]
    nw = len(g["w"])
    hyper = g.get("kw") or {}
    h = 1e-5
    Up, Um = G.matrix(g["g"], [h], nw, hyper), G.matrix(g["g"], [-h], nw, hyper)
    gen = 1j * (Up - Um) / (2 * h)  # U = exp(-i theta Gen)  =>  Gen = i dU/dtheta at 0
    ev = np.linalg.eigvalsh((gen + gen.conj().T) / 2)
    dec = spec["decimals"]
    want = {round(abs(a - b), dec) + 0.0 for a in ev for b in ev}
    op = getattr(qp, g["g"])(spec["theta"], wires=g["w"], **hyper)
    got = {round(float(f), dec) + 0.0 for f in qp.fourier.get_spectrum(op, dec)}
    if got != want:
        raise Viol("get_spectrum", f"get_spectrum({op}) = {sorted(got)}, eigenvalue differences of the reference generator {sorted(want)}",
                   sig="get_spectrum:" + g["g"])
    return Result(len(s1) > 1 and len(s2) > 1, labels=["utils", "gs:" + g["g"]])


CHECKS = {"utils": check_utils, "circuit": check_circuit, "qnode": check_qnode, "coeffs": check_coeffs, "coeffs_qnode": check_coeffs_qnode,
          "recon_poly": check_recon_poly, "recon_qnode": check_recon_qnode}


def check(spec):
    import pennylane as qp

    return CHECKS[spec["kind"]](spec, qp)


def selftest():
    G.selftest()
    FR.selftest()
