"""C02 — named gates implement their documented unitaries."""
import numpy as np
from hypothesis import strategies as st

from pv import gen, specs
from pv.cmp import close, is_unitary, maxdiff
from pv.engine import Result, Viol
from pv.ref import gates as G

ID = "C02"
TECHNIQUE = "hypothesis-generated gate instances (boundary-biased angles, broadcast batches, control values) vs an independent closed-form gate table"
RULE = (
    "Every gate class in the reference table (Paulis, Cliffords, T, SX, rotations, phase shifts, U1-U3, controlled "
    "rotations/phases, Ising*, excitation gates, SWAP family, Toffoli/CCZ/CSWAP, MultiRZ, PauliRot, GlobalPhase, "
    "MultiControlledX with 1-4 controls and every control-value pattern, ctrl(gate) with random control values) x "
    "parameters from a boundary mixture (0, +-pi/4.., +-2pi, 4pi, 1e-9, U(-7,7)) x batch in {none,1,2,3}. Oracle: "
    "qp.matrix(op) (each batch element) == closed-form docstring formula with first wire most significant, at 1e-9; "
    "U^dagger U = I; also qp.matrix(op, wire_order=permuted) == explicit re-indexing. Non-trivial: a parametrised gate "
    "with parameter not 0 mod 2pi, or a non-parametrised gate class (counted once per distinct instance)."
)
ASSUMPTIONS = ["The reference table in pv/ref/gates.py was transcribed from the docstring formulas."]
BUDGET = {"quick": {"examples": 2500}, "thorough": {"examples": 60000, "shards": 16}}

NAMES = sorted(gen.ALL_GATES)


@st.composite
def _case(draw):
    kind = draw(st.sampled_from(["table"] * 6 + ["extra", "extra", "ctrl"]))
    wires = draw(gen.wire_labels(5))
    if kind == "table":
        name = draw(st.sampled_from(NAMES))
        npar, k = gen.ALL_GATES[name]
        batch = draw(st.sampled_from([None, None, None, 1, 2, 3])) if npar else None
        if batch is None:
            p = draw(st.lists(gen.angles(), min_size=npar, max_size=npar))
        else:
            p = [draw(st.lists(gen.angles(), min_size=batch, max_size=batch)) for _ in range(npar)]
        op = {"op": name, "p": p, "w": wires[:k]}
    elif kind == "extra":
        op = draw(gen.extra_gate(wires))
    else:
        base = draw(gen.gate(wires[:2], {**gen.GATES1, **{k: v for k, v in gen.GATES2.items()}}))
        ncw = draw(st.integers(1, 2))
        cw = [w for w in wires if w not in base["w"]][:ncw]
        op = {"op": "ctrl", "base": base, "cw": cw, "cv": draw(st.lists(st.integers(0, 1), min_size=ncw, max_size=ncw))}
    perm = draw(st.permutations(list(range(5))))
    return {"gate": op, "perm": list(perm)}


def strategy(tier):
    return _case()


def _ref(op_spec, i=None):
    """Reference matrix from the *spec* (not from the built object)."""
    kind = op_spec["op"]
    if kind == "ctrl":
        B = _ref(op_spec["base"], i)
        return G.controlled(B, len(op_spec["cw"]), op_spec["cv"])
    p = [(x[i] if isinstance(x, list) else x) for x in op_spec.get("p", [])]
    n = len(op_spec["w"])
    if kind == "QubitUnitary":
        return specs.param(op_spec["p"][0])
    return G.matrix(kind, p, n, op_spec.get("kw", {}))


def check(spec):
    import pennylane as qp

    s = spec["gate"]
    op = specs.build_op(s)
    M = np.asarray(qp.matrix(op))
    batch = None
    for x in s.get("p", []):
        if isinstance(x, list):
            batch = len(x)
    mats = [M] if batch is None else list(M)
    if batch is not None and M.ndim != 3:
        raise Viol("batched-matrix-shape", f"{s['op']} batch={batch} shape={M.shape}", sig=s["op"])
    nz = False
    for i, Mi in enumerate(mats):
        R = _ref(s, i if batch is not None else None)
        if s["op"] == "GlobalPhase":  # documented as a scalar: matrix() without wire order is 1x1
            R = R[0, 0] * np.eye(Mi.shape[0])
        if R is None:
            raise RuntimeError("no reference for " + s["op"])
        if not close(Mi, R, 1e-9):
            raise Viol("matrix-formula", f"{s} diff={maxdiff(Mi, R)}", sig=_name(s), features={"gate": _name(s)})
        if not is_unitary(Mi, 1e-9):
            raise Viol("unitarity", f"{s}", sig=_name(s))
    # wire-order re-indexing
    ws = list(op.wires)
    if batch is None and len(ws) >= 2 and s["op"] != "GlobalPhase":
        order = [ws[j] for j in spec["perm"] if j < len(ws)]
        from pv.ref.sim import embed

        Mo = np.asarray(qp.matrix(op, wire_order=order))
        if not close(Mo, embed(_ref(s), ws, order), 1e-9):
            raise Viol("wire-order", f"{s} order={order}", sig=_name(s))
    flat = [v for x in _leaf(s).get("p", []) for v in (x if isinstance(x, list) else [x]) if isinstance(v, (int, float))]
    nontrivial = (not flat) or any(abs(np.sin(v / 2)) > 1e-6 for v in flat)
    return Result(nontrivial, labels=[_name(s)])


def _leaf(s):
    return _leaf(s["base"]) if "base" in s else s


def _name(s):
    return "C(" + _name(s["base"]) + ")" if s["op"] == "ctrl" else s["op"]


def selftest():
    G.selftest()
