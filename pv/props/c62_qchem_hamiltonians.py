"""C62 — molecular Hamiltonians are Hermitian, conserve N / S^2 / S_z and reproduce independent PySCF FCI / CASCI / RHF energies."""
import itertools
import math

import numpy as np
from hypothesis import strategies as st

from pv.engine import Reject, Result, Viol
from pv.ref import fermi as F
from pv.ref import pauli as P

ID = "C62"
TECHNIQUE = ("generated molecular geometries (random bond lengths, angles, rigid rotations, units) x back-end x mapping x active space; "
             "oracle = PySCF RHF + FCI/CASCI run by the harness, Fock-space sector projection with an independent ladder-operator model")
RULE = (
    "A case is one molecule-geometry: H2 (sto-3g / 6-31g, bond 0.5-3.0 A), H3+ (sto-3g, two bonds 0.7-1.6 A, angle 50-170 deg, never "
    "equilateral), HeH+ (sto-3g / 6-31g, 0.5-2.5 A), LiH (sto-3g, 1.0-2.4 A, active spaces (2,2) and (2,3)); the frame is rotated and "
    "translated randomly, coordinates are passed through Molecule(unit=bohr|angstrom) or the legacy list interface; method in {dhf, "
    "pyscf, openfermion}, mapping in {jordan_wigner, parity, bravyi_kitaev}, optional custom wire labels. The qubit operator is turned "
    "into a dense matrix from its Pauli sentence with the reference Pauli model and carried back to the Fock basis with the reference "
    "encoding permutation (parity / Bravyi-Kitaev matrices written from the literature). Oracle: (1) qubit count = 2 * active orbitals, "
    "H = H^dagger (1e-10); (2) [H,N] = [H,S_z] = [H,S^2] = 0 (1e-8) with N, S_z, S^2 built from reference ladder operators, and "
    "qchem.particle_number / spinz / spin2 equal those matrices (1e-10); (3) lowest eigenvalue in the (N = active electrons, S_z = 0) "
    "sector = PySCF CASCI(direct_spin1) energy on the harness' own RHF (conv 1e-12) within 1e-6 Ha (full space: FCI); (4) <HF|H|HF> for "
    "hf_state(electrons, qubits, basis) = PySCF RHF energy (1e-6) and hf_state = E n mod 2 for the reference encoding E; (5) excitations("
    "electrons, qubits, delta_sz) equals the brute-force enumeration of the documented selection rule for every delta_sz; (6) Jordan-"
    "Wigner only: symmetry_generators are Z-words commuting with H, optimal_sector = their eigenvalues on the HF determinant, the "
    "spectrum of taper(H, ...) equals the spectrum of H on that joint eigenspace (1e-8), it contains the sector ground energy (1e-7), "
    "the qubit count drops by the number of generators and the taper_hf determinant has energy <HF|H|HF>. Non-trivial: >= 4 qubits and "
    "a correlation energy |E_FCI - E_HF| > 1e-5."
)
ASSUMPTIONS = [
    "dhf / pyscf back-ends document closed-shell molecules only: all generated species are closed-shell singlets (2 or 4 electrons).",
    "Geometries with an RHF instability (PySCF internal stability analysis) are rejected for active-space cases, where the CASCI energy depends on "
    "the RHF solution; H3+ is never equilateral so that the active space does not cut a degenerate orbital pair.",
    "The sector ground state is the lowest state of any total spin with S_z = 0 (PySCF direct_spin1 solver uses the same definition).",
]
BUDGET = {"quick": {"examples": 14, "min_nontrivial": 2}, "thorough": {"examples": 480, "shards": 16}}
SHRINK_LISTS = ()

ANG = 1.8897259886  # bohr per angstrom
Z = {"H": 1, "He": 2, "Li": 3}
r3 = lambda lo, hi: st.floats(lo, hi).map(lambda v: round(v, 4))  # noqa: E731


# ----------------------------------------------------------------------------------------------------------------
# strategy
# ----------------------------------------------------------------------------------------------------------------

def _rot(a, b, c):
    ca, sa, cb, sb, cc, sc = math.cos(a), math.sin(a), math.cos(b), math.sin(b), math.cos(c), math.sin(c)
    Rz = np.array([[ca, -sa, 0], [sa, ca, 0], [0, 0, 1]])
    Ry = np.array([[cb, 0, sb], [0, 1, 0], [-sb, 0, cb]])
    Rx = np.array([[1, 0, 0], [0, cc, -sc], [0, sc, cc]])
    return Rz @ Ry @ Rx


@st.composite
def molecule(draw):
    kind = draw(st.sampled_from(["H2", "H2", "H3+", "HeH+", "LiH", "LiH"]))
    if kind == "H2":
        sym, charge = ["H", "H"], 0
        base = [[0, 0, 0], [0, 0, draw(st.one_of(r3(0.5, 3.0), st.sampled_from([0.5, 0.7414, 3.0])))]]
        basis = draw(st.sampled_from(["sto-3g", "sto-3g", "6-31g"]))
        active = None
    elif kind == "H3+":
        sym, charge = ["H", "H", "H"], 1
        r1, r2 = draw(r3(0.7, 1.6)), draw(r3(0.7, 1.6))
        ang = draw(r3(50, 170))
        if abs(r1 - r2) < 0.08 and abs(ang - 60) < 8:
            r2 = round(r2 + 0.2, 4)
        t = math.radians(ang)
        base = [[0, 0, 0], [0, 0, r1], [r2 * math.sin(t), 0, r2 * math.cos(t)]]
        basis = "sto-3g"
        active = draw(st.sampled_from([None, None, [2, 2]]))
    elif kind == "HeH+":
        sym, charge = ["He", "H"], 1
        base = [[0, 0, 0], [0, 0, draw(r3(0.5, 2.5))]]
        basis = draw(st.sampled_from(["sto-3g", "sto-3g", "6-31g"]))
        active = None
    else:
        sym, charge = ["Li", "H"], 0
        base = [[0, 0, 0], [0, 0, draw(r3(1.0, 2.4))]]
        basis = "sto-3g"
        active = draw(st.sampled_from([[2, 2], [2, 3]]))
    R = _rot(draw(r3(0, 6.28)), draw(r3(0, 3.14)), draw(r3(0, 6.28))) if draw(st.booleans()) else np.eye(3)
    shift = np.array([draw(r3(-1, 1)), draw(r3(-1, 1)), draw(r3(-1, 1))]) if draw(st.booleans()) else np.zeros(3)
    geom = [[round(float(x), 8) for x in (R @ np.array(p, dtype=float) + shift)] for p in base]
    if draw(st.booleans()) and len(sym) == 2 and sym[0] != sym[1]:
        sym, geom = sym[::-1], geom[::-1]  # atom order must not matter
    return {"mol": kind, "symbols": sym, "charge": charge, "geom": geom, "basis": basis, "active": active}


@st.composite
def case(draw):
    m = draw(molecule())
    n_orb = {"H2": {"sto-3g": 2, "6-31g": 4}, "H3+": {"sto-3g": 3}, "HeH+": {"sto-3g": 2, "6-31g": 4}, "LiH": {"sto-3g": 6}}[m["mol"]][m["basis"]]
    nq = 2 * (m["active"][1] if m["active"] else n_orb)
    wires = None
    if draw(st.integers(0, 4)) == 0:
        wires = draw(st.sampled_from([[f"q{i}" for i in range(nq)], list(range(nq))[::-1], [10 + 3 * i for i in range(nq)]]))
    return {**m, "method": draw(st.sampled_from(["dhf", "dhf", "pyscf", "pyscf", "openfermion"])),
            "mapping": draw(st.sampled_from(["jordan_wigner", "jordan_wigner", "parity", "bravyi_kitaev"])),
            "iface": draw(st.sampled_from(["molecule-bohr", "molecule-angstrom", "list-bohr", "list-angstrom"])),
            "wires": wires, "taper": draw(st.booleans())}


def strategy(tier):
    return case()


def enumerate_cases(tier):
    """Frozen-core active spaces with the differentiable Hartree-Fock back-end (the core's mean field enters the one-electron integrals
    only there), plus the same space through PySCF: fixed representatives so that every quick run contains them."""
    for active, method, mapping, taper in (([2, 2], "dhf", "jordan_wigner", False), ([2, 3], "dhf", "parity", True), ([2, 3], "pyscf", "jordan_wigner", False)):
        yield {"mol": "LiH", "symbols": ["Li", "H"], "charge": 0, "geom": [[0.0, 0.0, 0.0], [0.0, 0.0, 1.57]], "basis": "sto-3g", "active": active,
               "method": method, "mapping": mapping, "iface": "molecule-angstrom", "wires": None, "taper": taper}


# ----------------------------------------------------------------------------------------------------------------
# reference
# ----------------------------------------------------------------------------------------------------------------

def reference_energies(spec):
    """(E_HF, E_CASCI/FCI, n_orbitals, n_electrons, stable) from PySCF, run by the harness."""
    from pyscf import fci, gto, mcscf, scf

    mol = gto.M(atom=[(s, tuple(xyz)) for s, xyz in zip(spec["symbols"], spec["geom"])], unit="Angstrom", basis=spec["basis"],
                charge=spec["charge"], spin=0, verbose=0)
    mf = scf.RHF(mol)
    mf.conv_tol = 1e-12
    mf.kernel()
    if not mf.converged:
        raise Reject("reference RHF did not converge")
    stable = True
    try:
        mo_new = mf.stability(verbose=0)[0]
        stable = bool(np.allclose(np.abs(mo_new.T @ mf.get_ovlp() @ mf.mo_coeff), np.eye(mol.nao), atol=1e-6)) or mo_new is mf.mo_coeff
    except Exception:  # noqa: BLE001
        stable = True
    if spec["active"]:
        ne, no = spec["active"]
    else:
        ne, no = mol.nelectron, mol.nao
    mc = mcscf.CASCI(mf, no, ne)
    mc.fcisolver = fci.direct_spin1.FCI(mol)
    mc.fcisolver.conv_tol = 1e-12
    mc.fcisolver.nroots = 1
    e = mc.kernel()[0]
    return float(mf.e_tot), float(e), int(mol.nao), int(mol.nelectron), stable


def fock_observables(n):
    """N, S_z, S^2 on n spin orbitals (even = alpha, odd = beta; mode 0 most significant) from ladder operators."""
    a = [F.ladder(j, n) for j in range(n)]
    ad = [m.conj().T for m in a]
    num = [ad[j] @ a[j] for j in range(n)]
    N = sum(num)
    Sz = 0.5 * sum(num[j] if j % 2 == 0 else -num[j] for j in range(n))
    Sp = sum(ad[2 * p] @ a[2 * p + 1] for p in range(n // 2))
    S2 = Sp.conj().T @ Sp + Sz @ Sz + Sz
    return N, Sz, S2


def encoding(mapping, n):
    if mapping == "jordan_wigner":
        return np.eye(n, dtype=int)
    return F.parity_encoding(n) if mapping == "parity" else F.bk_encoding(n)


def sentence_terms(op, qp):
    """[(coeff, {wire: 'X'..})] from PennyLane's Pauli sentence of the operator."""
    ps = qp.pauli.pauli_sentence(op)
    return [(complex(np.asarray(c)), dict(w.items())) for w, c in ps.items()]


def brute_excitations(electrons, orbitals, delta_sz):
    sz = [0.5 if i % 2 == 0 else -0.5 for i in range(orbitals)]
    occ, virt = range(electrons), range(electrons, orbitals)
    singles = sorted([r, p] for r in occ for p in virt if sz[p] - sz[r] == delta_sz)
    doubles = sorted([s, r, q, p] for s, r in itertools.combinations(occ, 2) for q, p in itertools.combinations(virt, 2)
                     if sz[p] + sz[q] - sz[r] - sz[s] == delta_sz)
    return singles, doubles


def comm(A, B):
    return float(np.abs(A @ B - B @ A).max())


# ----------------------------------------------------------------------------------------------------------------
# check
# ----------------------------------------------------------------------------------------------------------------

def build_hamiltonian(spec, qp):
    if spec["method"] != "openfermion":
        return _build_hamiltonian(spec, qp, None)
    # the openfermion back-end writes molecule_*.hdf5 into `outpath`: keep it inside the git-ignored scratch area and remove it
    import os
    import shutil

    out = os.path.join(os.path.dirname(os.path.dirname(os.path.dirname(os.path.abspath(__file__)))), "scratch", f"c62_{os.getpid()}")
    os.makedirs(out, exist_ok=True)
    try:
        return _build_hamiltonian(spec, qp, out)
    finally:
        shutil.rmtree(out, ignore_errors=True)


def _build_hamiltonian(spec, qp, outpath):
    coords_ang = np.array(spec["geom"], dtype=float)
    kw = {"method": spec["method"], "mapping": spec["mapping"]}
    if outpath is not None:
        kw["outpath"] = outpath
    if spec["active"]:
        kw["active_electrons"], kw["active_orbitals"] = spec["active"]
    if spec["wires"] is not None:
        kw["wires"] = list(spec["wires"])
    iface = spec["iface"]
    if iface.startswith("molecule"):
        if iface.endswith("angstrom"):
            mol = qp.qchem.Molecule(spec["symbols"], coords_ang, charge=spec["charge"], basis_name=spec["basis"], unit="angstrom")
        else:
            mol = qp.qchem.Molecule(spec["symbols"], coords_ang * ANG, charge=spec["charge"], basis_name=spec["basis"])
        return qp.qchem.molecular_hamiltonian(mol, **kw)
    if iface.endswith("angstrom"):
        return qp.qchem.molecular_hamiltonian(list(spec["symbols"]), coords_ang, unit="angstrom", charge=spec["charge"], basis=spec["basis"], **kw)
    return qp.qchem.molecular_hamiltonian(list(spec["symbols"]), coords_ang * ANG, charge=spec["charge"], basis=spec["basis"], **kw)


def check(spec):
    import pennylane as qp

    e_hf, e_ci, nao, nelec, stable = reference_energies(spec)
    ne, no = spec["active"] if spec["active"] else (nelec, nao)
    if spec["active"] and not stable:
        raise Reject("RHF solution unstable: active-space energy depends on the SCF solution")
    n = 2 * no
    feats = {"mol": spec["mol"], "method": spec["method"], "mapping": spec["mapping"], "basis": spec["basis"],
             "active": bool(spec["active"]), "iface": spec["iface"]}
    feats["no_core"] = bool(spec["active"]) and ne == nelec  # active space without frozen orbitals
    sig = f"{spec['method']}:{spec['mapping']}"
    H, qubits = build_hamiltonian(spec, qp)
    if int(qubits) != n:
        raise Viol("qubit-count", f"{qubits} qubits reported, 2*active orbitals = {n}", sig=spec["method"], features=feats)
    order = list(spec["wires"]) if spec["wires"] is not None else list(range(n))
    if not set(H.wires) <= set(order):
        raise Viol("wires", f"Hamiltonian wires {list(H.wires)} not among the requested labels {order}", sig=sig, features=feats)
    terms = sentence_terms(H, qp)
    Hq = P.sentence_matrix(terms, order)
    herm = float(np.abs(Hq - Hq.conj().T).max())
    if herm > 1e-10:
        raise Viol("hermitian", f"|H - H^dagger| = {herm:.3g}", sig=sig, features=feats)
    E = encoding(spec["mapping"], n)
    U = F.encoding_unitary(E)
    Hf = U.conj().T @ Hq @ U  # back to the occupation-number basis
    N, Sz, S2 = fock_observables(n)
    for name, O in (("N", N), ("Sz", Sz), ("S2", S2)):
        c = comm(Hf, O)
        if c > 1e-8:
            raise Viol("symmetry", f"|[H, {name}]| = {c:.3g}", sig=sig + ":" + name, features={**feats, "obs": name})
    # PennyLane's own observables (Jordan-Wigner) against the ladder-operator model
    std = list(range(n))
    for name, op, O in (("particle_number", qp.qchem.particle_number(n), N), ("spinz", qp.qchem.spinz(n), Sz),
                        ("spin2", qp.qchem.spin2(ne, n), S2)):
        M = P.sentence_matrix(sentence_terms(op, qp), std)
        if name == "spin2":  # documented with the constant 3/4 * electrons: it is S^2 on the N = electrons sector only
            sec = np.where(np.abs(np.real(np.diag(N)) - ne) < 1e-9)[0]
            M, O = M[np.ix_(sec, sec)], (O + 0.75 * (ne * np.eye(2**n) - N))[np.ix_(sec, sec)]
        d = float(np.abs(M - O).max())
        if d > 1e-10:
            raise Viol("observable", f"qchem.{name}({n}) differs from the ladder-operator model by {d:.3g}", sig=name, features={**feats, "obs": name})
    # sector ground state
    dN, dSz = np.real(np.diag(N)), np.real(np.diag(Sz))
    idx = np.where((np.abs(dN - ne) < 1e-9) & (np.abs(dSz) < 1e-9))[0]
    Hs = Hf[np.ix_(idx, idx)]
    ev = np.linalg.eigvalsh((Hs + Hs.conj().T) / 2)
    e0 = float(ev[0])
    if abs(e0 - e_ci) > 1e-6:
        raise Viol("ground-energy", f"lowest eigenvalue in (N={ne}, Sz=0) = {e0:.9f}, PySCF {'CASCI' if spec['active'] else 'FCI'} = {e_ci:.9f} "
                   f"(diff {e0 - e_ci:.3g}); {spec['symbols']} {spec['geom']} basis={spec['basis']} active={spec['active']} iface={spec['iface']}",
                   sig=sig, features=feats)
    # Hartree-Fock determinant
    basis = {"jordan_wigner": "occupation_number", "parity": "parity", "bravyi_kitaev": "bravyi_kitaev"}[spec["mapping"]]
    hf = [int(b) for b in np.asarray(qp.qchem.hf_state(ne, n, basis=basis))]
    occ = np.array([1] * ne + [0] * (n - ne))
    want = [int(b) for b in (E @ occ) % 2]
    if hf != want:
        raise Viol("hf-state", f"hf_state({ne}, {n}, {basis}) = {hf}, expected {want}", sig=basis, features=feats)
    if sum(int(b) for b in np.asarray(qp.qchem.hf_state(ne, n))) != ne:
        raise Viol("hf-state", "occupation-number HF state does not contain `electrons` ones", sig="occupation_number", features=feats)
    k = F.index(hf)
    ehf = float(np.real(Hq[k, k]))
    if abs(ehf - e_hf) > 1e-6:
        raise Viol("hf-energy", f"<HF|H|HF> = {ehf:.9f}, PySCF RHF = {e_hf:.9f} (diff {ehf - e_hf:.3g}); {spec['symbols']} {spec['geom']} "
                   f"basis={spec['basis']} active={spec['active']}", sig=sig, features=feats)
    # excitations
    for dsz in (0, 1, -1, 2, -2):
        s, d = qp.qchem.excitations(ne, n, delta_sz=dsz)
        bs, bd = brute_excitations(ne, n, dsz)
        if sorted(map(list, s)) != bs or sorted(map(list, d)) != bd:
            raise Viol("excitations", f"excitations({ne}, {n}, {dsz}) -> {len(s)} singles / {len(d)} doubles, selection rule gives {len(bs)} / {len(bd)}",
                       sig=f"dsz={dsz}", features=feats)
    labels = [spec["mol"], spec["basis"], "method:" + spec["method"], "map:" + spec["mapping"], f"qubits={n}", "iface:" + spec["iface"],
              "active" if spec["active"] else "full", "custom-wires" if spec["wires"] is not None else "default-wires"]
    # tapering
    if spec["taper"] and spec["mapping"] == "jordan_wigner":
        gens = qp.qchem.symmetry_generators(H)
        bad = [g for g in gens if not set(g.wires) <= set(H.wires)]
        if bad:
            raise Viol("taper-wires", f"symmetry generator {bad[0]} acts on wires outside the Hamiltonian's wires {list(H.wires)}",
                       sig="generators", features={**feats, "custom_wires": spec["wires"] is not None})
        if gens and spec["wires"] is None:
            paulix = qp.qchem.paulix_ops(gens, n)
            sector = [int(x) for x in qp.qchem.optimal_sector(H, gens, ne)]
            Ht = qp.qchem.taper(H, gens, paulix, sector)
            proj = np.eye(2**n, dtype=complex)
            for g, s in zip(gens, sector):
                gt = sentence_terms(g, qp)
                if len(gt) != 1 or any(ch not in "IZ" for ch in gt[0][1].values()) or abs(gt[0][0] - 1) > 1e-12:
                    raise Viol("taper-generator", f"generator {g} is not a Z-type Pauli word", sig="generators", features=feats)
                G = P.sentence_matrix(gt, order)
                if comm(Hq, G) > 1e-8:
                    raise Viol("taper-generator", f"generator {g} does not commute with H", sig="generators", features=feats)
                hf_eig = int(round(np.real(G[k, k])))
                if hf_eig != s:
                    raise Viol("optimal-sector", f"optimal_sector gives {s} for {g}, its eigenvalue on the HF determinant is {hf_eig}", sig="sector", features=feats)
                proj = proj @ (np.eye(2**n) + s * G) / 2
            keep = np.where(np.real(np.diag(proj)) > 0.5)[0]  # generators are diagonal: the projector selects basis states
            sub = Hq[np.ix_(keep, keep)]
            ev_sub = np.linalg.eigvalsh((sub + sub.conj().T) / 2)
            t_wires = sorted(Ht.wires, key=order.index)
            Mt = P.sentence_matrix(sentence_terms(Ht, qp), t_wires) if t_wires else np.array([[sentence_terms(Ht, qp)[0][0]]])
            if len(t_wires) != n - len(gens):
                raise Viol("taper-count", f"tapered operator acts on {len(t_wires)} wires, expected {n} - {len(gens)}", sig="count", features=feats)
            ev_t = np.linalg.eigvalsh((Mt + Mt.conj().T) / 2)
            if ev_t.shape != ev_sub.shape or float(np.abs(ev_t - ev_sub).max()) > 1e-8:
                raise Viol("taper-spectrum", f"spectrum of the tapered Hamiltonian differs from H restricted to sector {sector}: "
                           f"max diff {float(np.abs(ev_t - ev_sub).max()) if ev_t.shape == ev_sub.shape else 'shape'}", sig="spectrum", features=feats)
            if float(np.min(np.abs(ev_t - e_ci))) > 1e-7:
                raise Viol("taper-ground", f"sector ground energy {e_ci:.9f} not in the spectrum of the tapered Hamiltonian (closest "
                           f"{ev_t[np.argmin(np.abs(ev_t - e_ci))]:.9f}), sector={sector}", sig="ground", features=feats)
            if spec["wires"] is None:
                thf = [int(b) for b in np.asarray(qp.qchem.taper_hf(gens, paulix, sector, ne, n))]
                if len(thf) == len(t_wires):
                    kt = F.index(thf)
                    et = float(np.real(Mt[kt, kt]))
                    if abs(et - ehf) > 1e-8:
                        raise Viol("taper-hf", f"tapered HF determinant {thf} has energy {et:.9f}, <HF|H|HF> = {ehf:.9f}", sig="taper_hf", features=feats)
                else:
                    raise Viol("taper-hf", f"taper_hf returned {len(thf)} bits for {len(t_wires)} remaining wires", sig="taper_hf", features=feats)
            labels += ["tapered", f"generators={len(gens)}"]
    return Result(n >= 4 and abs(e_ci - e_hf) > 1e-5, labels=labels)


def selftest():
    F.selftest()
    P.selftest()
    N, Sz, S2 = fock_observables(4)
    # |1100> (one doubly occupied spatial orbital) is a singlet with N = 2; |1010> (two alpha electrons) is a triplet component
    v = np.zeros(16)
    v[F.index([1, 1, 0, 0])] = 1
    assert abs(v @ N @ v - 2) < 1e-12 and abs(v @ S2 @ v) < 1e-12 and abs(v @ Sz @ v) < 1e-12
    w = np.zeros(16)
    w[F.index([1, 0, 1, 0])] = 1
    assert abs(w @ S2 @ w - 2) < 1e-12 and abs(w @ Sz @ w - 1) < 1e-12
    assert brute_excitations(2, 4, 0) == ([[0, 2], [1, 3]], [[0, 1, 2, 3]])
    # H2 / sto-3g at 0.7414 A: literature RHF -1.11675, FCI -1.13728 Ha
    e_hf, e_ci, nao, ne, _ = reference_energies({"symbols": ["H", "H"], "geom": [[0, 0, 0], [0, 0, 0.7414]], "basis": "sto-3g", "charge": 0, "active": None})
    assert abs(e_hf + 1.11675) < 2e-4 and abs(e_ci + 1.13728) < 2e-4 and (nao, ne) == (2, 2)
