"""C25 — fold_global / insert / add_noise / extrapolation functions follow their definitions."""
import math
from fractions import Fraction

import numpy as np

from pv import gen, specs
from pv.cmp import close
from pv.engine import Reject, Result, Viol
from pv.ref import mexec, rgen, sim

ID = "C25"
TECHNIQUE = ("generated circuits, scale factors, insertion positions, noise models (condition trees) and model-following data "
             "sets; list models of folding / insertion written from the docstrings, independent condition evaluator, reference "
             "simulator for semantics, Lagrange / closed-form values for the extrapolators")
RULE = (
    "fold: circuit of 1-8 gates on 1-4 wires, scale factor from odd/even integers, small rationals and uniform [1, 7]; the output "
    "operator list must be U (U^dag U)^n (L_d^dag..L_{d-k+1}^dag)(L_{d-k+1}..L_d) position by position (each entry compared by its "
    "reference matrix and wires: copies equal the original gate, adjoints equal its conjugate transpose) with n = floor((s-1)/2) "
    "and k within one gate of frac*d/2 (floor and round readings both accepted), the full unitary equals U exactly, measurements "
    "and shots are untouched; a Channel in the circuit must raise ValueError. zne: mitigate_with_zne(fold_global, "
    "richardson/poly) executed on the noiseless reference returns the unmitigated result. insert: position in "
    "start/end/all/operator class/list of classes, before in {False, True} (for class positions), op = channel class, gate class "
    "or a two-gate quantum function, state preparation first; expected list built from the docstring (after preps / per wire of "
    "tape.wires / after or before every matching gate on each of its wires); zero-strength channels executed on default.mixed "
    "and gate insertions executed on the reference simulator must reproduce the result of the list model. add_noise: 1-3 rules "
    "with conditions from and/or/not trees over op_eq / op_in (string, class or instance form) / wires_eq / wires_in, noise = "
    "partial_wires(channel or gate) or a metadata-driven function; optional meas_map over meas_eq & wires_in with gate "
    "'readout noise'; the expected operator list comes from an independent evaluation of every condition on every gate "
    "(name / wire-set semantics from the docstrings), rule order preserved; with meas_map the expected tapes group measurements by "
    "their readout operations and the post-processed reference results must come back in the original measurement order. extrap: "
    "poly_extrapolate on exact polynomial data of degree <= order, richardson_extrapolate on degree <= len(x)-1, "
    "exponential_extrapolate on A*exp(B*x)+C with B<0 (asymptote given or C=0); expected f(0) from the generating coefficients "
    "(1e-6 relative to the data scale for polynomials, 1e-8 for exponentials). Non-trivial: fold: fractional part folds >= 1 "
    "gate or n >= 1; insert/add_noise: >= 1 gate matched and >= 1 unmatched; extrap: order >= 1."
)
ASSUMPTIONS = [
    "fold_global: scale_factor >= 1 (the construction is not defined below 1).",
    "insert with position='all' is only used with before=False (the docstring defines 'all' as 'after all gates'); position lists use distinct concrete gate classes.",
    "Templates and adjoints are decomposed by insert/add_noise before matching (level='user'); inputs here contain neither, so the operator lists can be compared position by position.",
    "Polynomial extrapolation solves normal equations with a pseudo-inverse: x values are spaced >= 0.4 in [0.5, 6], order <= 3, and the tolerance is 1e-6 relative to max|y|.",
    "exponential_extrapolate: growth rate B <= -0.05 (decay towards the asymptote, the documented infinite-noise limit), |A| e^{Bx} >= 1e-3 >> eps.",
    "Zero-strength channel semantics are executed on default.mixed (the channel definitions themselves belong to C28).",
]
BUDGET = {"quick": {"examples": 4000}, "thorough": {"examples": 80000, "shards": 16}}
SHRINK_LISTS = ("ops", "meas", "rules")

CH1 = {"AmplitudeDamping": 1, "PhaseDamping": 1, "DepolarizingChannel": 1, "BitFlip": 1, "PhaseFlip": 1, "GeneralizedAmplitudeDamping": 2}
G1 = ["RX", "RY", "RZ", "PhaseShift"]
GATE_NAMES = sorted({**gen.GATES1, **gen.GATES2, **gen.GATES3})


# ------------------------------------------------------------------------------------------------ generators

def _meas(R, ws, n_max=3):
    ms = []
    for _ in range(R.randint(1, n_max)):
        r = R.random()
        if r < 0.5:
            ms.append({"mp": "expval", "obs": rgen.pauli_word(R, ws, 2)})
        elif r < 0.7:
            ms.append({"mp": "var", "obs": rgen.pauli_word(R, ws, 1)})
        else:
            ms.append({"mp": "probs", "w": rgen.subset(R, ws)})
    return ms


def _circuit(R, lo=1, hi=8, nmax=4):
    ws = rgen.wire_labels(R, R.randint(1, nmax))
    pool = {k: v for k, v in {**gen.GATES1, **gen.GATES2, **gen.GATES3}.items()}
    ops = [rgen.gate(R, ws, pool) for _ in range(R.randint(lo, hi))]
    return ws, ops


def _scale(R):
    r = R.random()
    if r < 0.3:
        return float(R.randint(1, 7))
    if r < 0.55:
        return R.randint(1, 6) + R.choice([0.25, 0.5, 0.75, 1 / 3, 2 / 3, 0.1, 0.9, 1.5])
    return round(R.uniform(1, 7), 4)


def case_fold(R):
    ws, ops = _circuit(R)
    if R.random() < 0.15:
        ops.insert(0, {"op": "BasisState", "p": [[R.randint(0, 1) for _ in ws]], "w": list(ws)})
    if R.random() < 0.04:
        ops.insert(R.randint(0, len(ops)), {"op": "BitFlip", "p": [0.1], "w": [R.choice(ws)]})
    return {"t": "fold", "wires": ws, "ops": ops, "meas": _meas(R, ws), "scale": _scale(R), "shots": R.choice([None, None, 10])}


def case_zne(R):
    ws, ops = _circuit(R, 1, 5, 3)
    if R.random() < 0.2:
        ops.insert(0, {"op": "BasisState", "p": [[R.randint(0, 1) for _ in ws]], "w": list(ws)})
    n = R.randint(2, 4)
    scales = sorted(R.sample([1.0, 1.5, 2.0, 2.5, 3.0, 4.0, 5.0], n))
    ms = [{"mp": "expval", "obs": rgen.pauli_word(R, ws, 2)} for _ in range(R.randint(1, 3))]
    ex = R.choice(["richardson", "poly1", "poly2"])  # exponential fit of constant (noise-free) data is degenerate (B = 0)
    return {"t": "zne", "wires": ws, "ops": ops, "meas": ms, "scales": scales, "extrap": ex, "reps": R.choice([1, 1, 2])}


def _inserted(R):
    r = R.random()
    if r < 0.5:
        name = R.choice(sorted(CH1))
        zero = R.random() < 0.5
        args = [0.0 if zero else round(R.uniform(0.05, 0.6), 3) for _ in range(CH1[name])]
        if name == "GeneralizedAmplitudeDamping":
            args[1] = round(R.uniform(0.1, 0.9), 3)
        return {"kind": "channel", "name": name, "args": args, "scalar_arg": CH1[name] == 1 and R.random() < 0.5}
    if r < 0.8:
        return {"kind": "gate", "name": R.choice(G1), "args": [rgen.angle(R)], "scalar_arg": R.random() < 0.5}
    return {"kind": "qfunc", "args": [rgen.angle(R), rgen.angle(R)]}


def case_insert(R):
    ws, ops = _circuit(R, 1, 7)
    if R.random() < 0.25:
        sub = rgen.subset(R, ws)
        ops.insert(0, {"op": "BasisState", "p": [[R.randint(0, 1) for _ in sub]], "w": sub})
    present = sorted({o["op"] for o in ops if o["op"] != "BasisState"})
    r = R.random()
    if r < 0.2:
        pos = "start"
    elif r < 0.4:
        pos = "end"
    elif r < 0.6:
        pos = "all"
    elif r < 0.8:
        pos = {"cls": R.choice(present + GATE_NAMES[:3])}
    else:
        pool = sorted(set(present + R.sample(GATE_NAMES, 2)))
        pos = {"list": R.sample(pool, min(len(pool), R.randint(1, 3)))}
    before = R.random() < 0.5 and pos != "all"
    return {"t": "insert", "wires": ws, "ops": ops, "meas": _meas(R, ws), "ins": _inserted(R), "pos": pos, "before": before}


def _cond(R, ws, names, depth=2):
    r = R.random()
    if depth and r < 0.4:
        k = R.choice(["and", "or", "and", "or", "not"])
        if k == "not":
            return {"k": "not", "a": _cond(R, ws, names, depth - 1)}
        return {"k": k, "a": _cond(R, ws, names, depth - 1), "b": _cond(R, ws, names, depth - 1)}
    k = R.choice(["op_eq", "op_in", "wires_eq", "wires_in"])
    if k == "op_eq":
        return {"k": k, "v": R.choice(names), "form": R.choice(["str", "cls", "inst"])}
    if k == "op_in":
        return {"k": k, "v": R.sample(names, min(len(names), R.randint(1, 3))), "form": R.choice(["str", "cls", "inst"])}
    return {"k": k, "v": rgen.subset(R, ws, 1, len(ws))}


def _noise(R):
    r = R.random()
    if r < 0.35:
        name = R.choice([c for c in sorted(CH1) if CH1[c] == 1])
        return {"kind": "partial", "name": name, "args": [R.choice([0.0, round(R.uniform(0.05, 0.5), 3)])], "unitary": False}
    if r < 0.7:
        return {"kind": "partial", "name": R.choice(G1), "args": [rgen.angle(R)], "unitary": True}
    if r < 0.85:
        return {"kind": "meta", "name": R.choice(G1), "key": R.choice(["t1", "t2"]), "scale": round(R.uniform(0.2, 1.5), 3), "unitary": True}
    return {"kind": "param", "name": R.choice(G1), "scale": round(R.uniform(0.2, 1.5), 3), "unitary": True}


def case_add_noise(R):
    ws, ops = _circuit(R, 1, 7)
    present = sorted({o["op"] for o in ops})
    names = sorted(set(present + R.sample(GATE_NAMES, 2)))
    rules = [{"cond": _cond(R, ws, names), "noise": _noise(R)} for _ in range(R.randint(1, 3))]
    ms = _meas(R, ws, 4)
    mrules = []
    if R.random() < 0.45:
        for _ in range(R.randint(1, 2)):
            c = {"k": "meas_eq", "v": R.choice(["expval", "var", "probs"]), "form": R.choice(["fn", "inst"])}
            if R.random() < 0.6:
                c = {"k": R.choice(["and", "or"]), "a": c, "b": {"k": "wires_in", "v": rgen.subset(R, ws, 1, len(ws))}}
            mrules.append({"cond": c, "noise": {"kind": "partial", "name": R.choice(["PauliX", "RX", "RY", "Hadamard"]),
                                                "args": [rgen.angle(R)], "unitary": True}})
    return {"t": "add_noise", "wires": ws, "ops": ops, "meas": ms, "rules": rules, "mrules": mrules,
            "meta": {"t1": round(R.uniform(0.1, 1.5), 3), "t2": round(R.uniform(0.1, 1.5), 3)}}


def _xs(R, n):
    xs, x = [], round(R.uniform(0.5, 1.5), 3)
    for _ in range(n):
        xs.append(x)
        x = round(x + R.uniform(0.4, 1.2), 3)
    if R.random() < 0.3:
        R.shuffle(xs)
    return xs


def case_extrap(R):
    fn = R.choice(["poly", "poly", "richardson", "exp", "exp"])
    if fn == "poly":
        order = R.randint(0, 3)
        deg = R.randint(0, order)
        n = R.randint(order + 1, order + 3)
        return {"t": "extrap", "fn": fn, "order": order, "x": _xs(R, n), "coef": [round(R.uniform(-2, 2), 4) for _ in range(deg + 1)],
                "cols": R.choice([0, 0, 2])}
    if fn == "richardson":
        n = R.randint(1, 4)
        deg = R.randint(0, n - 1)
        return {"t": "extrap", "fn": fn, "x": _xs(R, n), "coef": [round(R.uniform(-2, 2), 4) for _ in range(deg + 1)], "cols": 0}
    A = round(R.uniform(0.2, 2.0), 4) * R.choice([1, -1])
    B = -round(R.uniform(0.05, 1.0), 4)
    asym = R.random() < 0.5
    C = round(R.uniform(-1.5, 1.5), 4) if asym else 0.0
    return {"t": "extrap", "fn": fn, "x": _xs(R, R.randint(2, 6)), "A": A, "B": B, "C": C, "asym": asym}


KINDS = ["fold", "fold", "fold", "zne", "insert", "insert", "insert", "add_noise", "add_noise", "add_noise", "extrap", "extrap"]


def make_case(R):
    return {"fold": case_fold, "zne": case_zne, "insert": case_insert, "add_noise": case_add_noise, "extrap": case_extrap}[R.choice(KINDS)](R)


def strategy(tier):
    return rgen.seeded(make_case)


def enumerate_cases(tier):
    ops = [{"op": "RX", "p": [0.3], "w": [0]}, {"op": "RY", "p": [0.7], "w": [1]}, {"op": "RZ", "p": [1.1], "w": [2]},
           {"op": "CNOT", "p": [], "w": [0, 1]}, {"op": "CNOT", "p": [], "w": [1, 2]}, {"op": "RX", "p": [0.5], "w": [0]},
           {"op": "RY", "p": [0.9], "w": [1]}, {"op": "RZ", "p": [1.3], "w": [2]}]
    ms = [{"mp": "expval", "obs": {"op": "prod", "operands": [{"op": "PauliZ", "w": [w]} for w in (0, 1, 2)]}}]
    for s in (1, 1.0, 1.5, 2, 2.5, 3, 3.999, 4, 6.25):  # the docstring circuit
        yield {"t": "fold", "wires": [0, 1, 2], "ops": ops, "meas": ms, "scale": s, "shots": None}
    for d in range(1, 6):
        for s in (2.0, 2.5, 1.2):
            yield {"t": "fold", "wires": [0, 1, 2], "ops": ops[:d], "meas": ms, "scale": s, "shots": None}


# ------------------------------------------------------------------------------------------------ helpers

def _mat(op):
    return sim.op_matrix(op)


def _same_gate(a, b, dagger=False):
    """Operator a acts like b (or b^dagger) on the same wires (matrix comparison on b's wire order)."""
    if set(a.wires) != set(b.wires):
        return False
    order = list(b.wires)
    Ma = sim.embed(_mat(a), list(a.wires), order) if len(order) else _mat(a)
    Mb = _mat(b)
    return close(Ma, Mb.conj().T if dagger else Mb, 1e-10)


def _op_eq(a, b):
    """Same class name, same ordered wires, same parameters."""
    if a.name != b.name or list(a.wires) != list(b.wires) or len(a.data) != len(b.data):
        return False
    return all(np.shape(x) == np.shape(y) and np.allclose(x, y, atol=1e-12) for x, y in zip(a.data, b.data))


def _build(spec):
    import pennylane as qp

    ops = [specs.build_op(o) for o in spec["ops"]]
    meas = [rgen.build_meas(m) for m in spec["meas"]]
    return qp.tape.QuantumScript(ops, meas, shots=spec.get("shots"))


def _fmt(ops):
    return [str(o) for o in ops]


# ------------------------------------------------------------------------------------------------ fold

def check_fold(spec):
    import pennylane as qp

    tape = _build(spec)
    order = [specs.wire(w) for w in spec["wires"]]
    s = spec["scale"]
    has_channel = any(o["op"] in CH1 for o in spec["ops"])
    try:
        tapes, fn = qp.noise.fold_global(_build(spec), s)
    except ValueError as e:
        if has_channel and "channels" in str(e):
            raise Reject("channel in circuit (documented ValueError)") from None
        raise
    if has_channel:
        raise Viol("channel-accepted", "fold_global folded a circuit containing a Channel", sig="fold:channel")
    if len(tapes) != 1:
        raise Viol("fanout", len(tapes), sig="fold:fanout")
    out = tapes[0]
    base = list(tape.operations)
    d = len(base)
    n = int(math.floor((s - 1) / 2 + 1e-12))
    frac = (s - 1) - 2 * n
    x = frac * d / 2
    got = list(out.operations)
    feats = {"mode": "fold", "scale": s, "d": d}
    rest = len(got) - d * (1 + 2 * n)
    if rest < 0 or rest % 2:
        raise Viol("fold-count", f"scale={s} d={d}: {len(got)} gates cannot be d(1+2n)+2k with n={n}", sig="fold:count", features=feats)
    k = rest // 2
    if not (abs(k - x) < 1 - 1e-9 and 0 <= k <= d):
        raise Viol("fold-count", f"scale={s} d={d}: folded {k} gates of the partial layer, definition gives {x:.4f} (floor/round)",
                   sig="fold:partial-count", features=feats)
    if abs(len(got) - s * d) > 2 + 1e-9:
        raise Viol("fold-count", f"scale={s} d={d}: {len(got)} gates vs scale*d={s * d}", sig="fold:count", features=feats)
    # expected pattern: (index into base, dagger?)
    pat = [(i, False) for i in range(d)]
    for _ in range(n):
        pat += [(i, True) for i in reversed(range(d))] + [(i, False) for i in range(d)]
    pat += [(i, True) for i in reversed(range(d - k, d))] + [(i, False) for i in range(d - k, d)]
    for j, (g, (i, dag)) in enumerate(zip(got, pat)):
        if not _same_gate(g, base[i], dag):
            raise Viol("fold-structure", f"scale={s}: position {j} is {g}, expected {'adjoint of ' if dag else ''}{base[i]}; out={_fmt(got)}",
                       sig="fold:structure", features=feats)
    U0 = sim.unitary(base, order)
    U1 = sim.unitary(got, order)
    if not close(U1, U0, 1e-8):
        raise Viol("fold-unitary", f"scale={s}: folded circuit is not the same unitary", sig="fold:unitary", features=feats)
    if len(out.measurements) != len(tape.measurements) or any(not qp.equal(a, b) for a, b in zip(out.measurements, tape.measurements)):
        raise Viol("fold-measurements", "measurements changed", sig="fold:meas", features=feats)
    if out.shots != tape.shots:
        raise Viol("fold-shots", "shots changed", sig="fold:shots", features=feats)
    r0 = mexec.exec_tape(tape, order)
    r1 = fn((mexec.exec_tape(out, order),))
    diff = mexec.same(r1, r0, 1e-8)
    if diff:
        raise Viol("fold-result", diff, sig="fold:result", features=feats)
    kind = "int-odd" if float(s).is_integer() and int(s) % 2 else "int-even" if float(s).is_integer() else "fractional"
    return Result(k >= 1 or n >= 1, ["fold", f"fold:{kind}", f"fold:n={min(n, 3)}", f"fold:k={'0' if k == 0 else 'd' if k == d else 'partial'}"])


def check_zne(spec):
    import pennylane as qp

    tape = _build(spec)
    order = [specs.wire(w) for w in spec["wires"]]
    ex = {"richardson": (qp.noise.richardson_extrapolate, {}), "poly1": (qp.noise.poly_extrapolate, {"order": 1}),
          "poly2": (qp.noise.poly_extrapolate, {"order": 2}), "exp": (qp.noise.exponential_extrapolate, {})}[spec["extrap"]]
    if spec["extrap"] == "exp":
        raise Reject("exponential fit of constant data is degenerate")
    if spec["extrap"] == "poly2" and len(spec["scales"]) < 3:
        raise Reject("order 2 needs three scale factors")
    tapes, fn = qp.noise.mitigate_with_zne(_build(spec), spec["scales"], qp.noise.fold_global, ex[0], extrapolate_kwargs=ex[1],
                                           reps_per_factor=spec["reps"])
    if len(tapes) != len(spec["scales"]) * spec["reps"]:
        raise Viol("zne-fanout", f"{len(tapes)} tapes for {len(spec['scales'])} factors x {spec['reps']} reps", sig="zne:fanout")
    expected = mexec.exec_tape(tape, order)
    if spec["extrap"] == "exp" and np.min(np.abs(np.atleast_1d(np.asarray(expected, dtype=float)))) < 1e-3:
        raise Reject("exponential model needs results away from the asymptote 0")
    res = tuple(mexec.exec_tape(t, order) for t in tapes)
    got = fn(res)
    diff = mexec.same(tuple(got) if isinstance(got, (tuple, list)) else got, expected, 1e-6)
    if diff:
        raise Viol("zne-noiseless", f"{spec['extrap']} scales={spec['scales']}: {diff}", sig="zne:" + spec["extrap"], features={"mode": "zne"})
    return Result(True, ["zne", "zne:" + spec["extrap"], f"zne:reps={spec['reps']}"])


# ------------------------------------------------------------------------------------------------ insert

def _make_inserted(ins):
    import pennylane as qp

    if ins["kind"] == "qfunc":
        def op(x, y, wires):
            qp.RX(x, wires=wires)
            qp.PhaseShift(y, wires=wires)
        return op, list(ins["args"]), lambda w: [qp.RX(ins["args"][0], wires=w), qp.PhaseShift(ins["args"][1], wires=w)]
    cls = getattr(qp, ins["name"])
    args = ins["args"][0] if ins.get("scalar_arg") else list(ins["args"])
    return cls, args, lambda w: [cls(*ins["args"], wires=w)]


def check_insert(spec):
    import pennylane as qp

    tape = _build(spec)
    order = [specs.wire(w) for w in spec["wires"]]
    op, args, mk = _make_inserted(spec["ins"])
    pos = spec["pos"]
    if isinstance(pos, dict):
        names = [pos["cls"]] if "cls" in pos else pos["list"]
        position = getattr(qp, pos["cls"]) if "cls" in pos else [getattr(qp, nm) for nm in names]
    else:
        names, position = [], pos
    tapes, fn = qp.noise.insert(_build(spec), op, args, position=position, before=spec["before"])
    if len(tapes) != 1:
        raise Viol("fanout", len(tapes), sig="insert:fanout")
    out = tapes[0]
    base = list(tape.operations)
    npre = sum(1 for o in spec["ops"] if o["op"] == "BasisState")
    exp = list(base[:npre])
    matched = unmatched = 0
    if pos == "start":
        for w in tape.wires:
            exp += mk(w)
    for g in base[npre:]:
        hit = pos == "all" or g.name in names
        matched += hit
        unmatched += not hit
        new = [x for w in g.wires for x in mk(w)] if hit else []
        exp += (new + [g]) if spec["before"] else ([g] + new)
    if pos == "end":
        for w in tape.wires:
            exp += mk(w)
    got = list(out.operations)
    feats = {"mode": "insert", "pos": pos if isinstance(pos, str) else sorted(pos)[0], "before": spec["before"], "ins": spec["ins"]["kind"]}
    if len(got) != len(exp) or any(not _op_eq(a, b) for a, b in zip(got, exp)):
        raise Viol("insert-structure", f"pos={pos} before={spec['before']} ins={spec['ins']}: got {_fmt(got)} expected {_fmt(exp)}",
                   sig=f"insert:structure:{feats['pos']}", features=feats)
    if len(out.measurements) != len(tape.measurements) or any(not qp.equal(a, b) for a, b in zip(out.measurements, tape.measurements)):
        raise Viol("insert-measurements", "measurements changed", sig="insert:meas", features=feats)
    # semantics
    sem = "structure-only"
    if spec["ins"]["kind"] != "channel":
        r_exp = mexec.exec_tape(qp.tape.QuantumScript(exp, tape.measurements), order)
        diff = mexec.same(fn((mexec.exec_tape(out, order),)), r_exp, 1e-8)
        sem = "gates"
    elif all(a == 0.0 for a in spec["ins"]["args"][:1]):
        r0 = mexec.exec_tape(tape, order)
        dev = qp.device("default.mixed", wires=order)
        diff = mexec.same(fn(dev.execute([out])), r0, 1e-8)
        sem = "zero-strength"
    else:
        diff = None
    if diff:
        raise Viol("insert-result", f"{sem}: {diff}", sig="insert:result:" + sem, features=feats)
    return Result(matched >= 1 and (unmatched >= 1 or pos in ("start", "end")),
                  ["insert", f"insert:pos={feats['pos'] if isinstance(pos, str) else 'cls' if 'cls' in pos else 'list'}", f"insert:before={spec['before']}",
                   "insert:" + spec["ins"]["kind"], "insert:" + sem, f"insert:preps={npre}"])


# ------------------------------------------------------------------------------------------------ add_noise

def _mk_cond(c):
    import pennylane as qp

    k = c["k"]
    if k == "and":
        return _mk_cond(c["a"]) & _mk_cond(c["b"])
    if k == "or":
        return _mk_cond(c["a"]) | _mk_cond(c["b"])
    if k == "not":
        return ~_mk_cond(c["a"])

    def form(nm):
        if c["form"] == "str":
            return nm
        cls = getattr(qp, nm)
        if c["form"] == "cls":
            return cls
        npar, nw = {**gen.GATES1, **gen.GATES2, **gen.GATES3}[nm]
        return cls(*([0.123] * npar), wires=[f"zz{i}" for i in range(nw)])
    if k == "op_eq":
        return qp.noise.op_eq(form(c["v"]))
    if k == "op_in":
        return qp.noise.op_in([form(nm) for nm in c["v"]])
    if k == "wires_eq":
        return qp.noise.wires_eq([specs.wire(w) for w in c["v"]])
    if k == "wires_in":
        return qp.noise.wires_in([specs.wire(w) for w in c["v"]])
    if k == "meas_eq":
        f = getattr(qp, c["v"])
        return qp.noise.meas_eq(f if c["form"] == "fn" else (f(qp.Z("zz0")) if c["v"] != "probs" else f(wires=["zz0"])))
    raise ValueError(k)


def _eval_cond(c, name, wires, mp_kind=None):
    """Independent evaluation from the docstrings: type-name and wire-set semantics."""
    k = c["k"]
    if k == "and":
        return _eval_cond(c["a"], name, wires, mp_kind) and _eval_cond(c["b"], name, wires, mp_kind)
    if k == "or":
        return _eval_cond(c["a"], name, wires, mp_kind) or _eval_cond(c["b"], name, wires, mp_kind)
    if k == "not":
        return not _eval_cond(c["a"], name, wires, mp_kind)
    if k == "op_eq":
        return name == c["v"]
    if k == "op_in":
        return name in c["v"]
    if k == "wires_eq":
        return set(wires) == {specs.wire(w) for w in c["v"]}
    if k == "wires_in":
        return set(wires) <= {specs.wire(w) for w in c["v"]}
    if k == "meas_eq":
        return mp_kind == c["v"]
    raise ValueError(k)


def _mk_noise(nz):
    import pennylane as qp

    cls = getattr(qp, nz["name"])
    if nz["kind"] == "partial":
        args = nz["args"][: (0 if nz["name"] in ("PauliX", "Hadamard") else 1)]
        return qp.noise.partial_wires(cls, *args)
    if nz["kind"] == "meta":
        def fn(op, **kwargs):
            for w in op.wires:
                cls(kwargs[nz["key"]] * nz["scale"], wires=w)
        return fn

    def fn2(op, **kwargs):
        cls((op.parameters[0] if op.parameters else 0.5) * nz["scale"], wires=op.wires[0])
    return fn2


def _noise_ops(nz, target, meta, params=None):
    import pennylane as qp

    cls = getattr(qp, nz["name"])
    wires = list(target.wires)
    if nz["kind"] == "partial":
        args = nz["args"][: (0 if nz["name"] in ("PauliX", "Hadamard") else 1)]
        return [cls(*args, wires=w) for w in wires]
    if nz["kind"] == "meta":
        return [cls(meta[nz["key"]] * nz["scale"], wires=w) for w in wires]
    p = target.parameters
    return [cls((p[0] if p else 0.5) * nz["scale"], wires=wires[0])]


def check_add_noise(spec):
    import pennylane as qp

    tape = _build(spec)
    order = [specs.wire(w) for w in spec["wires"]]
    meta = spec["meta"]
    model_map = {_mk_cond(r["cond"]): _mk_noise(r["noise"]) for r in spec["rules"]}
    meas_map = {_mk_cond(r["cond"]): _mk_noise(r["noise"]) for r in spec["mrules"]} or None
    nm = qp.NoiseModel(model_map, meas_map=meas_map, **meta)
    tapes, fn = qp.noise.add_noise(_build(spec), nm)
    base = list(tape.operations)
    exp_ops = []
    matched = unmatched = 0
    for g in base:
        exp_ops.append(g)
        hit = False
        for r in spec["rules"]:
            if _eval_cond(r["cond"], g.name, list(g.wires)):
                exp_ops += _noise_ops(r["noise"], g, meta)
                hit = True
        matched += hit
        unmatched += not hit
    # measurement rules: group measurements by their readout operations
    groups = []  # (readout ops, [measurement indices])
    for i, (m, ms) in enumerate(zip(tape.measurements, spec["meas"])):
        ro = []
        for r in spec["mrules"]:
            if _eval_cond(r["cond"], None, list(m.wires), ms["mp"]):
                ro += _noise_ops(r["noise"], m, meta)
        for g in groups:
            if len(g[0]) == len(ro) and all(_op_eq(a, b) for a, b in zip(g[0], ro)):
                g[1].append(i)
                break
        else:
            groups.append((ro, [i]))
    if not spec["mrules"]:
        groups = [([], list(range(len(tape.measurements))))]
    feats = {"mode": "add_noise", "meas_map": bool(spec["mrules"])}
    if len(tapes) != len(groups):
        raise Viol("add_noise-fanout", f"{len(tapes)} tapes, expected {len(groups)} readout groups; rules={spec['rules']} mrules={spec['mrules']} meas={spec['meas']}",
                   sig="add_noise:fanout", features=feats)
    for tp, (ro, idx) in zip(tapes, groups):
        got, exp = list(tp.operations), exp_ops + ro
        if len(got) != len(exp) or any(not _op_eq(a, b) for a, b in zip(got, exp)):
            raise Viol("add_noise-structure", f"rules={spec['rules']} mrules={spec['mrules']} meta={meta}: got {_fmt(got)} expected {_fmt(exp)}",
                       sig="add_noise:structure", features=feats)
        if len(tp.measurements) != len(idx) or any(not qp.equal(a, tape.measurements[i]) for a, i in zip(tp.measurements, idx)):
            raise Viol("add_noise-measurements", f"tape measures {_fmt(tp.measurements)}, expected indices {idx} of {_fmt(tape.measurements)}",
                       sig="add_noise:meas-split", features=feats)
    sem = "structure-only"
    unitary = all(r["noise"]["unitary"] for r in spec["rules"])
    zero = all(r["noise"]["unitary"] or r["noise"]["args"][0] == 0.0 for r in spec["rules"])
    if unitary or zero:
        # expected results, measurement by measurement, from the list model
        exp_res = [None] * len(tape.measurements)
        for ro, idx in groups:
            ops_sem = [o for o in exp_ops + ro if o.name not in CH1]
            psi = sim.run_ops(ops_sem, order)
            for i in idx:
                exp_res[i] = mexec.measure(psi, tape.measurements[i], order)
        exp_res = exp_res[0] if len(exp_res) == 1 else tuple(exp_res)
        if unitary:
            res = tuple(mexec.exec_tape(t, order) for t in tapes)
            sem = "gates"
        else:
            dev = qp.device("default.mixed", wires=order)
            res = dev.execute(list(tapes))
            sem = "zero-strength"
        diff = mexec.same(fn(res), exp_res, 1e-8)
        if diff:
            raise Viol("add_noise-result", f"{sem}: {diff}; mrules={spec['mrules']} meas={spec['meas']}", sig="add_noise:result:" + sem, features=feats)
    return Result(matched >= 1 and unmatched >= 1,
                  ["add_noise", f"add_noise:rules={len(spec['rules'])}", f"add_noise:groups={min(len(groups), 3)}", "add_noise:" + sem,
                   f"add_noise:meas_map={bool(spec['mrules'])}", f"add_noise:matched={'none' if not matched else 'all' if not unmatched else 'some'}"])


# ------------------------------------------------------------------------------------------------ extrapolation

def _lagrange_at_zero(xs, ys):
    xs = [Fraction(x).limit_denominator(10**6) for x in xs]
    tot = 0.0
    for i, xi in enumerate(xs):
        w = Fraction(1)
        for j, xj in enumerate(xs):
            if i != j:
                w *= (0 - xj) / (xi - xj)
        tot += float(w) * ys[i]
    return tot


def check_extrap(spec):
    import pennylane as qp

    x = np.array(spec["x"], dtype=float)
    fnm = spec["fn"]
    if fnm in ("poly", "richardson"):
        coef = spec["coef"]  # ascending powers; f(0) = coef[0]
        y1 = sum(c * x**i for i, c in enumerate(coef))
        cols = spec.get("cols", 0)
        if cols:
            y = np.stack([y1 * (j + 1) + j for j in range(cols)], axis=1)
            f0 = np.array([coef[0] * (j + 1) + j for j in range(cols)])
        else:
            y, f0 = y1, coef[0]
        if fnm == "poly":
            got = qp.noise.poly_extrapolate(x, y, spec["order"])
        else:
            got = qp.noise.richardson_extrapolate(x, y)
            f0_l = _lagrange_at_zero(spec["x"], list(y1))
            if abs(f0_l - coef[0]) > 1e-7 * max(1.0, np.abs(y1).max()):
                raise RuntimeError("reference self-check failed (Lagrange vs coefficients)")
        scale = max(1.0, float(np.abs(y).max()))
        got = np.asarray(got, dtype=float)
        if got.shape != np.shape(f0) or np.abs(got - f0).max() > 1e-6 * scale:
            raise Viol("extrapolation", f"{fnm} order={spec.get('order')} x={spec['x']} coef={coef}: got {got.tolist()} expected {np.asarray(f0).tolist()}",
                       sig="extrap:" + fnm, features={"mode": "extrap", "fn": fnm})
        order = spec.get("order", len(x) - 1)
        return Result(order >= 1, ["extrap:" + fnm, f"extrap:order={order}", f"extrap:deg={len(coef) - 1}", f"extrap:extra_points={len(x) - order - 1}"])
    A, B, C = spec["A"], spec["B"], spec["C"]
    y = A * np.exp(B * x) + C
    if np.abs(A * np.exp(B * x)).min() < 1e-3:
        raise Reject("data too close to the asymptote")
    kw = {"asymptote": C} if spec["asym"] else {}
    got = float(qp.noise.exponential_extrapolate(x, y, **kw))
    if abs(got - (A + C)) > 1e-8 * max(1.0, abs(A + C), float(np.abs(y).max())):
        raise Viol("extrapolation", f"exponential A={A} B={B} C={C} asym={spec['asym']} x={spec['x']}: got {got} expected {A + C}",
                   sig="extrap:exp", features={"mode": "extrap", "fn": "exp"})
    return Result(True, ["extrap:exp", f"extrap:exp:asymptote={spec['asym']}", f"extrap:exp:A{'+' if A > 0 else '-'}"])


def check(spec):
    t = spec["t"]
    if t != "extrap" and (not spec["ops"] or not spec["meas"]):
        raise Reject("empty circuit")
    return {"fold": check_fold, "zne": check_zne, "insert": check_insert, "add_noise": check_add_noise, "extrap": check_extrap}[t](spec)


def selftest():
    mexec.selftest()
    assert abs(_lagrange_at_zero([1.0, 2.0, 3.0], [6.0, 11.0, 18.0]) - 3.0) < 1e-12  # x^2 + 2x + 3
    c = {"k": "and", "a": {"k": "op_in", "v": ["RX", "RY"]}, "b": {"k": "not", "a": {"k": "wires_eq", "v": [0]}}}
    assert _eval_cond(c, "RX", [1]) and not _eval_cond(c, "RX", [0]) and not _eval_cond(c, "RZ", [1])
