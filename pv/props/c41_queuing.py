"""C41 — queuing records exactly the program's operations, in order, in the innermost context."""
from hypothesis import strategies as st

from pv import gen, specs
from pv.engine import Reject, Result, Viol

ID = "C41"
TECHNIQUE = ("hypothesis-generated program ASTs run by a closure-compiling interpreter on the real API vs an "
             "independent list-model interpreter of the queuing rules")
RULE = (
    "Programs (<= 25 nodes quick, <= 60 thorough): optional prelude outside any context, then a body run through "
    "qp.tape.make_qscript. Nodes: primitive operators (Operator2 and legacy classes, templates), wrapper constructors on "
    "earlier results (adjoint, ctrl, pow, prod, sum, s_prod, exp, @, +, -, scalar*, unary -, **), measurements consuming "
    "observables, qp.apply (default / explicit open context), op.queue(), nested `with AnnotatedQueue|QuantumTape` "
    "(<= 3 deep), stop_recording blocks, qp.adjoint(fn)() / qp.ctrl(fn, c)() on generated closures, raise and try/except. "
    "Oracle: model interpreter (creation appends to the innermost active context only; queuing a wrapper removes its "
    "arguments and direct operands from that context; apply queues a fresh copy; nothing under stop_recording; apply "
    "without context -> RuntimeError; operator after a measurement -> ValueError when a tape/script is processed; stack "
    "unwound on exceptions). Every context's final queue is compared by object identity (and qp.equal against an "
    "independently rebuilt term), tapes by operations/measurements, caught-exception sequence, and recording()/"
    "active_context() after the run. Non-trivial: >= 2 nesting levels, or a consumed operator plus an apply."
)
ASSUMPTIONS = [
    "Cases where qp.ctrl may or may not keep its argument's base as an operand object (custom controlled classes / "
    "nested-control flattening) while that base is still queued in the target context are rejected as ambiguous.",
    "Likewise rejected: re-queuing (apply / queue()) a copy made by qp.apply whose original operands are still queued in "
    "the target context; copies of legacy wrappers own copied operands, copies of Operator2 wrappers share them, and "
    "no documentation says whether such an operand is dequeued.",
    "lazy=False for prod/sum/s_prod is exercised through the documented flattening (also reached via @, +, *); eager qp.pow / "
    "qp.adjoint (lazy=False) are checked in separate 'eager' cases: the recorded circuit must equal pre . base^z . post.",
]
BUDGET = {"quick": {"examples": 1500}, "thorough": {"examples": 100000, "shards": 16}}
SHRINK_LISTS = ("pre", "body")

ANG = st.sampled_from([0.0, 0.1, 0.5, -0.7, 1.2, 3.141592653589793])

# name -> (n_params, n_wires, is_gate)
PRIMS = {
    "PauliX": (0, 1, True), "PauliY": (0, 1, True), "PauliZ": (0, 1, True), "Hadamard": (0, 1, True), "S": (0, 1, True),
    "T": (0, 1, True), "SX": (0, 1, True), "RX": (1, 1, True), "RY": (1, 1, True), "RZ": (1, 1, True),
    "PhaseShift": (1, 1, True), "Rot": (3, 1, True), "CNOT": (0, 2, True), "CZ": (0, 2, True), "SWAP": (0, 2, True),
    "CRX": (1, 2, True), "Toffoli": (0, 3, True), "IsingXX": (1, 2, True), "MultiRZ": (1, 2, True),
    "QFT": (0, 2, True), "Identity": (0, 1, True), "PSWAP": (1, 2, True), "DoubleExcitation": (1, 4, True),
    "CPhaseShift00": (1, 2, True), "SingleExcitationPlus": (1, 2, True), "OrbitalRotation": (1, 4, True),
    "GroverOperator": (0, 2, True),
}
WIRES = [0, 1, "a", 2, "b", 3]
WRAPS = ["adjoint", "adjoint", "ctrl", "ctrl", "pow", "prod", "prod", "sum", "s_prod", "exp", "matmul", "matmul", "add",
         "sub", "mul", "neg", "dpow", "prod_nl", "sum_nl", "s_prod_nl"]
GATE_WRAPS = ["adjoint", "ctrl", "pow", "prod", "matmul", "dpow", "prod_nl"]
REF = st.sampled_from([0, 0, 0, 0, 1, 1, 2, 3, 5, 8])
POWS = [2, -1, 0.5, 3]
SCAL = [2.0, -1.0, 0.5, 1.0]


def _prim(gates=False):
    def mk(name):
        npar, nw, _ = PRIMS[name]
        return st.tuples(st.lists(ANG, min_size=npar, max_size=npar), st.permutations(WIRES)).map(
            lambda t: {"k": "op", "op": name, "p": t[0], "w": list(t[1])[:nw]})
    special = [
        st.tuples(st.lists(ANG, min_size=2, max_size=2), st.permutations(WIRES)).map(
            lambda t: {"k": "op", "op": "AngleEmbedding", "p": [t[0]], "w": list(t[1])[:2]}),
        st.tuples(st.lists(ANG, min_size=2, max_size=2), st.permutations(WIRES)).map(
            lambda t: {"k": "op", "op": "BasicEntanglerLayers", "p": [[t[0]]], "w": list(t[1])[:2]}),
        st.tuples(st.lists(ANG, min_size=5, max_size=5), st.permutations(WIRES)).map(
            lambda t: {"k": "op", "op": "Hermitian", "p": [{"H": t[0], "n": 1}], "w": list(t[1])[:1]}),
        st.tuples(st.lists(ANG, min_size=5, max_size=5), st.permutations(WIRES)).map(
            lambda t: {"k": "op", "op": "QubitUnitary", "p": [{"U": t[0], "n": 1}], "w": list(t[1])[:1]}),
        st.permutations(WIRES).map(lambda w: {"k": "op", "op": "BasisState", "p": [[1, 0]], "w": list(w)[:2]}),
    ]
    if gates:
        return st.sampled_from(sorted(PRIMS)).flatmap(mk)
    return st.one_of(st.sampled_from(sorted(PRIMS)).flatmap(mk), st.sampled_from(sorted(PRIMS)).flatmap(mk), *special)


def _wrap(pool, gates=False):
    return st.tuples(st.sampled_from(pool), st.lists(REF, min_size=3, max_size=3), st.integers(2, 3),
                     st.sampled_from(POWS), st.sampled_from(SCAL)).map(
        lambda t: {"k": "wrap", "f": t[0], "args": t[1], "n": t[2], "z": t[3], "c": t[4], "g": gates})


def _meas():
    return st.tuples(st.sampled_from(["expval", "expval", "var", "probs_op", "sample_op", "counts_op", "probs", "sample", "state"]),
                     REF, st.permutations(WIRES)).map(
        lambda t: {"k": "meas", "mp": t[0], "arg": t[1], "w": list(t[2])[:2]})


@st.composite
def _block(draw, budget, depth, fn_body=False, in_stop=False, tail_meas=False, in_try=False, gates=False):
    """A list of statements; `budget` is a one-element list holding the remaining node count."""
    out = []
    n = draw(st.integers(1, 7))
    for _ in range(n):
        if budget[0] <= 0:
            break
        budget[0] -= 1
        r = draw(st.integers(0, 99))
        if fn_body:
            if r < 50:
                out.append(draw(_prim(gates)))
            elif r < 80:
                out.append(draw(_wrap(GATE_WRAPS, gates)))
            elif r < 90 and not (in_stop and r < 88):
                out.append({"k": "apply", "arg": draw(REF), "ctx": None})
            elif r < 90:
                out.append(draw(_prim(gates)))
            else:
                out.append({"k": "stop", "body": draw(_block(budget, depth + 1, fn_body=True, in_stop=True, gates=gates))}
                           if depth < 4 else draw(_prim(gates)))
            continue
        if r < 30:
            out.append(draw(_prim()))
        elif r < 55:
            out.append(draw(_wrap(WRAPS)))
        elif r < 59:
            out.append(draw(_meas()))
        elif r < 63 or (in_stop and r < 71):
            out.append(draw(_wrap(WRAPS)))
        elif r < 73:
            out.append({"k": "apply", "arg": draw(REF), "ctx": draw(st.sampled_from([None, None, None, 0, 1, 2]))})
        elif r < 76:
            out.append({"k": "queue", "arg": draw(REF)})
        elif r < 77 or (in_try and r < 82):
            out.append({"k": "raise"})
        elif depth >= 4:
            out.append(draw(_prim()))
        elif r < 86:
            out.append({"k": "with", "ctx": draw(st.sampled_from(["queue", "tape", "tape"])),
                        "body": draw(_block(budget, depth + 1, tail_meas=True, in_try=in_try))})
        elif r < 91:
            out.append({"k": "stop", "body": draw(_block(budget, depth + 1, in_stop=True, in_try=in_try))})
        elif r < 95:
            out.append({"k": "try", "body": draw(_block(budget, depth + 1, in_stop=in_stop, in_try=True))})
        elif r < 98:
            out.append({"k": "adjfn", "body": draw(_block(budget, depth + 1, fn_body=True))})
        else:
            out.append({"k": "ctrlfn", "body": draw(_block(budget, depth + 1, fn_body=True, gates=True))})
    if tail_meas and draw(st.integers(0, 9)) < 4:
        out += draw(st.lists(_meas(), min_size=1, max_size=2))
    return out


@st.composite
def _program(draw, size):
    budget = [size]
    pre = []
    if draw(st.integers(0, 2)) == 0:
        pre = [draw(st.one_of(_prim(), _prim(), _wrap(WRAPS), _meas())) for _ in range(draw(st.integers(1, 3)))]
        budget[0] -= len(pre)
    body = draw(_block(budget, 0))
    if draw(st.booleans()) and budget[0] > 0:
        body = body + draw(_block(budget, 0))
    if draw(st.integers(0, 9)) < 4:
        body = body + draw(st.lists(_meas(), min_size=1, max_size=2))
    return {"pre": pre, "body": body}


EAGER_FIXED = ["PauliX", "PauliY", "PauliZ", "Hadamard", "S", "T", "SX", "CNOT", "CZ", "CY", "SWAP", "ISWAP", "Toffoli", "CSWAP", "CCZ", "CH"]
EAGER_PARAM = ["RX", "RY", "RZ", "PhaseShift", "Rot", "IsingXX", "IsingZZ", "CRX", "CRZ", "ControlledPhaseShift", "SISWAP", "ECR", "SingleExcitation", "U1"]
EAGER_FRAC = {"PauliX": [0.5, 2.5], "PauliZ": [0.5, 0.25, 2.5, 2.25], "S": [0.5, 4.5], "Identity": [0.5]}


@st.composite
def _eager(draw):
    """qp.pow / qp.adjoint with lazy=False inside a recording context: the eager result replaces its argument in the queue."""
    name = draw(st.sampled_from(EAGER_FIXED + EAGER_FIXED + EAGER_PARAM))
    n = gen.ALL_GATES[name][1] if name in gen.ALL_GATES else 1
    wires = draw(gen.wire_labels(3))
    base = draw(gen.gate(wires, {name: gen.ALL_GATES[name]}, ang=gen.generic_angles())) if len(wires) >= n else None
    if base is None:
        base = draw(gen.gate(wires, {"PauliZ": gen.ALL_GATES["PauliZ"]}))
    fn = draw(st.sampled_from(["pow", "pow", "pow", "adjoint"]))
    z = draw(st.sampled_from(EAGER_FRAC.get(base["op"], [])) | st.integers(-3, 17)) if base["op"] in EAGER_FRAC and draw(st.booleans()) else draw(st.integers(-3, 17))
    z = float(z) if (isinstance(z, int) and draw(st.integers(0, 5)) == 0) else z
    pool = {g: gen.ALL_GATES[g] for g in ("RX", "Hadamard", "CNOT", "T", "RY") if gen.ALL_GATES[g][1] <= len(wires)}
    return {"eager": {"pre": draw(gen.op_list(wires, pool, 2, ang=gen.generic_angles(), p_derive=0.0)), "base": base, "fn": fn, "z": z,
                      "post": draw(gen.op_list(wires, pool, 2, ang=gen.generic_angles(), p_derive=0.0)), "wires": wires,
                      "again": draw(st.booleans())}}


def enumerate_cases(tier):
    yield from _nested_ctrl_cases()
    k = 0
    for name in ["PauliX", "PauliY", "PauliZ", "Hadamard", "S", "T", "SX", "CNOT", "SWAP"]:
        period = {"S": 4, "T": 8, "SX": 4}.get(name, 2)
        w = [0, 1][:gen.ALL_GATES[name][1]]
        for z in (1, period + 1, float(period + 1), 2 * period + 1, period, 0, period - 1):
            k += 1
            yield {"eager": {"pre": [{"op": "Hadamard", "p": [], "w": [0]}], "base": {"op": name, "p": [], "w": w}, "fn": "pow", "z": z,
                             "post": [{"op": "RX", "p": [0.3], "w": [0]}], "wires": [0, 1], "again": bool(k % 2)}}


def _nested_ctrl_cases():
    inner = [{"op": "CRX", "p": [0.7], "w": [1, 0]}, {"op": "CNOT", "p": [], "w": [0, 1]}, {"op": "ControlledPhaseShift", "p": [-0.7], "w": [1, 0]},
             {"op": "ctrl", "base": {"op": "RX", "p": [0.4], "w": [0]}, "cw": [1], "cv": [0]},
             {"op": "ctrl", "base": {"op": "Hadamard", "p": [], "w": [1]}, "cw": [0], "cv": [1]}, {"op": "Toffoli", "p": [], "w": [0, 1, 3]},
             {"op": "CRot", "p": [0.1, 0.2, 0.3], "w": [0, 1]}, {"op": "CZ", "p": [], "w": [1, 0]}]
    for b in inner:
        for cv in (1, 0):
            yield {"eager": {"pre": [{"op": "Hadamard", "p": [], "w": [2]}, {"op": "RY", "p": [0.6], "w": [1]}], "base": b, "fn": "ctrl", "z": 1, "cwire": 2,
                             "cv": cv, "post": [{"op": "RX", "p": [0.3], "w": [0]}], "wires": [0, 1, 2, 3], "again": False}}


def strategy(tier):
    size = 25 if tier == "quick" else 60
    return st.one_of(*([_program(size)] * 9 + [_eager()]))


class Boom(Exception):
    """The generated program's own exception."""


# =============================================================================================
# shared, purely syntactic helpers
# =============================================================================================

def number(spec):
    """Give every statement a unique serial number (used for per-statement control-wire labels)."""
    n = [0]

    def go(stmts):
        out = []
        for s in stmts:
            s = dict(s)
            s["id"] = n[0]
            n[0] += 1
            if "body" in s:
                s["body"] = go(s["body"])
            out.append(s)
        return out

    return {"pre": go(spec["pre"]), "body": go(spec["body"])}


def pick(vars_, kinds, k, pred=None):
    """k-th most recent variable of the given kinds (cyclic); None when there is none."""
    el = [i for i, v in enumerate(vars_) if v[0] in kinds and (pred is None or pred(v))]
    if not el:
        return None
    return el[len(el) - 1 - (k % len(el))]


HERM_PRIMS = {"PauliX", "PauliY", "PauliZ", "Hadamard", "Identity", "Hermitian"}
NON_GATES = {"Hermitian", "BasisState"}
GATE_KEEP = {"adjoint", "ctrl", "pow", "dpow", "prod", "prod_nl", "matmul"}
HERM_KEEP = {"adjoint", "prod", "prod_nl", "matmul", "sum", "sum_nl", "add", "sub", "s_prod", "s_prod_nl", "mul", "neg"}


def flags_for(s, arg_flags=()):
    """Syntactic classification of a result: 'gate' (may be controlled), 'herm' (may be used in probs(op=...))."""
    if s["k"] == "op":
        return frozenset((["gate"] if s["op"] not in NON_GATES else []) + (["herm"] if s["op"] in HERM_PRIMS else []))
    out = set()
    if s["f"] in GATE_KEEP and all("gate" in f for f in arg_flags):
        out.add("gate")
    if s["f"] in HERM_KEEP and all("herm" in f for f in arg_flags):
        out.add("herm")
    return frozenset(out)


def arg_pred(s):
    if s["k"] == "wrap" and (s["f"] == "ctrl" or s.get("g")):
        return lambda v: "gate" in v[2]
    if s["k"] == "meas" and s["mp"] == "probs_op":
        return lambda v: "herm" in v[2]
    return None


N_ARGS = {"adjoint": 1, "ctrl": 1, "pow": 1, "dpow": 1, "s_prod": 1, "s_prod_nl": 1, "exp": 1, "mul": 1, "neg": 1,
          "matmul": 2, "add": 2, "sub": 2}


def n_args(s):
    return N_ARGS.get(s["f"], s["n"])


# =============================================================================================
# real interpreter: AST -> closures calling the real API
# =============================================================================================

class Env:
    def __init__(self):
        self.vars = []      # (kind, obj)
        self.open = []      # currently open real contexts (innermost last), None entries for stop blocks
        self.ctxs = []      # (kind, obj) in order of entry
        self.caught = []
        self.copies = []    # (orig, copy)


def apply_wrap(qp, s, args):
    f = s["f"]
    a = args[0]
    if f == "adjoint":
        return qp.adjoint(a)
    if f == "ctrl":
        return qp.ctrl(a, control=[f"c{s['id']}"])
    if f == "pow":
        return qp.pow(a, s["z"])
    if f == "dpow":
        return a ** s["z"]
    if f == "prod":
        return qp.prod(*args)
    if f == "prod_nl":
        return qp.prod(*args, lazy=False)
    if f == "sum":
        return qp.sum(*args)
    if f == "sum_nl":
        return qp.sum(*args, lazy=False)
    if f == "s_prod":
        return qp.s_prod(s["c"], a)
    if f == "s_prod_nl":
        return qp.s_prod(s["c"], a, lazy=False)
    if f == "exp":
        return qp.exp(a, s["c"] * 1j)
    if f == "matmul":
        return a @ args[1]
    if f == "add":
        return a + args[1]
    if f == "sub":
        return a - args[1]
    if f == "mul":
        return s["c"] * a
    if f == "neg":
        return -a
    raise ValueError(f)


def make_meas(qp, s, obs):
    mp = s["mp"]
    if mp == "expval":
        return qp.expval(obs)
    if mp == "var":
        return qp.var(obs)
    if mp == "probs_op":
        return qp.probs(op=obs)
    if mp == "sample_op":
        return qp.sample(op=obs)
    if mp == "counts_op":
        return qp.counts(op=obs)
    if mp == "probs":
        return qp.probs(wires=s["w"])
    if mp == "sample":
        return qp.sample(wires=s["w"])
    if mp == "state":
        return qp.state()
    raise ValueError(mp)


def compile_block(qp, stmts):
    fns = [compile_stmt(qp, s) for s in stmts]

    def run(env):
        for f in fns:
            f(env)

    return run


def compile_stmt(qp, s):  # noqa: C901
    k = s["k"]
    QM = qp.queuing.QueuingManager
    if k == "op":
        def f(env):
            env.vars.append(("op", specs.build_op(s), flags_for(s)))
    elif k == "wrap":
        def f(env):
            idx = [pick(env.vars, ("op",), r, arg_pred(s)) for r in s["args"][:n_args(s)]]
            if any(i is None for i in idx):
                return
            env.vars.append(("op", apply_wrap(qp, s, [env.vars[i][1] for i in idx]),
                             flags_for(s, [env.vars[i][2] for i in idx])))
    elif k == "meas":
        def f(env):
            obs = None
            if s["mp"] in ("expval", "var", "probs_op", "sample_op", "counts_op"):
                i = pick(env.vars, ("op",), s["arg"], arg_pred(s))
                if i is None:
                    return
                obs = env.vars[i][1]
            env.vars.append(("meas", make_meas(qp, s, obs), frozenset()))
    elif k == "apply":
        def f(env):
            i = pick(env.vars, ("op", "meas"), s["arg"])
            if i is None:
                return
            kind, obj, fl = env.vars[i]
            opened = [c for c in env.open if c is not None and not isinstance(c, str)]
            if s["ctx"] is not None and opened:
                new = qp.apply(obj, context=opened[s["ctx"] % len(opened)])
            else:
                new = qp.apply(obj)
            env.copies.append((obj, new))
            env.vars.append((kind, new, fl))
    elif k == "queue":
        def f(env):
            i = pick(env.vars, ("op", "meas"), s["arg"])
            if i is not None:
                env.vars[i][1].queue()
    elif k == "raise":
        def f(env):
            raise Boom()
    elif k == "with":
        body = compile_block(qp, s["body"])

        def f(env):
            ctx = qp.queuing.AnnotatedQueue() if s["ctx"] == "queue" else qp.tape.QuantumTape()
            env.ctxs.append((s["ctx"], ctx))
            env.vars.append(("tape" if s["ctx"] == "tape" else "queue", ctx, frozenset()))
            saved = list(env.open)
            try:
                with ctx:
                    env.open.append(ctx)
                    body(env)
            finally:
                env.open[:] = saved
    elif k == "stop":
        body = compile_block(qp, s["body"])

        def f(env):
            saved = list(env.open)
            try:
                with QM.stop_recording():
                    env.open[:] = [None]
                    body(env)
            finally:
                env.open[:] = saved
    elif k == "try":
        body = compile_block(qp, s["body"])

        def f(env):
            saved = list(env.open)
            try:
                body(env)
            except (Boom, RuntimeError, ValueError) as e:
                env.open[:] = saved
                env.caught.append(classify(e))
    elif k in ("adjfn", "ctrlfn"):
        body = compile_block(qp, s["body"])

        def f(env):
            saved = list(env.open)

            def qfunc():
                env.open.append("fn")
                body(env)

            try:
                if k == "adjfn":
                    res = qp.adjoint(qfunc)()
                    for o in (res if isinstance(res, list) else [res]):
                        env.vars.append(("op", o, frozenset()))
                else:
                    qp.ctrl(qfunc, control=[f"c{s['id']}"])()
            finally:
                env.open[:] = saved
    else:
        raise ValueError(k)
    return f


def classify(e):
    if isinstance(e, Boom):
        return "Boom"
    if isinstance(e, RuntimeError) and "No queuing context available" in str(e):
        return "RuntimeError:apply"
    if isinstance(e, ValueError) and "must occur prior to measurements" in str(e):
        return "ValueError:order"
    raise e


def run_real(qp, spec):
    env = Env()
    pre = compile_block(qp, spec["pre"])
    body = compile_block(qp, spec["body"])
    pre_exc = None
    try:
        pre(env)
    except RuntimeError as e:
        pre_exc = classify(e)
    top = {"script": None, "exc": None}

    def qfunc():
        env.open.append("top")
        body(env)

    env.open[:] = []
    try:
        top["script"] = qp.tape.make_qscript(qfunc)()
    except (Boom, RuntimeError, ValueError) as e:
        top["exc"] = classify(e)
    return env, top, pre_exc


# `opened` handling above needs real context objects for the top level and fn bodies: explicit-context apply is
# only generated against `with` contexts, so the markers "top"/"fn" are filtered out there.


# =============================================================================================
# model interpreter
# =============================================================================================

class MRaise(Exception):
    def __init__(self, kind):
        super().__init__(kind)
        self.kind = kind


class Model:
    def __init__(self):
        self.objs = []      # objid -> dict(term, ops(list objid: direct operands), args, kind, gate, var)
        self.vars = []      # (kind, objid | ctxid)
        self.stack = []     # context ids; "STOP" markers hide everything below
        self.ctx = []       # ctxid -> dict(kind, items(list objid / ("tape", ctxid)), failed)
        self.caught = []
        self.copies = []
        self.stats = {"consumed": 0, "apply": 0, "maxdepth": 0, "stop_skipped": 0, "exc": 0, "outer_kept": 0}

    # ---- queue primitives
    def active(self):
        if not self.stack or self.stack[-1] == "STOP":
            return None
        return self.stack[-1]

    def visible(self):
        out = []
        for c in reversed(self.stack):
            if c == "STOP":
                break
            out.append(c)
        return list(reversed(out))

    def new_obj(self, term, kind, operands=(), flags=frozenset(), maybe=()):
        self.objs.append({"term": term, "kind": kind, "ops": list(operands), "flags": flags, "maybe": list(maybe)})
        return len(self.objs) - 1

    def enqueue(self, oid, target, extra=()):
        """Queue object `oid` into context `target`: its direct operands leave that context first."""
        items = self.ctx[target]["items"]
        o = self.objs[oid]
        for m in o["maybe"]:
            if m in items and m not in o["ops"] and m not in extra:
                raise Reject("ambiguous: a possibly shared operand (ctrl result / copy made by apply) is still queued in the target")
        for x in list(o["ops"]) + list(extra):
            if x in items:
                items.remove(x)
                self.stats["consumed"] += 1
        if oid not in items:
            items.append(oid)

    def create(self, term, kind, operands=(), args=(), flags=frozenset(), maybe=()):
        oid = self.new_obj(term, kind, operands, flags, maybe)
        a = self.active()
        if a is not None:
            self.enqueue(oid, a, extra=args)
        else:
            if self.stack:
                self.stats["stop_skipped"] += 1
        # an argument sitting in an outer (non-innermost) context must stay there
        for c in self.visible()[:-1]:
            if any(x in self.ctx[c]["items"] for x in list(operands) + list(args)):
                self.stats["outer_kept"] += 1
        return oid

    def shadow(self, oid):
        o = self.objs[oid]
        return self.new_obj(o["term"], o["kind"], [self.shadow(x) for x in o["ops"]], o["flags"], ())

    def desc(self, oid):
        out = []
        todo = [oid]
        while todo:
            o = self.objs[todo.pop()]
            for x in o["ops"] + o["maybe"]:
                if x not in out:
                    out.append(x)
                    todo.append(x)
        return out

    # ---- statements
    def block(self, stmts):
        for s in stmts:
            self.stmt(s)

    def wrap(self, s, ids):  # noqa: C901
        f = s["f"]
        O = self.objs
        t = [O[i]["term"] for i in ids]
        fl = flags_for({"k": "wrap", "f": f}, [O[i]["flags"] for i in ids])
        a = ids[0]

        def flat(ids_, head):
            out = []
            for i in ids_:
                if O[i]["term"][0] == head:
                    out += O[i]["ops"]
                else:
                    out.append(i)
            return out

        def sprod(c, i, lazy):
            if not lazy and O[i]["term"][0] == "s_prod":
                base = O[i]["ops"][0]
                return self.create(("s_prod", c * O[i]["term"][1], O[base]["term"]), "op", [base], [i], flags=fl)
            return self.create(("s_prod", c, O[i]["term"]), "op", [i], [i], flags=fl)

        def nary(head, ids_, lazy):
            ops = ids_ if lazy else flat(ids_, head)
            return self.create((head, tuple(O[i]["term"] for i in ops)), "op", ops, ids_, flags=fl)

        if f == "adjoint":
            return self.create(("adjoint", t[0]), "op", [a], [a], flags=fl)
        if f == "ctrl":
            cw = f"c{s['id']}"
            maybe = [a] + (O[a]["maybe"] if O[a]["term"][0] == "ctrl" else [])
            # the result may be a custom class without operand objects, or keep (a flattened) base
            return self.create(("ctrl", t[0], cw), "op", [], [a], flags=fl, maybe=maybe)
        if f in ("pow", "dpow"):
            return self.create(("pow", t[0], s["z"]), "op", [a], [a], flags=fl)
        if f in ("prod", "prod_nl", "matmul"):
            return nary("prod", ids, f == "prod")
        if f in ("sum", "sum_nl", "add"):
            return nary("sum", ids, f == "sum")
        if f in ("s_prod", "s_prod_nl", "mul"):
            return sprod(s["c"], a, f == "s_prod")
        if f == "neg":
            return sprod(-1, a, False)
        if f == "exp":
            return self.create(("exp", t[0], s["c"]), "op", [a], [a])
        if f == "sub":
            m = sprod(-1, ids[1], False)
            return nary("sum", [a, m], False)
        raise ValueError(f)

    def stmt(self, s):  # noqa: C901
        k = s["k"]
        if k == "op":
            spec_ = {kk: s[kk] for kk in ("op", "p", "w")}
            self.vars.append(("op", self.create(("op", spec_), "op", flags=flags_for(s)), flags_for(s)))
        elif k == "wrap":
            idx = [pick(self.vars, ("op",), r, arg_pred(s)) for r in s["args"][:n_args(s)]]
            if any(i is None for i in idx):
                return
            ids = [self.vars[i][1] for i in idx]
            new = self.wrap(s, ids)
            self.vars.append(("op", new, self.objs[new]["flags"]))
        elif k == "meas":
            obs = None
            if s["mp"] in ("expval", "var", "probs_op", "sample_op", "counts_op"):
                i = pick(self.vars, ("op",), s["arg"], arg_pred(s))
                if i is None:
                    return
                obs = self.vars[i][1]
            term = ("meas", s["mp"], None if obs is None else self.objs[obs]["term"], tuple(s["w"]))
            ops = [] if obs is None else [obs]
            self.vars.append(("meas", self.create(term, "meas", ops, ops), frozenset()))
        elif k == "apply":
            i = pick(self.vars, ("op", "meas"), s["arg"])
            if i is None:
                return
            kind, oid, fl = self.vars[i]
            if self.active() is None:
                self.stats["exc"] += 1
                raise MRaise("RuntimeError:apply")
            withs = [c for c in self.visible() if self.ctx[c]["kind"] in ("queue", "tape")]
            target = self.active()
            if s["ctx"] is not None and withs:
                target = withs[s["ctx"] % len(withs)]
            o = self.objs[oid]
            # the copy owns copies of its operands (legacy wrappers) or shares them (Operator2 wrappers): whether an
            # operand of the original that is still queued in the target gets removed is not specified -> `maybe`
            new = self.new_obj(o["term"], o["kind"], [self.shadow(x) for x in o["ops"]], o["flags"], self.desc(oid))
            self.enqueue(new, target)
            self.copies.append((oid, new))
            self.stats["apply"] += 1
            self.vars.append((kind, new, fl))
        elif k == "queue":
            i = pick(self.vars, ("op", "meas"), s["arg"])
            if i is not None and self.active() is not None:
                self.enqueue(self.vars[i][1], self.active())
        elif k == "raise":
            self.stats["exc"] += 1
            raise MRaise("Boom")
        elif k == "with":
            cid = len(self.ctx)
            self.ctx.append({"kind": s["ctx"], "items": []})
            self.vars.append(("tape" if s["ctx"] == "tape" else "queue", cid, frozenset()))
            if s["ctx"] == "tape" and self.active() is not None:
                self.ctx[self.active()]["items"].append(("tape", cid))
            self.stack.append(cid)
            depth = len([c for c in self.stack if c != "STOP"])
            self.stats["maxdepth"] = max(self.stats["maxdepth"], depth)
            bad = None
            try:
                self.block(s["body"])
            except MRaise as e:
                bad = e
            finally:
                self.stack.pop()
            # QuantumTape.__exit__ processes its queue even when an exception is in flight; the documented
            # ValueError of process_queue then replaces that exception
            if s["ctx"] == "tape" and not self.well_ordered(cid):
                self.stats["exc"] += 1
                raise MRaise("ValueError:order")
            if bad is not None:
                raise bad
        elif k == "stop":
            self.stack.append("STOP")
            try:
                self.block(s["body"])
            finally:
                self.stack.pop()
        elif k == "try":
            try:
                self.block(s["body"])
            except MRaise as e:
                self.caught.append(e.kind)
        elif k in ("adjfn", "ctrlfn"):
            cid = len(self.ctx)
            self.ctx.append({"kind": "fn", "items": []})
            self.stack.append(cid)
            try:
                self.block(s["body"])
            finally:
                self.stack.pop()
            if not self.well_ordered(cid):
                raise MRaise("ValueError:order")
            items = self.ctx[cid]["items"]
            if any(isinstance(x, tuple) or self.objs[x]["kind"] != "op" for x in items):
                raise Reject("function body recorded a non-operator")
            if k == "adjfn":
                for x in reversed(items):
                    o = self.objs[x]
                    self.vars.append(("op", self.create(("adjoint", o["term"]), "op", [x], [x]), frozenset()))
            else:
                if not all("gate" in self.objs[x]["flags"] for x in items):
                    raise Reject("ctrl of a non-gate operator")
                for x in items:
                    self.wrap({"f": "ctrl", "id": s["id"], "n": 1}, [x])
        else:
            raise ValueError(k)

    def well_ordered(self, cid):
        seen_m = False
        for x in self.ctx[cid]["items"]:
            is_m = (not isinstance(x, tuple)) and self.objs[x]["kind"] == "meas"
            if is_m:
                seen_m = True
            elif seen_m:
                return False
        return True


def run_model(spec):
    m = Model()
    pre_exc = None
    try:
        m.block(spec["pre"])
    except MRaise as e:
        pre_exc = e.kind
    top = len(m.ctx)
    m.ctx.append({"kind": "top", "items": []})
    m.stack = [top]
    exc = None
    try:
        try:
            m.block(spec["body"])
        finally:
            m.stack = []
        if not m.well_ordered(top):
            raise MRaise("ValueError:order")
    except MRaise as e:
        exc = e.kind
    return m, top, exc, pre_exc


# =============================================================================================
# expected objects rebuilt from model terms (outside every context)
# =============================================================================================

def build_term(qp, t):
    h = t[0]
    if h == "op":
        return specs.build_op(t[1])
    if h == "adjoint":
        return qp.adjoint(build_term(qp, t[1]))
    if h == "ctrl":
        return qp.ctrl(build_term(qp, t[1]), control=[t[2]])
    if h == "pow":
        return qp.pow(build_term(qp, t[1]), t[2])
    if h == "prod":
        return qp.prod(*[build_term(qp, x) for x in t[1]])
    if h == "sum":
        return qp.sum(*[build_term(qp, x) for x in t[1]])
    if h == "s_prod":
        return qp.s_prod(t[1], build_term(qp, t[2]))
    if h == "exp":
        return qp.exp(build_term(qp, t[1]), t[2] * 1j)
    if h == "meas":
        obs = None if t[2] is None else build_term(qp, t[2])
        return make_meas(qp, {"mp": t[1], "w": list(t[3])}, obs)
    raise ValueError(h)


# =============================================================================================

def check_eager(qp, e):
    """The eager form of a wrapper constructor: whatever qp.pow / qp.adjoint (lazy=False) returns stands in the queue where
    its argument stood (the argument itself is consumed); oracle = the circuit unitary pre . base^z . post."""
    import numpy as np

    from pv import specs
    from pv.ref import sim

    order = list(e["wires"])
    with qp.queuing.AnnotatedQueue() as q:
        for o in e["pre"]:
            specs.build_op(o)
        base = specs.build_op(e["base"])
        if e["fn"] == "ctrl":      # wrapping an already controlled operator: flattened or not, the inner one is consumed
            r = qp.ctrl(base, control=[e["cwire"]], control_values=[e["cv"]])
        else:
            r = qp.pow(base, e["z"], lazy=False) if e["fn"] == "pow" else qp.adjoint(base, lazy=False)
        if e["again"] and e["fn"] == "pow":
            r2 = qp.pow(r, 1, lazy=False)     # an eager no-op on the result keeps it recorded once
        for o in e["post"]:
            specs.build_op(o)
    ops = list(q.queue)
    feats = {"base": e["base"]["op"], "fn": e["fn"], "z": e["z"], "again": e["again"]}
    sig = f"eager-{e['fn']}:{e['base']['op']}"
    if any(o is base for o in ops) and r is not base:
        raise Viol("eager-base-still-queued", f"{e}: queue={ops}", sig=sig, features=feats)
    n_pre, n_post = len(e["pre"]), len(e["post"])
    if len(ops) < n_pre + n_post:
        raise Viol("eager-queue-lost-operators", f"{e}: queue={ops}", sig=sig, features=feats)
    B = np.asarray(sim.op_matrix(specs.build_op(e["base"])))
    z = e["z"]
    bw = list(specs.build_op(e["base"]).wires)
    if e["fn"] == "ctrl":
        Z = np.zeros_like(B)
        I = np.eye(len(B))
        M = np.block([[I, Z], [Z, B]]) if e["cv"] else np.block([[B, Z], [Z, I]])
        bw = [e["cwire"]] + bw
    elif e["fn"] == "adjoint":
        M = B.conj().T
    elif float(z) == int(z):
        M = np.linalg.matrix_power(B, int(z))
    else:
        from scipy.linalg import fractional_matrix_power

        M = fractional_matrix_power(B, z)
    U_pre = sim.unitary([specs.build_op(o) for o in e["pre"]], order)
    U_post = sim.unitary([specs.build_op(o) for o in e["post"]], order)
    expect = U_post @ sim.embed(M, bw, order) @ U_pre
    got = sim.unitary(ops, order)
    if not np.allclose(got, expect, atol=1e-9):
        mid = ops[n_pre:len(ops) - n_post]
        raise Viol("eager-queue-content", f"{e}: recorded middle={mid} returned={r!r}; circuit unitary differs by {np.abs(got - expect).max():.3g}",
                   sig=sig, features=feats)
    return Result(True, ["eager:" + e["fn"], "eager-base:" + e["base"]["op"], "eager-returned:" + type(r).__name__])


def check(spec):  # noqa: C901
    import pennylane as qp

    QM = qp.queuing.QueuingManager
    if QM.recording():
        raise RuntimeError("harness: a recording context leaked from a previous case")
    if "eager" in spec:
        return check_eager(qp, spec["eager"])
    spec = number(spec)
    model, mtop, mexc, mpre = run_model(spec)   # may raise Reject before anything real runs
    try:
        env, top, pre_exc = run_real(qp, spec)
    finally:
        leaked = QM.recording() or QM.active_context() is not None
        if leaked:
            QM._active_contexts = []  # restore for the following cases; reported below
    if leaked:
        raise Viol("stack-not-restored", "QueuingManager still recording after the program finished")
    if pre_exc != mpre:
        raise Viol("prelude-exception", f"real {pre_exc} model {mpre}")
    if top["exc"] != mexc:
        raise Viol("top-exception", f"real {top['exc']} model {mexc}", sig=f"{top['exc']}/{mexc}")
    if env.caught != model.caught:
        raise Viol("caught-exceptions", f"real {env.caught} model {model.caught}")
    if len(env.vars) != len(model.vars) or any(a[0] != b[0] for a, b in zip(env.vars, model.vars)):
        raise Viol("variables", f"real {[v[0] for v in env.vars]} model {[v[0] for v in model.vars]}")
    real_of = {}
    for (kind, obj, _f), (_, oid, _g) in zip(env.vars, model.vars):
        if kind in ("op", "meas"):
            real_of[oid] = obj
    # model contexts of kind queue/tape are numbered in entry order, like env.ctxs
    mctx = [i for i, c in enumerate(model.ctx) if c["kind"] in ("queue", "tape")]
    if len(mctx) != len(env.ctxs):
        raise Viol("contexts", f"{len(env.ctxs)} real contexts vs {len(mctx)} in the model")
    real_ctx = {cid: obj for cid, (_, obj) in zip(mctx, env.ctxs)}

    def describe(items):
        return [("TAPE" if isinstance(x, tuple) else repr(model.objs[x]["term"])[:60]) for x in items]

    def compare(actual, cid, what):
        items = model.ctx[cid]["items"]
        if len(actual) != len(items):
            raise Viol("queue-length", f"{what}: real {[str(o)[:40] for o in actual]} model {describe(items)}", sig=what.split('#')[0])
        for pos, (obj, x) in enumerate(zip(actual, items)):
            if isinstance(x, tuple):
                if obj is not real_ctx[x[1]]:
                    raise Viol("queue-entry", f"{what}[{pos}]: expected the nested tape, got {str(obj)[:60]}", sig="tape-entry")
                continue
            if x in real_of and obj is not real_of[x]:
                raise Viol("queue-entry", f"{what}[{pos}]: real {str(obj)[:60]} is not the object the program queued there "
                           f"({model.objs[x]['term']!r}); real {[str(o)[:40] for o in actual]} model {describe(items)}",
                           sig="identity")
            exp = build_term(qp, model.objs[x]["term"])
            if not qp.equal(obj, exp):
                raise Viol("queue-entry", f"{what}[{pos}]: real {str(obj)[:80]} != expected {str(exp)[:80]}", sig="value")

    for cid, (kind, obj) in zip(mctx, env.ctxs):
        items = model.ctx[cid]["items"]
        compare(obj.queue if kind == "queue" else [o for o, _ in qp.queuing.AnnotatedQueue.items(obj)], cid, f"{kind}#{cid}")
        if kind == "tape" and model.well_ordered(cid):
            nm = sum(1 for x in items if not isinstance(x, tuple) and model.objs[x]["kind"] == "meas")
            if len(obj.operations) != len(items) - nm or len(obj.measurements) != nm:
                raise Viol("tape-split", f"tape#{cid}: {len(obj.operations)} ops/{len(obj.measurements)} meas, model {len(items) - nm}/{nm}")
            compare(list(obj.operations) + list(obj.measurements), cid, f"tape-circuit#{cid}")
    if mexc is None:
        qs = top["script"]
        compare(list(qs.operations) + list(qs.measurements), mtop, "make_qscript")
        nm = sum(1 for x in model.ctx[mtop]["items"] if not isinstance(x, tuple) and model.objs[x]["kind"] == "meas")
        if len(qs.measurements) != nm:
            raise Viol("tape-split", f"make_qscript: {len(qs.measurements)} measurements, model {nm}")
    for (orig, new), (mo, mn) in zip(env.copies, model.copies):
        if new is orig:
            raise Viol("apply-copy", "qp.apply queued the original object instead of a copy")
        if not qp.equal(new, orig):
            raise Viol("apply-copy", f"copy {new} differs from {orig}")
    st_ = model.stats
    labels = [f"depth{st_['maxdepth']}"]
    for key in ("consumed", "apply", "stop_skipped", "exc", "outer_kept"):
        if st_[key]:
            labels.append(key)
    if mexc:
        labels.append("top:" + mexc)
    for c in model.caught:
        labels.append("caught:" + c)
    if any(s["k"] in ("adjfn", "ctrlfn") for s in _walk(spec["body"])):
        labels.append("fn-transform")
    nontrivial = st_["maxdepth"] >= 2 or (st_["consumed"] and st_["apply"])
    return Result(nontrivial, labels)


def _walk(stmts):
    for s in stmts:
        yield s
        if "body" in s:
            yield from _walk(s["body"])


def selftest():
    # model sanity on a hand-written program: X queued, consumed by adjoint, applied twice
    prog = number({"pre": [], "body": [
        {"k": "op", "op": "PauliX", "p": [], "w": [0]},
        {"k": "wrap", "f": "adjoint", "args": [0, 0, 0], "n": 2, "z": 2, "c": 1.0},
        {"k": "apply", "arg": 1, "ctx": None},
        {"k": "stop", "body": [{"k": "op", "op": "PauliY", "p": [], "w": [0]}]},
    ]})
    m, top, exc, _ = run_model(prog)
    terms = [m.objs[x]["term"][0] for x in m.ctx[top]["items"]]
    assert terms == ["adjoint", "op"] and exc is None, terms
