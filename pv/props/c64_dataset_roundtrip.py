"""C64 — dataset attributes survive HDF5 round trips (write / open / append / copy histories)."""
import copy
import functools
import math
import os
import shutil
from collections.abc import Mapping, Sequence

import numpy as np
from hypothesis import strategies as st

from pv import gen, specs
from pv.engine import Reject, Result, Viol, spec_hash

ID = "C64"
TECHNIQUE = ("hypothesis-generated nested attribute values over every supported type and histories of set / delete / write / "
             "open / read / append / copy on temporary HDF5 files, vs a model dict under a typed equality")
RULE = (
    "Values (nesting <= 3): numpy arrays of every numeric dtype (bool, (u)int8-64, float16-64, complex64/128; shapes incl. 0-d and "
    "empty), pennylane.numpy tensors, Python and numpy scalars (incl. inf/nan/2**62), str (unicode, empty), None, list, tuple, "
    "dict with string keys, operators (plain, symbolic, arithmetic, LinearCombination; default pytree codec and explicit "
    "DatasetOperator for the types listed in DatasetOperator.supported_ops), scipy sparse arrays/matrices of all seven formats, "
    "qchem.Molecule, pytrees (QuantumScript, measurement process), DatasetJSON, nested Dataset, attribute(value, doc=...). "
    "History (2-10 steps) over one in-memory dataset, up to 3 files and one open file handle: set / replace (del+set) / re-assign "
    "/ delete an attribute, list append / dict setitem on a stored container, write(path, mode w|w-|a, attributes, overwrite), "
    "Dataset.open(path, r|a|w|w-|copy), close, read(path, attributes, overwrite), copy.copy / deepcopy of an attribute. Oracle: a "
    "model {name: value spec} per dataset and file (write/read = key-wise merge honouring overwrite; w truncates; w- on an "
    "existing file and writes to a read-only handle must raise the documented errors and change nothing; copy mode detaches); "
    "after EVERY step every live dataset and, at the end, every file re-opened read-only must list exactly the model's names and "
    "each value must equal a freshly built expected value under a typed equality (scalars: numeric kind and value, numpy "
    "scalars also dtype; arrays: class, dtype, shape, values, requires_grad; containers elementwise; operators qp.equal with "
    "rtol=atol=0 (matrix equality for arithmetic operators stored through DatasetOperator, which simplifies); sparse: class, "
    "shape, dtype, (a != b).nnz == 0; Molecule field-wise); identifiers, data_name and attribute docs are preserved. "
    "Non-trivial: a nested container holding an operator / array / sparse value went through >= 1 file re-open."
)
ASSUMPTIONS = [
    "Strings contain no NUL character and dict keys / attribute names contain no '/' or '.' (HDF5 path syntax).",
    "Python ints are within int64; long double / object / unicode-array dtypes are not generated (not numeric HDF5 types).",
    "Only one handle per file is open at a time (documented: a dataset file cannot be accessed by two handles simultaneously).",
    "Temporary files live under /verif/scratch/c64_<pid>_<hash>/ and are removed after the case.",
]
BUDGET = {"quick": {"examples": 240}, "thorough": {"examples": 12000, "shards": 16}}
SHRINK_LISTS = ("steps", "items", "init")

SCRATCH = "/verif/scratch"
NAMES = ["a", "b", "c", "d", "e", "f", "ident"]
DTYPES = ["bool", "int8", "int16", "int32", "int64", "uint8", "uint16", "uint32", "uint64", "float16", "float32", "float64",
          "complex64", "complex128"]
SHAPES = [[], [0], [1], [3], [2, 3], [2, 0], [1, 1, 2], [4]]
SPARSE = ["bsr_array", "coo_array", "csc_array", "csr_array", "dia_array", "dok_array", "lil_array",
          "bsr_matrix", "coo_matrix", "csc_matrix", "csr_matrix", "dia_matrix", "dok_matrix", "lil_matrix"]
KEYS = ["k", "key2", "x", "Zz", "α", "with space", "0", "k_1"]

# ------------------------------------------------------------------------------------------------ strategies

text = st.text(st.characters(blacklist_categories=("Cs",), blacklist_characters="\x00"), max_size=8)
fl = st.one_of(st.floats(-1e6, 1e6, allow_nan=False).map(lambda x: round(x, 6)), st.sampled_from([0.0, -0.0, 1e-300, 1.5e300]))


@functools.lru_cache(maxsize=None)
def scalar_st():
    return st.one_of(
        st.integers(-2**62, 2**62).map(lambda v: {"t": "int", "v": v}),
        st.integers(-5, 5).map(lambda v: {"t": "int", "v": v}),
        st.one_of(fl, st.sampled_from(["inf", "-inf", "nan"])).map(lambda v: {"t": "float", "v": v}),
        st.tuples(fl, fl).map(lambda v: {"t": "complex", "v": list(v)}),
        st.booleans().map(lambda v: {"t": "bool", "v": v}),
        st.tuples(st.sampled_from(DTYPES), st.integers(0, 100)).map(lambda t: {"t": "npscalar", "dtype": t[0], "seed": t[1]}),
        text.map(lambda v: {"t": "str", "v": v}),
        st.sampled_from(["", "héllo ✓", "a/b", "line\nbreak", " "]).map(lambda v: {"t": "str", "v": v}),
        st.just({"t": "none"}),
    )


@functools.lru_cache(maxsize=None)
def array_st():
    return st.one_of(
        st.tuples(st.sampled_from(DTYPES), st.sampled_from(SHAPES), st.integers(0, 100)).map(
            lambda t: {"t": "arr", "dtype": t[0], "shape": t[1], "seed": t[2]}),
        st.tuples(st.sampled_from(["float64", "float32", "complex128", "int64"]), st.sampled_from(SHAPES), st.integers(0, 100),
                  st.booleans()).map(lambda t: {"t": "tensor", "dtype": t[0], "shape": t[1], "seed": t[2], "rg": t[3]}),
    )


@st.composite
def op_st(draw):
    wires = draw(gen.wire_labels(draw(st.integers(1, 4))))
    base = draw(st.one_of(gen.gate(wires), gen.gate(wires), gen.extra_gate(wires),
                          st.tuples(gen.float_list(5), gen.subset(wires, 1)).map(
                              lambda t: {"op": "Hermitian", "p": [{"H": t[0], "n": 1}], "w": t[1]})))
    kind = draw(st.sampled_from(["plain", "plain", "plain", "adjoint", "pow", "ctrl", "prod", "sum", "s_prod", "lincomb"]))
    obs = gen.pauli_word_obs(wires, 2)
    if kind == "plain":
        s = base
    elif kind == "adjoint":
        s = {"op": "adjoint", "base": base}
    elif kind == "pow":
        s = {"op": "pow", "base": base, "z": draw(st.sampled_from([2, 3, 0.5, -1]))}
    elif kind == "ctrl":
        s = {"op": "ctrl", "base": base, "cw": ["cw_extra"], "cv": [draw(st.integers(0, 1))]}
    elif kind == "prod":
        s = {"op": "prod", "operands": [draw(obs), draw(obs)]}
    elif kind == "sum":
        s = {"op": "sum", "operands": [draw(obs), {"op": "s_prod", "c": draw(gen.floats01), "base": draw(obs)}]}
    elif kind == "s_prod":
        s = {"op": "s_prod", "c": draw(gen.floats01.filter(lambda x: x != 0)), "base": draw(obs)}
    else:
        n = draw(st.integers(1, 3))
        s = {"op": "lincomb", "coeffs": [draw(gen.floats01) for _ in range(n)], "operands": [draw(obs) for _ in range(n)]}
    return {"t": "op", "spec": s, "via": draw(st.sampled_from(["pytree", "pytree", "operator"]))}


@st.composite
def sparse_st(draw):
    shape = draw(st.sampled_from([[1, 1], [2, 3], [4, 4], [3, 1]]))
    n = draw(st.integers(0, 5))
    ent = [[draw(st.integers(0, shape[0] - 1)), draw(st.integers(0, shape[1] - 1)), draw(st.integers(-4, 4))] for _ in range(n)]
    return {"t": "sparse", "fmt": draw(st.sampled_from(SPARSE)), "dtype": draw(st.sampled_from(["float64", "complex128", "int64", "float32"])),
            "shape": shape, "entries": ent}


@functools.lru_cache(maxsize=None)
def special_st():
    mol = st.tuples(st.sampled_from([["H", "H"], ["H", "He"], ["Li", "H"]]), st.lists(gen.floats01, min_size=6, max_size=6),
                    st.sampled_from(["sto-3g", "6-31g"])).map(
        lambda t: {"t": "molecule", "symbols": t[0], "coords": t[1], "basis": t[2]})
    tape = st.tuples(gen.circuit(max_wires=2, max_depth=3, extras=False, max_meas=2), st.sampled_from([None, 10, [3, 4]])).map(
        lambda t: {"t": "pytree", "kind": "tape", "c": {**t[0], "shots": t[1]}})
    mp = gen.pauli_word_obs([0, "b"], 2).map(lambda o: {"t": "pytree", "kind": "mp", "m": {"mp": "expval", "obs": o}})
    js = st.recursive(st.one_of(st.none(), st.booleans(), st.integers(-5, 5), st.sampled_from(["s", ""])),
                      lambda ch: st.one_of(st.lists(ch, max_size=3), st.dictionaries(st.sampled_from(["p", "q"]), ch, max_size=2)),
                      max_leaves=5).map(lambda v: {"t": "json", "v": v})
    return st.one_of(op_st(), op_st(), sparse_st(), mol, tape, mp, js)


@functools.lru_cache(maxsize=None)
def value_st(depth=3):
    leaf = st.one_of(scalar_st(), scalar_st(), array_st(), array_st(), special_st())
    if depth == 0:
        return leaf
    sub = value_st(depth - 1)
    items = st.lists(sub, max_size=3)
    return st.one_of(
        leaf, leaf, leaf,
        items.map(lambda xs: {"t": "list", "items": xs}),
        items.map(lambda xs: {"t": "tuple", "items": xs}),
        st.lists(st.tuples(st.sampled_from(KEYS), sub).map(list), max_size=3, unique_by=lambda kv: kv[0]).map(
            lambda xs: {"t": "dict", "items": xs}),
        st.lists(st.tuples(st.sampled_from(NAMES[:4]), sub).map(list), max_size=2, unique_by=lambda kv: kv[0]).map(
            lambda xs: {"t": "dataset", "attrs": xs}),
        st.tuples(sub, st.sampled_from(["doc", "a longer docstring ✓"])).map(lambda t: {"t": "attr", "value": t[0], "doc": t[1]}),
    )


rich = st.one_of(
    st.lists(st.one_of(op_st(), array_st(), sparse_st()), min_size=1, max_size=3).map(lambda xs: {"t": "list", "items": xs}),
    st.lists(st.tuples(st.sampled_from(KEYS), st.one_of(op_st(), array_st(), sparse_st())).map(list), min_size=1, max_size=3,
             unique_by=lambda kv: kv[0]).map(lambda xs: {"t": "dict", "items": xs}),
)


@functools.lru_cache(maxsize=None)
def step_st():
    name = st.sampled_from(NAMES)
    tgt = st.sampled_from(["mem", "mem", "handle"])
    f = st.integers(0, 2)
    sel = st.one_of(st.none(), st.lists(st.integers(0, 6), min_size=1, max_size=3))
    val = st.one_of(value_st(2), rich)
    return st.one_of(
        st.fixed_dictionaries({"op": st.just("set"), "on": tgt, "name": name, "value": val, "how": st.sampled_from(["new", "new", "new", "replace", "replace", "reassign"])}),
        st.fixed_dictionaries({"op": st.just("set"), "on": tgt, "name": name, "value": val, "how": st.just("new")}),
        st.fixed_dictionaries({"op": st.just("del"), "on": tgt, "pick": st.integers(0, 6)}),
        st.fixed_dictionaries({"op": st.just("append"), "on": tgt, "pick": st.integers(0, 6), "value": value_st(1), "key": st.sampled_from(KEYS)}),
        st.fixed_dictionaries({"op": st.just("write"), "file": f, "mode": st.sampled_from(["w", "a", "a", "w-"]), "sel": sel, "overwrite": st.booleans()}),
        st.fixed_dictionaries({"op": st.just("write"), "file": f, "mode": st.sampled_from(["w", "a"]), "sel": st.none(), "overwrite": st.booleans()}),
        st.fixed_dictionaries({"op": st.just("open"), "file": f, "mode": st.sampled_from(["r", "r", "a", "copy", "w", "w-"])}),
        st.fixed_dictionaries({"op": st.just("open"), "file": f, "mode": st.sampled_from(["r", "a", "copy"])}),
        st.just({"op": "close"}),
        st.fixed_dictionaries({"op": st.just("read"), "file": f, "sel": sel, "overwrite": st.booleans()}),
        st.fixed_dictionaries({"op": st.just("copyattr"), "on": tgt, "pick": st.integers(0, 6), "deep": st.booleans()}),
    )


def strategy(tier):
    mx = 9 if tier == "quick" else 14
    init = st.lists(st.tuples(st.sampled_from(NAMES), st.one_of(value_st(3), rich)).map(list), min_size=1, max_size=4,
                    unique_by=lambda kv: kv[0])
    tail = st.one_of(st.just([]), st.tuples(
        st.fixed_dictionaries({"op": st.just("write"), "file": st.integers(0, 2), "mode": st.sampled_from(["w", "a"]), "sel": st.none(),
                               "overwrite": st.booleans()}),
        st.sampled_from(["r", "copy", "a"])).map(lambda t: [t[0], {"op": "open", "file": t[0]["file"], "mode": t[1]}]))
    tail2 = st.tuples(st.integers(0, 2), st.integers(0, 6), st.integers(0, 6), st.lists(st.integers(0, 6), min_size=1, max_size=2),
                      st.booleans()).map(lambda t: [
        {"op": "write", "file": t[0], "mode": "w", "sel": None, "overwrite": False},
        {"op": "del", "on": "mem", "pick": t[1]}, {"op": "del", "on": "mem", "pick": t[2]},
        {"op": "read", "file": t[0], "sel": t[3], "overwrite": t[4]}])
    tail = st.one_of(tail, tail, tail2)
    rich_init = st.tuples(st.sampled_from(NAMES[:3]), rich).map(list)

    @st.composite
    def build_case(draw):
        ini = draw(init)
        if draw(st.booleans()):
            r = draw(rich_init)
            ini = [kv for kv in ini if kv[0] != r[0]] + [r]
        steps = draw(st.lists(step_st(), min_size=2, max_size=mx)) + draw(tail)
        return {"init": ini, "ids": draw(st.sampled_from([[], [], ["ident"]])), "data_name": draw(st.sampled_from([None, "pv"])), "steps": steps}

    return build_case()


def enumerate_cases(tier):
    import pennylane as qp

    # every operator class DatasetOperator lists as supported: explicit DatasetOperator codec and default (pytree) codec
    for name in sorted(c.__name__ for c in qp.data.DatasetOperator.supported_ops()):
        for via in ("operator", "pytree"):
            yield {"init": [["a", {"t": "opcls", "name": name, "via": via}],
                            ["b", {"t": "list", "items": [{"t": "opcls", "name": name, "via": via}, {"t": "int", "v": 1}]}]],
                   "ids": [], "data_name": None, "steps": [{"op": "write", "file": 0, "mode": "w", "sel": None, "overwrite": False},
                                                            {"op": "open", "file": 0, "mode": "r"}]}
    # read(overwrite=True) must replace what the dataset already holds (container and scalar)
    w0 = {"op": "write", "file": 1, "mode": "w", "sel": None, "overwrite": False}
    rd = {"op": "read", "file": 1, "sel": [0], "overwrite": True}
    yield {"init": [["b", {"t": "dict", "items": []}]], "ids": [], "data_name": None, "steps": [
        w0, {"op": "append", "on": "mem", "pick": 0, "value": {"t": "float", "v": 1.0}, "key": "k"}, rd]}
    yield {"init": [["b", {"t": "list", "items": [{"t": "int", "v": 1}]}]], "ids": [], "data_name": None, "steps": [
        w0, {"op": "append", "on": "mem", "pick": 0, "value": {"t": "int", "v": 2}, "key": "k"}, rd]}
    yield {"init": [["a", {"t": "int", "v": 1}]], "ids": [], "data_name": None, "steps": [
        w0, {"op": "set", "on": "mem", "name": "a", "value": {"t": "int", "v": 2}, "how": "replace"}, rd]}
    # assignments to a dataset opened read-only must raise DatasetNotWriteableError whatever the value type
    for v in ({"t": "int", "v": 5}, {"t": "list", "items": [{"t": "int", "v": 1}]}, {"t": "dict", "items": []},
              {"t": "attr", "value": {"t": "int", "v": 5}, "doc": "doc"}, {"t": "arr", "dtype": "float64", "shape": [2], "seed": 1},
              {"t": "op", "spec": {"op": "PauliX", "w": [0]}, "via": "pytree"}, {"t": "none"}, {"t": "str", "v": "s"}):
        yield {"init": [["a", {"t": "int", "v": 1}]], "ids": [], "data_name": None, "steps": [
            {"op": "write", "file": 0, "mode": "w", "sel": None, "overwrite": False}, {"op": "open", "file": 0, "mode": "r"},
            {"op": "set", "on": "handle", "name": "c", "value": v, "how": "new"}, {"op": "close"}]}
    # every array dtype x shape, every sparse class, once, through write + re-open (finite sub-domain)
    for dt in DTYPES:
        vals = [["a", {"t": "list", "items": [{"t": "arr", "dtype": dt, "shape": sh, "seed": 3} for sh in SHAPES[:4]]}],
                ["b", {"t": "dict", "items": [[f"k{i}", {"t": "arr", "dtype": dt, "shape": sh, "seed": 5}] for i, sh in enumerate(SHAPES[4:])]}],
                ["c", {"t": "npscalar", "dtype": dt, "seed": 7}]]
        yield {"init": vals, "ids": [], "data_name": None, "steps": [{"op": "write", "file": 0, "mode": "w", "sel": None, "overwrite": False},
                                                                      {"op": "open", "file": 0, "mode": "r"}]}
    for i in range(0, len(SPARSE), 2):
        vals = [[NAMES[j], {"t": "tuple", "items": [{"t": "sparse", "fmt": SPARSE[i + j], "dtype": d, "shape": [3, 4], "entries": [[0, 1, 2], [2, 3, -1]]}
                                                      for d in ("float64", "complex128", "int64")]}] for j in range(2)]
        yield {"init": vals, "ids": [], "data_name": None, "steps": [{"op": "write", "file": 1, "mode": "a", "sel": None, "overwrite": True},
                                                                      {"op": "open", "file": 1, "mode": "copy"}]}


# ------------------------------------------------------------------------------------------------ building values

def arr_values(dtype, shape, seed):
    n = int(np.prod(shape)) if shape else 1
    base = (np.arange(n) * 7 + seed) % 11 - 5
    dt = np.dtype(dtype)
    if dt.kind == "b":
        a = (base % 2 == 0)
    elif dt.kind == "u":
        a = np.abs(base).astype(dt) + dt.type(np.iinfo(dt).max - 20 if seed % 3 == 0 else 0)
    elif dt.kind == "i":
        a = base.astype(dt) + dt.type(np.iinfo(dt).min + 10 if seed % 4 == 0 else 0)
    elif dt.kind == "f":
        a = base / 4.0 + (0.1 if dt.itemsize >= 4 else 0)
    else:
        a = base / 4.0 + 1j * ((base * 3) % 5 - 2) / 8.0
    return np.asarray(a).astype(dt).reshape(shape)


def op_instance(name):
    """One instance of the operator class `name` (classes listed in DatasetOperator.supported_ops)."""
    import pennylane as qp

    cls = getattr(qp.ops, name, None) or getattr(qp, name)
    table = {
        "QubitUnitary": lambda: cls(specs.unitary_from_floats([0.3, -0.2, 0.7], 2), wires=["a", 1]),
        "DiagonalQubitUnitary": lambda: cls(np.array([1, -1, 1j, 1]), wires=[0, 1]),
        "ControlledQubitUnitary": lambda: cls(specs.unitary_from_floats([0.1, 0.5], 1), wires=[0, 1]),
        "Hermitian": lambda: cls(specs.hermitian_from_floats([0.2, 0.4], 1), wires=["q"]),
        "Projector": lambda: cls(np.array([0, 1]), wires=[0, 1]),
        "BasisState": lambda: cls(np.array([0, 1]), wires=[0, 1]),
        "StatePrep": lambda: cls(specs.vec_from_floats([0.3, 0.1, -0.4], 2), wires=[0, 1]),
        "QubitDensityMatrix": lambda: cls(np.eye(2) / 2, wires=[0]),
        "SpecialUnitary": lambda: cls(np.array([0.1, 0.2, 0.3]), wires=[0]),
        "MultiRZ": lambda: cls(0.3, wires=[0, "b", 2]),
        "LinearCombination": lambda: cls([1.0, -2.5], [qp.Z(0), qp.X(1) @ qp.Y("c")]),
        "Prod": lambda: qp.prod(qp.Z(0), qp.X(1)),
        "Sum": lambda: qp.sum(qp.Z(0), qp.s_prod(0.5, qp.X(1))),
        "SProd": lambda: qp.s_prod(-2.0, qp.Z(0)),
        "PauliError": lambda: cls("XY", 0.1, wires=[0, 1]),
        "ThermalRelaxationError": lambda: cls(0.1, 1.0, 1.5, 0.2, wires=0),
        "ResetError": lambda: cls(0.1, 0.2, wires=0),
        "GeneralizedAmplitudeDamping": lambda: cls(0.1, 0.2, wires=0),
        "QubitCarry": lambda: cls(wires=[0, 1, 2, 3]),
        "QubitSum": lambda: cls(wires=[0, 1, 2]),
        "Identity": lambda: cls(wires=[0, "b"]),
        "WireCut": lambda: cls(wires=[0]),
    }
    if name in table:
        return table[name]()
    nw = cls.num_wires if isinstance(getattr(cls, "num_wires", None), int) else 2
    npar = cls.num_params if isinstance(getattr(cls, "num_params", None), int) else 1
    return cls(*[0.1 * (i + 1) for i in range(npar)], wires=list(range(nw)))


def build(s):
    """Fresh Python value for a value spec."""
    import pennylane as qp

    t = s["t"]
    if t == "opcls":
        try:
            op = op_instance(s["name"])
        except Exception as e:  # noqa: BLE001
            raise Reject(f"harness cannot construct {s['name']}: {type(e).__name__}") from None
        return qp.data.DatasetOperator(op) if s["via"] == "operator" else op
    if t == "int":
        return int(s["v"])
    if t == "float":
        return float(s["v"])
    if t == "complex":
        return complex(s["v"][0], s["v"][1])
    if t == "bool":
        return bool(s["v"])
    if t == "npscalar":
        return arr_values(s["dtype"], [], s["seed"])[()]
    if t == "str":
        return s["v"]
    if t == "none":
        return None
    if t == "arr":
        return arr_values(s["dtype"], s["shape"], s["seed"])
    if t == "tensor":
        from pennylane import numpy as pnp

        return pnp.array(arr_values(s["dtype"], s["shape"], s["seed"]), requires_grad=s["rg"])
    if t == "list":
        return [build(x) for x in s["items"]]
    if t == "tuple":
        return tuple(build(x) for x in s["items"])
    if t == "dict":
        return {k: build(v) for k, v in s["items"]}
    if t == "op":
        op = specs.build_op(s["spec"])
        if s["via"] == "operator" and type(op) in qp.data.DatasetOperator.supported_ops() and _wires_jsonable(op):
            return qp.data.DatasetOperator(op)
        return op
    if t == "sparse":
        import scipy.sparse as sp

        dense = np.zeros(s["shape"], dtype=s["dtype"])
        for i, j, v in s["entries"]:
            dense[i, j] = v * (1 + 0.5j) if np.dtype(s["dtype"]).kind == "c" else v
        return getattr(sp, s["fmt"])(dense)
    if t == "molecule":
        return qp.qchem.Molecule(list(s["symbols"]), np.array(s["coords"], dtype=float).reshape(2, 3), basis_name=s["basis"])
    if t == "pytree":
        return specs.build_tape(s["c"]) if s["kind"] == "tape" else specs.build_meas(s["m"])
    if t == "json":
        return qp.data.DatasetJSON(s["v"])
    if t == "dataset":
        return qp.data.Dataset(**{k: build(v) for k, v in s["attrs"]})
    if t == "attr":
        inner = build(s["value"])
        if isinstance(inner, qp.data.DatasetAttribute):
            inner.info["doc"] = s["doc"]
            return inner
        return qp.data.attribute(inner, doc=s["doc"])
    raise ValueError(t)


def _wires_jsonable(op):
    return all(type(w) in (int, str) for w in op.wires)


def num_equal(a, b):
    a, b = np.asarray(a), np.asarray(b)
    return a.shape == b.shape and bool(np.array_equal(a, b, equal_nan=a.dtype.kind in "fc" and b.dtype.kind in "fc"))


def same(got, s, path="value"):
    """None if `got` equals the value described by spec `s` under the typed equality, else a description."""
    import pennylane as qp
    from pennylane import numpy as pnp

    t = s["t"]
    if t == "attr":
        return same(got, s["value"], path)
    if t in ("int", "float", "complex", "bool", "npscalar"):
        exp = build(s)
        if isinstance(got, (str, bytes, Sequence, Mapping)) or got is None or np.ndim(got) != 0:
            return f"{path}: scalar {exp!r} read back as {type(got).__name__} {got!r}"
        gk, ek = np.asarray(got).dtype.kind, np.asarray(exp).dtype.kind
        if gk != ek:
            return f"{path}: {exp!r} (kind {ek}) read back as {got!r} (kind {gk})"
        if t == "npscalar" and np.asarray(got).dtype != np.asarray(exp).dtype:
            return f"{path}: numpy scalar dtype {np.asarray(exp).dtype} read back as {np.asarray(got).dtype}"
        if not num_equal(got, exp):
            return f"{path}: {exp!r} read back as {got!r}"
        return None
    if t == "str":
        return None if isinstance(got, str) and got == s["v"] else f"{path}: str {s['v']!r} read back as {got!r}"
    if t == "none":
        return None if got is None else f"{path}: None read back as {got!r}"
    if t in ("arr", "tensor"):
        exp = build(s)
        if not isinstance(got, np.ndarray):
            return f"{path}: array read back as {type(got).__name__}"
        if isinstance(got, pnp.tensor) != (t == "tensor"):
            return f"{path}: array class changed: wrote {type(exp).__name__}, read {type(got).__name__}"
        if got.dtype != exp.dtype or got.shape != exp.shape:
            return f"{path}: wrote dtype {exp.dtype} shape {exp.shape}, read dtype {got.dtype} shape {got.shape}"
        if not num_equal(got, exp):
            return f"{path}: array values differ: wrote {exp!r}, read {got!r}"
        if t == "tensor" and bool(got.requires_grad) != bool(s["rg"]):
            return f"{path}: requires_grad {s['rg']} read back as {got.requires_grad}"
        return None
    if t in ("list", "tuple"):
        if t == "tuple" and not isinstance(got, tuple):
            return f"{path}: tuple read back as {type(got).__name__}"
        if t == "list" and (isinstance(got, (tuple, str)) or not isinstance(got, Sequence)):
            return f"{path}: list read back as {type(got).__name__}"
        if len(got) != len(s["items"]):
            return f"{path}: length {len(s['items'])} read back as {len(got)}"
        for i, x in enumerate(s["items"]):
            r = same(got[i], x, f"{path}[{i}]")
            if r:
                return r
        return None
    if t == "dict":
        if not isinstance(got, Mapping):
            return f"{path}: dict read back as {type(got).__name__}"
        want = [k for k, _ in s["items"]]
        if sorted(got.keys()) != sorted(want):
            return f"{path}: keys {sorted(want)} read back as {sorted(got.keys())}"
        for k, v in s["items"]:
            r = same(got[k], v, f"{path}[{k!r}]")
            if r:
                return r
        return None
    if t in ("op", "opcls"):
        exp = specs.build_op(s["spec"]) if t == "op" else op_instance(s["name"])
        if not isinstance(got, qp.operation.Operator):
            return f"{path}: operator read back as {type(got).__name__}"
        via_op = s["via"] == "operator" and (t == "opcls" or (type(exp) in qp.data.DatasetOperator.supported_ops() and _wires_jsonable(exp)))
        if via_op and isinstance(exp, (qp.ops.Prod, qp.ops.SProd, qp.ops.Sum, qp.ops.LinearCombination)):
            if set(got.wires) != set(exp.simplify().wires) and set(got.wires) != set(exp.wires):
                return f"{path}: wires {exp.wires} read back as {got.wires}"
            order = list(exp.wires)
            a, b = qp.matrix(got, wire_order=order), qp.matrix(exp, wire_order=order)
            return None if np.allclose(a, b, rtol=0, atol=1e-12) else f"{path}: operator {exp} read back as {got} (matrices differ)"
        try:
            ok = qp.equal(got, exp, rtol=0, atol=0)
        except Exception as e:  # noqa: BLE001
            return f"{path}: qp.equal({got}, {exp}) raised {type(e).__name__}"
        return None if ok else f"{path}: operator {exp!r} read back as {got!r}"
    if t == "sparse":
        exp = build(s)
        if type(got) is not type(exp):
            return f"{path}: {type(exp).__name__} read back as {type(got).__name__}"
        if got.shape != exp.shape or got.dtype != exp.dtype:
            return f"{path}: sparse shape/dtype {exp.shape}/{exp.dtype} read back as {got.shape}/{got.dtype}"
        if not np.array_equal(got.toarray(), exp.toarray()):
            return f"{path}: sparse values differ"
        return None
    if t == "molecule":
        exp = build(s)
        if not isinstance(got, qp.qchem.Molecule):
            return f"{path}: Molecule read back as {type(got).__name__}"
        for fld in ("symbols", "charge", "mult", "basis_name"):
            if getattr(got, fld) != getattr(exp, fld):
                return f"{path}: Molecule.{fld} {getattr(exp, fld)!r} read back as {getattr(got, fld)!r}"
        for fld in ("coordinates", "l", "alpha", "coeff"):
            a, b = getattr(got, fld), getattr(exp, fld)
            if len(a) != len(b) or not all(num_equal(x, y) for x, y in zip(a, b)):
                return f"{path}: Molecule.{fld} differs"
        return None
    if t == "pytree":
        exp = build(s)
        if type(got) is not type(exp):
            return f"{path}: {type(exp).__name__} read back as {type(got).__name__}"
        if s["kind"] == "tape" and got.shots != exp.shots:
            return f"{path}: tape shots {exp.shots} read back as {got.shots}"
        try:
            ok = qp.equal(got, exp, rtol=0, atol=0)
        except Exception as e:  # noqa: BLE001
            return f"{path}: qp.equal raised {type(e).__name__}: {e}"
        return None if ok else f"{path}: {exp!r} read back as {got!r}"
    if t == "json":
        return None if got == s["v"] and type(got) is type(s["v"]) else f"{path}: JSON {s['v']!r} read back as {got!r}"
    if t == "dataset":
        if not isinstance(got, qp.data.Dataset):
            return f"{path}: Dataset read back as {type(got).__name__}"
        want = [k for k, _ in s["attrs"]]
        if sorted(got.list_attributes()) != sorted(want):
            return f"{path}: nested dataset attributes {sorted(want)} read back as {sorted(got.list_attributes())}"
        for k, v in s["attrs"]:
            r = same(getattr(got, k), v, f"{path}.{k}")
            if r:
                return r
        return None
    raise ValueError(t)


def rich_value(s, depth=0):
    """True if the spec is a container that holds an operator / array / sparse value."""
    t = s["t"]
    if t == "attr":
        return rich_value(s["value"], depth)
    if t in ("list", "tuple"):
        return any(rich_value(x, depth + 1) for x in s["items"])
    if t == "dict":
        return any(rich_value(v, depth + 1) for _, v in s["items"])
    if t == "dataset":
        return any(rich_value(v, depth + 1) for _, v in s["attrs"])
    return depth > 0 and t in ("op", "opcls", "arr", "tensor", "sparse", "molecule", "pytree")


# ------------------------------------------------------------------------------------------------ model

class DS:
    """Model of one dataset: ordered attribute specs + dataset-level info."""

    def __init__(self, attrs=None, ids=(), data_name="generic"):
        self.attrs = dict(attrs or {})
        self.ids = tuple(ids)
        self.data_name = data_name

    def clone(self):
        return DS(self.attrs, self.ids, self.data_name)

    def merge_from(self, src, names, overwrite):
        """hdf5.copy_all semantics of Dataset.write / read."""
        for k in (names if names is not None else list(src.attrs)):
            if k in self.attrs and not overwrite:
                continue
            self.attrs[k] = src.attrs[k]
        for k in src.ids:
            if k in src.attrs and k not in self.attrs:
                self.attrs[k] = src.attrs[k]
        self.ids, self.data_name = src.ids, src.data_name


def verify(ds, model, who, feats):
    names = sorted(ds.list_attributes())
    if names != sorted(model.attrs):
        raise Viol("attribute-names", f"{who}: attributes {names}, model {sorted(model.attrs)}", sig="names", features=feats)
    for k, s in model.attrs.items():
        try:
            got = getattr(ds, k)
        except Exception as e:  # noqa: BLE001
            raise Viol("read-error", f"{who}: reading {k!r} ({_short(s)}) raised {type(e).__name__}: {e}", sig="read/" + _kind(s).split("[")[0],
                       features={**feats, "type": _kind(s)}) from None
        r = same(got, s, k)
        if r:
            raise Viol("roundtrip", f"{who}: {r}", sig="roundtrip/" + _kind(s).split("[")[0], features={**feats, "type": _kind(s)})
        if s["t"] == "attr" and ds.attr_info[k]["doc"] != s["doc"]:
            raise Viol("attr-doc", f"{who}: doc of {k!r} is {ds.attr_info[k]['doc']!r}, wrote {s['doc']!r}", sig="doc", features=feats)
    if ds.data_name != model.data_name:
        raise Viol("data-name", f"{who}: data_name {ds.data_name!r}, model {model.data_name!r}", sig="data_name", features=feats)
    want_ids = sorted(k for k in model.ids if k in model.attrs)
    if sorted(ds.identifiers) != want_ids:
        raise Viol("identifiers", f"{who}: identifiers {sorted(ds.identifiers)}, model {want_ids}", sig="identifiers", features=feats)


def _kind(s):
    t = s["t"]
    if t == "attr":
        return "attr:" + _kind(s["value"])
    if t == "opcls":
        return f"op:{s['via']}:{s['name']}"
    if t == "op":
        name = s["spec"]["op"]
        try:
            name = type(specs.build_op(s["spec"])).__name__
        except Exception:  # noqa: BLE001
            pass
        return f"op:{s['via']}:{name}"
    if t in ("arr", "npscalar"):
        return f"{t}:{s['dtype']}"
    if t == "sparse":
        return "sparse:" + s["fmt"]
    if t in ("list", "tuple", "dict", "dataset"):
        inner = s.get("items") or s.get("attrs") or []
        kinds = sorted({_kind(x if t in ("list", "tuple") else x[1]).split(":")[0] for x in inner})
        return f"{t}[{','.join(kinds)}]"
    return t


def _short(s):
    return repr(s)[:160]


# ------------------------------------------------------------------------------------------------ check

def check(spec):
    import pennylane as qp
    from pennylane.data import Dataset, DatasetNotWriteableError

    tmp = os.path.join(SCRATCH, f"c64_{os.getpid()}_{spec_hash(spec)}")
    shutil.rmtree(tmp, ignore_errors=True)
    os.makedirs(tmp)
    paths = [os.path.join(tmp, f"f{i}.h5") for i in range(3)]
    files = [None, None, None]          # DS models of the files on disk
    handle = None                        # dict(ds, model, file, mode) of the one open file-backed dataset
    feats = {}
    labels = []
    reopened_rich = False
    try:
        kw = {}
        if spec["ids"]:
            kw["identifiers"] = tuple(spec["ids"])
        if spec["data_name"]:
            kw["data_name"] = spec["data_name"]
        try:
            mem = Dataset(**kw, **{k: build(v) for k, v in spec["init"]})
        except Exception as e:  # noqa: BLE001
            k = next((k for k, v in spec["init"] if _fails(v)), None)
            raise Viol("store-error", f"Dataset(**init) raised {type(e).__name__}: {e} (init {[_kind(v) for _, v in spec['init']]})",
                       sig="store/" + ("?" if k is None else _kind(dict((a, b) for a, b in spec["init"])[k]).split("[")[0]), features=feats) from None
        mm = DS({k: v for k, v in spec["init"]}, spec["ids"], spec["data_name"] or "generic")
        verify(mem, mm, "in-memory dataset after creation", feats)

        def target(on):
            if on == "handle":
                return (handle["ds"], handle["model"], handle["mode"]) if handle else None
            return mem, mm, "mem"

        for si, s in enumerate(spec["steps"]):
            op = s["op"]
            what = f"step {si} {op}"
            if op in ("set", "del", "append", "copyattr"):
                tg = target(s["on"])
                if tg is None:
                    continue
                ds, model, mode = tg
                readonly = mode == "r"
                if op == "set":
                    name, how = s["name"], s["how"]
                    exists = name in model.attrs
                    if how == "replace" and exists and not readonly:
                        delattr(ds, name)
                        del model.attrs[name]
                        exists = False
                    if how == "new" and exists:
                        continue
                    desc = f"{what} {name} = {_kind(s['value'])} ({'re-assign' if exists else 'new'}) on {mode}"
                    try:
                        setattr(ds, name, build(s["value"]))
                    except DatasetNotWriteableError:
                        if not readonly:
                            raise Viol("unexpected-error", f"{desc}: DatasetNotWriteableError on a writable dataset", sig="set", features=feats) from None
                        labels.append("set:readonly-refused")
                    except Exception as e:  # noqa: BLE001
                        if readonly:
                            # documented: DatasetNotWriteableError is "raised when attempting to set an attribute on a dataset
                            # whose underlying file is not writeable"
                            raise Viol("readonly-error", f"{desc}: raised {type(e).__name__}: {str(e)[:120]} instead of "
                                       f"DatasetNotWriteableError", sig="readonly/" + type(e).__name__,
                                       features={**feats, "type": _kind(s["value"]), "exc": type(e).__name__}) from None
                        else:
                            raise Viol("store-error", f"{desc}: {type(e).__name__}: {e}", sig="reassign" if exists else "store/" + _kind(s["value"]).split("[")[0],
                                       features={**feats, "type": _kind(s["value"]), "reassign": exists}) from None
                    else:
                        if readonly:
                            raise Viol("readonly-write", f"{desc}: assignment on a read-only dataset did not raise", sig="readonly", features=feats)
                        model.attrs[name] = s["value"]
                        labels.append("set:reassign" if exists else "set")
                elif op == "del":
                    if not model.attrs or readonly:
                        continue
                    name = sorted(model.attrs)[s["pick"] % len(model.attrs)]
                    delattr(ds, name)
                    del model.attrs[name]
                    labels.append("del")
                elif op == "append":
                    cands = [k for k in sorted(model.attrs) if model.attrs[k]["t"] in ("list", "dict")]
                    if not cands or readonly:
                        continue
                    name = cands[s["pick"] % len(cands)]
                    cur = model.attrs[name]
                    cont = getattr(ds, name)
                    if cur["t"] == "list":
                        cont.append(build(s["value"]))
                        model.attrs[name] = {"t": "list", "items": cur["items"] + [s["value"]]}
                    else:
                        cont[s["key"]] = build(s["value"])
                        model.attrs[name] = {"t": "dict", "items": [kv for kv in cur["items"] if kv[0] != s["key"]] + [[s["key"], s["value"]]]}
                    labels.append("append:" + cur["t"])
                else:
                    if not model.attrs:
                        continue
                    name = sorted(model.attrs)[s["pick"] % len(model.attrs)]
                    attr = ds.attrs[name]
                    dup = copy.deepcopy(attr) if s["deep"] else copy.copy(attr)
                    r = same(dup.get_value(), model.attrs[name], f"copy of {name}")
                    if r:
                        raise Viol("copy", f"{what}: {r}", sig="copy/" + _kind(model.attrs[name]), features=feats)
                    labels.append("copyattr")
            elif op == "write":
                i = s["file"]
                if handle and handle["file"] == i and handle["mode"] != "copy":
                    continue   # one handle per file
                names = None
                if s["sel"] is not None and mm.attrs:
                    pool = sorted(mm.attrs)
                    names = sorted({pool[j % len(pool)] for j in s["sel"]})
                exists = files[i] is not None
                try:
                    mem.write(paths[i], mode=s["mode"], attributes=names, overwrite=s["overwrite"])
                except FileExistsError:
                    if not (exists and s["mode"] == "w-"):
                        raise Viol("unexpected-error", f"{what}: FileExistsError with mode {s['mode']} (file exists: {exists})", sig="write", features=feats) from None
                    labels.append("write:w-refused")
                else:
                    if exists and s["mode"] == "w-":
                        raise Viol("missing-error", f"{what}: mode 'w-' overwrote an existing file", sig="write", features=feats)
                    if files[i] is None or s["mode"] == "w":
                        files[i] = DS()
                    files[i].merge_from(mm, names, s["overwrite"])
                    labels.append(f"write:{s['mode']}" + (":subset" if names else "") + (":overwrite" if s["overwrite"] else ""))
            elif op == "open":
                i, mode = s["file"], s["mode"]
                if handle:
                    continue
                exists = files[i] is not None
                try:
                    ds = Dataset.open(paths[i], mode)
                except FileNotFoundError:
                    if exists or mode not in ("r", "copy"):
                        raise Viol("unexpected-error", f"{what}: FileNotFoundError mode {mode} exists={exists}", sig="open", features=feats) from None
                    continue
                except FileExistsError:
                    if not (exists and mode == "w-"):
                        raise Viol("unexpected-error", f"{what}: FileExistsError mode {mode} exists={exists}", sig="open", features=feats) from None
                    continue
                if not exists and mode in ("r", "copy"):
                    raise Viol("missing-error", f"{what}: opened a file that does not exist", sig="open", features=feats)
                if mode in ("w", "w-") or not exists:
                    files[i] = DS()
                model = files[i].clone() if mode == "copy" else files[i]
                handle = {"ds": ds, "model": model, "file": i, "mode": mode}
                if any(rich_value(v) for v in model.attrs.values()):
                    reopened_rich = True
                labels.append("open:" + mode)
            elif op == "close":
                if not handle:
                    continue
                handle["ds"].close()
                handle = None
                labels.append("close")
            elif op == "read":
                i = s["file"]
                if files[i] is None or (handle and handle["file"] == i and handle["mode"] != "copy"):
                    continue
                names = None
                if s["sel"] is not None and files[i].attrs:
                    pool = sorted(files[i].attrs)
                    names = sorted({pool[j % len(pool)] for j in s["sel"]})
                mem.read(paths[i], attributes=names, overwrite=s["overwrite"])
                mm.merge_from(files[i], names, s["overwrite"])
                if any(rich_value(files[i].attrs[k]) for k in (names or files[i].attrs)):
                    reopened_rich = True
                labels.append("read" + (":subset" if names else "") + (":overwrite" if s["overwrite"] else ""))
            # after every step: every live dataset equals its model
            try:
                verify(mem, mm, f"in-memory dataset after {what}", feats)
            except Viol as v:
                if op == "read" and s["overwrite"] and v.clause in ("roundtrip", "attribute-names"):
                    # one bucket for "read(..., overwrite=True) did not bring the file's value into the dataset"
                    raise Viol("read-overwrite", v.detail, sig="read-overwrite", features=v.features) from None
                raise
            if handle:
                verify(handle["ds"], handle["model"], f"handle on file {handle['file']} (mode {handle['mode']}) after {what}", feats)
        # finally every file, re-opened read-only
        if handle:
            handle["ds"].close()
            handle = None
        for i, fm in enumerate(files):
            if fm is None:
                if os.path.exists(paths[i]):
                    raise Viol("stray-file", f"file {i} exists on disk but was never written according to the model", sig="stray", features=feats)
                continue
            ds = Dataset.open(paths[i], "r")
            try:
                verify(ds, fm, f"file {i} re-opened read-only at the end", feats)
            finally:
                ds.close()
            if any(rich_value(v) for v in fm.attrs.values()):
                reopened_rich = True
        for v in list(mm.attrs.values()) + [v for fm in files if fm for v in fm.attrs.values()]:
            labels.append("type:" + _kind(v).split("[")[0].split(":")[0])
    finally:
        try:
            if handle:
                handle["ds"].close()
        except Exception:  # noqa: BLE001
            pass
        shutil.rmtree(tmp, ignore_errors=True)
    return Result(reopened_rich, sorted(set(labels)))


def _fails(v):
    try:
        import pennylane as qp

        qp.data.Dataset(x=build(v))
        return False
    except Exception:  # noqa: BLE001
        return True


def selftest():
    for dt in DTYPES:
        for sh in SHAPES:
            a = arr_values(dt, sh, 3)
            assert a.dtype == np.dtype(dt) and list(a.shape) == sh
    m = DS({"a": 1, "b": 2}, ("b",), "x")
    d = DS({"a": 9})
    d.merge_from(m, ["a"], False)
    assert d.attrs == {"a": 9, "b": 2} and d.ids == ("b",)
    d.merge_from(m, None, True)
    assert d.attrs == {"a": 1, "b": 2}
    assert num_equal(float("nan"), np.float64("nan")) and not num_equal(1, 2) and math.isinf(float("inf"))
