"""C29 — finite-shot sampling follows the Born rule (default.qubit / default.mixed, numpy and JAX generators)."""
import hashlib
import json

import numpy as np
from hypothesis import strategies as st

from pv import gen, specs
from pv.cmp import to_np
from pv.engine import Reject, Result, Viol
from pv.props.c28_channels_mixed import ONE_PARAM, _standard_order, build_op, channel
from pv.ref import kraus as kr
from pv.ref import sim
from pv.ref import stattest as stt

ID = "C29"
TECHNIQUE = ("hypothesis circuits x measurement lists x shot specifications executed with finite shots; deterministic structure "
             "checks + two-stage exact statistical test of the empirical outcome distribution against reference probabilities")
RULE = (
    "Circuits 1-4 wires (int/str/mixed labels): generic RY layer + up to 6 gates of the full table (default.mixed: plus 0-2 "
    "channels); 1-3 measurements out of sample(wires | all wires | obs), counts(wires | obs, all_outcomes both), probs(wires | "
    "Pauli word), expval / var of Pauli words, Hermitian (non +-1 eigenvalues), Projector, scaled words, Sum and LinearCombination; wire subsets in "
    "random (non-ascending) order; shots: ints 1..20000 and shot vectors with repeated entries / (shots, copies) pairs; device "
    "wires none/same/permuted/idle extras; seed = integer (numpy Generator) or jax.random.PRNGKey; via qp.execute or "
    "qp.set_shots(QNode). Deterministic oracle: result nesting = bins x measurements of the expanded shot list, sample shapes "
    "(shots, wires) / (shots,), bit values in {0,1}, eigenvalue samples in the reference spectrum, counts keys well formed and "
    "totals = bin shots, all_outcomes lists all 2^n keys (or the whole spectrum), no zero entries otherwise, probs are multiples of "
    "1/shots summing to 1. Statistical oracle (pv.ref.stattest): histogram of outcomes pooled over bins (joint over all measured "
    "wires) vs exact probabilities from pv.ref.sim / pv.ref.kraus: Bonferroni exact binomial tails + chi-square; expval / var: "
    "Hoeffding bounds from the reference spectrum; violation only if p < 1e-9 and again p < 1e-9 on an independent re-execution "
    "with 4x the shots (seeds are fixed by the spec). Non-trivial: >= 5000 shots and a measured distribution with >= 3 outcomes "
    "of probability in (0.02, 0.98) that changes under reversal of the bit order."
)
ASSUMPTIONS = [
    "Measurements of one execution may share samples (documented grouping of commuting observables); only the marginal "
    "distribution of each measurement is tested.",
    "expval of Sum / LinearCombination: terms may be sampled in separate groups; the Hoeffding bound uses sum |c_k| * range_k / 2, "
    "which is valid for any grouping.",
    "Device without wires: outcome order of wire-less measurements follows the wires of the device-preprocessed tape.",
]
BUDGET = {"quick": {"examples": 120}, "thorough": {"examples": 3000, "shards": 8}}
SHRINK_LISTS = ("ops", "meas")
ALPHA = stt.ALPHA


# ----------------------------------------------------------------------------------------------
# generator
# ----------------------------------------------------------------------------------------------

def _sample_obs(wires):
    """Observables with a well defined spectrum for sample / counts."""
    n = len(wires)
    herm = st.integers(1, min(2, n)).flatmap(lambda k: st.tuples(gen.float_list(5), gen.subset(wires, k)).map(
        lambda t: {"op": "Hermitian", "p": [{"H": t[0], "n": len(t[1])}], "w": t[1]}))
    proj = st.tuples(st.lists(st.integers(0, 1), min_size=1, max_size=min(2, n)), st.permutations(wires)).map(
        lambda t: {"op": "Projector", "p": [t[0]], "w": list(t[1])[:len(t[0])]})
    scaled = st.tuples(st.sampled_from([2.0, -0.5, 1.5]), gen.pauli_word_obs(wires)).map(lambda t: {"op": "s_prod", "c": t[0], "base": t[1]})
    return st.one_of(gen.pauli_word_obs(wires), gen.pauli_word_obs(wires), herm, proj, scaled)


@st.composite
def _meas(draw, wires):
    n = len(wires)
    sub = st.sampled_from([1] + [k for k in range(2, n + 1)] * 2).flatmap(lambda k: gen.subset(wires, k))
    kind = draw(st.sampled_from(["sample_w", "sample_w", "sample_all", "sample_obs", "counts_w", "counts_w", "counts_all", "counts_obs",
                                 "probs_w", "probs_obs", "expval", "expval", "var", "var"]))
    if kind == "sample_w":
        return {"mp": "sample", "w": draw(sub)}
    if kind == "sample_all":
        return {"mp": "sample", "w": None}
    if kind == "sample_obs":
        return {"mp": "sample", "obs": draw(_sample_obs(wires))}
    if kind == "counts_w":
        return {"mp": "counts", "w": draw(sub), "all_outcomes": draw(st.booleans())}
    if kind == "counts_all":
        return {"mp": "counts", "w": None, "all_outcomes": draw(st.booleans())}
    if kind == "counts_obs":
        return {"mp": "counts", "obs": draw(_sample_obs(wires)), "all_outcomes": draw(st.booleans())}
    if kind == "probs_w":
        return {"mp": "probs", "w": draw(sub)}
    if kind == "probs_obs":
        return {"mp": "probs", "obs": draw(gen.pauli_word_obs(wires))}
    if kind == "expval":
        lin = st.lists(st.tuples(gen.floats01, gen.pauli_word_obs(wires)), min_size=1, max_size=4).map(
            lambda ts: {"op": "lincomb", "coeffs": [c for c, _ in ts], "operands": [o for _, o in ts]})
        return {"mp": "expval", "obs": draw(st.one_of(gen.observable(wires), _sample_obs(wires), lin))}
    return {"mp": "var", "obs": draw(st.one_of(gen.observable(wires), _sample_obs(wires)))}


small = st.sampled_from([1, 2, 3, 10, 100, 1000])
big = st.sampled_from([5000, 10000, 20000])
shots_strategy = st.one_of(
    big, big, big, big, small,
    st.lists(st.one_of(big, small, st.tuples(st.one_of(big, small), st.integers(1, 3)).map(list)), min_size=1, max_size=4),
    st.tuples(big, st.integers(2, 4)).map(lambda t: [[t[0], t[1]]]),
    big.map(lambda s: [s, s, 10, s]),
)


@st.composite
def _case(draw):
    dev = draw(st.sampled_from(["default.qubit", "default.qubit", "default.qubit", "default.mixed", "default.mixed"]))
    n = draw(st.sampled_from([1, 2, 2, 3, 3, 3, 4, 4]))
    wires = draw(gen.wire_labels(n))
    ops = []
    if draw(st.integers(0, 5)) > 0:
        ops = [{"op": "RY", "p": [draw(gen.generic_angles())], "w": [w]} for w in wires]
    ops += draw(gen.op_list(wires, None, 6, min_depth=0 if ops else 1, extras=True, p_derive=0.1))
    if dev == "default.mixed":
        for _ in range(draw(st.integers(0, 2))):
            ops.insert(draw(st.integers(0, len(ops))), draw(channel(wires)))
    meas = draw(st.lists(_meas(wires), min_size=1, max_size=3))
    devw = draw(st.sampled_from(["none", "same", "perm", "extra"]))
    dev_wires = None
    if devw == "same":
        dev_wires = list(wires)
    elif devw == "perm":
        dev_wires = list(draw(st.permutations(wires)))
    elif devw == "extra":
        dev_wires = list(draw(st.permutations(wires + ["idle1"])))
    return {"dev": dev, "ops": ops, "meas": meas, "wires": wires, "dev_wires": dev_wires, "shots": draw(shots_strategy),
            "rng": draw(st.sampled_from(["numpy", "numpy", "numpy", "jax"])), "seed": draw(st.integers(0, 2**31 - 1)),
            "via": draw(st.sampled_from(["execute", "execute", "qnode"]))}


def strategy(tier):
    return _case()


def enumerate_cases(tier):
    # the classic bit-order / marginal traps: product state with three different single-qubit biases
    ops = [{"op": "RY", "p": [0.6], "w": [0]}, {"op": "RY", "p": [1.3], "w": [1]}, {"op": "RY", "p": [2.2], "w": [2]}, {"op": "CNOT", "p": [], "w": [0, 2]}]
    for dev in ("default.qubit", "default.mixed"):
        for rng in ("numpy", "jax"):
            for meas in ([{"mp": "sample", "w": [2, 0]}, {"mp": "counts", "w": [1, 2, 0], "all_outcomes": True}],
                         [{"mp": "probs", "w": [2, 1]}, {"mp": "expval", "obs": {"op": "PauliZ", "w": [2]}}, {"mp": "sample", "w": None}],
                         [{"mp": "counts", "obs": {"op": "Hermitian", "p": [{"H": [0.3, -0.7, 0.2, 0.9, 0.1], "n": 2}], "w": [2, 0]}, "all_outcomes": False},
                          {"mp": "var", "obs": {"op": "PauliZ", "w": [1]}}],
                         [{"mp": "var", "obs": {"op": "Hermitian", "p": [{"H": [0.9, 0.1, -0.4, 0.3, 0.6], "n": 2}], "w": [0, 1]}},
                          {"mp": "expval", "obs": {"op": "Hermitian", "p": [{"H": [0.9, 0.1, -0.4, 0.3, 0.6], "n": 2}], "w": [1, 2]}},
                          {"mp": "sample", "obs": {"op": "prod", "operands": [{"op": "PauliZ", "w": [0]}, {"op": "PauliX", "w": [1]}]}}],
                         [{"mp": "expval", "obs": {"op": "sum", "operands": [{"op": "s_prod", "c": 0.5, "base": {"op": "PauliZ", "w": [0]}},
                                                                              {"op": "s_prod", "c": 0.3, "base": {"op": "prod", "operands": [{"op": "PauliZ", "w": [1]}, {"op": "PauliZ", "w": [2]}]}},
                                                                              {"op": "s_prod", "c": -0.7, "base": {"op": "PauliX", "w": [0]}}]}},
                          {"mp": "var", "obs": {"op": "s_prod", "c": 2.0, "base": {"op": "PauliZ", "w": [1]}}},
                          {"mp": "counts", "obs": {"op": "Projector", "p": [[1, 0]], "w": [2, 1]}, "all_outcomes": True}],
                         [{"mp": "expval", "obs": {"op": "lincomb", "coeffs": [0.8, -0.6, 0.4], "operands": [
                             {"op": "PauliZ", "w": [1]}, {"op": "prod", "operands": [{"op": "PauliZ", "w": [0]}, {"op": "PauliZ", "w": [2]}]}, {"op": "PauliX", "w": [1]}]}},
                          {"mp": "probs", "obs": {"op": "prod", "operands": [{"op": "PauliZ", "w": [1]}, {"op": "PauliX", "w": [2]}]}},
                          {"mp": "sample", "obs": {"op": "s_prod", "c": -0.5, "base": {"op": "PauliZ", "w": [2]}}}]):
                for shots in (20000, [10000, [5000, 2]]):
                    yield {"dev": dev, "ops": ops, "meas": meas, "wires": [0, 1, 2], "dev_wires": [2, 0, 1] if rng == "jax" else None,
                           "shots": shots, "rng": rng, "seed": 1234, "via": "execute"}


# ----------------------------------------------------------------------------------------------
# reference distributions
# ----------------------------------------------------------------------------------------------

def expand_shots(s):
    if isinstance(s, int):
        return [s]
    out = []
    for x in s:
        if isinstance(x, list):
            out += [x[0]] * x[1]
        else:
            out.append(x)
    return out


def _raw_shots(s):
    return s if isinstance(s, int) else [tuple(x) if isinstance(x, list) else x for x in s]


def spectrum(obs, rho, order):
    """(distinct eigenvalues ascending, their Born probabilities) of `obs` in state rho."""
    ow = list(obs.wires)
    O = sim.op_matrix(obs)
    O = (O + O.conj().T) / 2
    r = kr.reduced(rho, order, ow)
    ev, V = np.linalg.eigh(O)
    p = np.real(np.einsum("ik,ij,jk->k", V.conj(), r, V))
    scale = max(1.0, float(np.abs(ev).max()))
    vals, probs = [], []
    for e, q in zip(ev, p):
        if vals and abs(e - vals[-1]) <= 1e-7 * scale:
            probs[-1] += q
        else:
            vals.append(float(e))
            probs.append(float(q))
    return np.array(vals), np.clip(np.array(probs), 0.0, 1.0)


def half_range(obs):
    """sum |c_k| * (lambda_max - lambda_min)/2 over the additive structure of obs (valid for term-wise sampling)."""
    name = type(obs).__name__
    if name == "Sum":
        return sum(half_range(o) for o in obs.operands)
    if name == "SProd":
        return abs(complex(np.asarray(obs.scalar))) * half_range(obs.base)
    if name in ("LinearCombination", "Hamiltonian"):
        return sum(abs(complex(np.asarray(c))) * half_range(o) for c, o in zip(*obs.terms()))
    ev = np.linalg.eigvalsh(sim.op_matrix(obs))
    return float(ev.max() - ev.min()) / 2


class Ctx:
    def __init__(self, spec):
        import pennylane as qp

        self.spec = spec
        self.qp = qp
        self.ops = [build_op(o) for o in spec["ops"]]
        self.mps = [specs.build_meas(m) for m in spec["meas"]]
        self.dev_wires = [specs.wire(w) for w in spec["dev_wires"]] if spec.get("dev_wires") else None

    def device(self, seed):
        qp = self.qp
        if self.spec["rng"] == "jax":
            import jax
            seed = jax.random.PRNGKey(seed)
        kw = {"wires": self.dev_wires} if self.dev_wires else {}
        return qp.device(self.spec["dev"], seed=seed, **kw)

    def run(self, shots, seed):
        qp = self.qp
        dev = self.device(seed)
        tape = qp.tape.QuantumScript(self.ops, self.mps, shots=shots)
        if self.spec["via"] == "qnode":
            ops, mps = self.ops, self.mps

            def circuit():
                for op in ops:
                    qp.apply(op)
                return tuple(qp.apply(m) for m in mps) if len(mps) > 1 else qp.apply(mps[0])

            return qp.set_shots(qp.QNode(circuit, dev), shots)()
        return qp.execute([tape], dev)[0]


def _seed2(spec):
    h = hashlib.sha1(json.dumps(spec, sort_keys=True, default=str).encode()).hexdigest()
    return int(h[:8], 16) & 0x7FFFFFFF


# ----------------------------------------------------------------------------------------------
# per-measurement evaluation: deterministic checks + sufficient statistic for the statistical test
# ----------------------------------------------------------------------------------------------

def _bits_hist(arr, k):
    arr = np.asarray(arr)
    idx = arr.astype(np.int64) @ (1 << np.arange(k - 1, -1, -1, dtype=np.int64)) if k else np.zeros(len(arr), dtype=np.int64)
    return np.bincount(idx, minlength=2**k)


def _eig_hist(vals, ref_vals, what, feats):
    vals = np.asarray(vals, dtype=float).reshape(-1)
    scale = max(1.0, float(np.abs(ref_vals).max()))
    d = np.abs(vals[:, None] - ref_vals[None, :])
    j = d.argmin(axis=1)
    if len(vals) and d[np.arange(len(vals)), j].max() > 1e-6 * scale:
        bad = vals[d[np.arange(len(vals)), j].argmax()]
        raise Viol("invalid-outcome", f"{what}: sampled value {bad!r} is not an eigenvalue {ref_vals.tolist()}", sig="eigval:" + feats["dev"], features=feats)
    return np.bincount(j, minlength=len(ref_vals))


def evaluate(m, mp, res, nshots, model, feats):
    """Deterministic checks of one measurement result for a bin of `nshots`; returns a statistic:
    ("hist", counts) | ("mean", value) | ("var", value)."""
    kind = m["mp"]
    what = f"{m} shots={nshots}"
    dev = feats["dev"]
    if kind == "sample":
        a = np.asarray(res)
        if m.get("obs"):
            if a.shape != (nshots,):
                raise Viol("sample-shape", f"{what}: shape {a.shape} expected {(nshots,)}", sig="sample_obs:" + dev, features=feats)
            return "hist", _eig_hist(a, model["vals"], what, feats)
        k = model["k"]
        if a.shape != (nshots, k):
            raise Viol("sample-shape", f"{what}: shape {a.shape} expected {(nshots, k)}", sig="sample_w:" + dev, features=feats)
        if a.dtype.kind not in "iub" or not np.isin(a, [0, 1]).all():
            raise Viol("invalid-outcome", f"{what}: entries not in {{0,1}} or dtype {a.dtype}", sig="bits:" + dev, features=feats)
        return "hist", _bits_hist(a, k)
    if kind == "counts":
        if not isinstance(res, dict):
            raise Viol("counts-type", f"{what}: result is {type(res).__name__}", sig="counts:" + dev, features=feats)
        tot = int(sum(int(v) for v in res.values()))
        if tot != nshots:
            raise Viol("counts-total", f"{what}: counts total {tot} != shots {nshots}: {res}", sig="counts-total:" + dev, features=feats)
        if any(int(v) < 0 for v in res.values()) or (not m.get("all_outcomes") and any(int(v) == 0 for v in res.values())):
            raise Viol("counts-keys", f"{what}: zero/negative entries {res}", sig="counts-zero:" + dev, features=feats)
        if m.get("obs"):
            keys = np.array([float(np.real(k)) for k in res.keys()])
            h = np.zeros(len(model["vals"]), dtype=np.int64)
            scale = max(1.0, float(np.abs(model["vals"]).max()))
            for kf, v in zip(keys, res.values()):
                j = int(np.abs(model["vals"] - kf).argmin())
                if abs(model["vals"][j] - kf) > 1e-6 * scale:
                    raise Viol("invalid-outcome", f"{what}: key {kf!r} is not an eigenvalue {model['vals'].tolist()}", sig="eigval:" + dev, features=feats)
                h[j] += int(v)
            if m.get("all_outcomes") and len(set(int(np.abs(model["vals"] - kf).argmin()) for kf in keys)) != len(model["vals"]):
                raise Viol("counts-keys", f"{what}: all_outcomes keys {sorted(keys.tolist())} != spectrum {model['vals'].tolist()}", sig="all_outcomes:" + dev, features=feats)
            return "hist", h
        k = model["k"]
        h = np.zeros(2**k, dtype=np.int64)
        for key, v in res.items():
            key = str(key)
            if len(key) != k or set(key) - {"0", "1"}:
                raise Viol("invalid-outcome", f"{what}: key {key!r} is not a {k}-bit string", sig="bitstring:" + dev, features=feats)
            h[int(key, 2) if k else 0] += int(v)
        if m.get("all_outcomes") and len(res) != 2**k:
            raise Viol("counts-keys", f"{what}: all_outcomes lists {len(res)} keys, expected {2**k}", sig="all_outcomes:" + dev, features=feats)
        return "hist", h
    if kind == "probs":
        a = np.asarray(res, dtype=float)
        k = model["k"]
        if a.shape != (2**k,):
            raise Viol("probs-shape", f"{what}: shape {a.shape} expected {(2**k,)}", sig="probs:" + dev, features=feats)
        c = a * nshots
        if np.abs(c - np.round(c)).max() > 1e-6 or abs(a.sum() - 1) > 1e-9 or a.min() < 0:
            raise Viol("probs-grid", f"{what}: estimated probabilities {a.tolist()} are not non-negative multiples of 1/shots summing to 1", sig="probs-grid:" + dev, features=feats)
        return "hist", np.round(c).astype(np.int64)
    a = np.asarray(res)
    if a.shape != ():
        raise Viol("scalar-shape", f"{what}: shape {a.shape} expected ()", sig=kind + ":shape:" + dev, features=feats)
    v = float(np.real(a))
    lo, hi = model["vals"].min(), model["vals"].max()
    two = (not model.get("additive")) and len(model["vals"]) == 2
    if kind == "expval":
        if not model.get("additive") and not (lo - 1e-9 <= v <= hi + 1e-9):
            raise Viol("invalid-outcome", f"{what}: sample mean {v} outside the spectrum [{lo}, {hi}]", sig="mean-range:" + dev, features=feats)
        if two:
            # two eigenvalues lo < hi: mean = hi*f + lo*(1-f) with f = k/n the frequency of hi
            k = (v - lo) / (hi - lo) * nshots
            if abs(k - round(k)) > 1e-6 * max(1.0, nshots):
                raise Viol("mean-grid", f"{what}: sample mean {v!r} is not a mixture k/n of the eigenvalues {lo}, {hi}", sig="mean-grid:" + dev, features=feats)
            return "hist", np.array([nshots - int(round(k)), int(round(k))], dtype=np.int64)
        return "mean", v
    lam = max(abs(lo), abs(hi))
    if two:
        w = v / (hi - lo) ** 2  # = f (1 - f)
        if w < -1e-9 or w > 0.25 + 1e-9:
            raise Viol("invalid-outcome", f"{what}: sample variance {v} outside [0, {(hi - lo) ** 2 / 4}]", sig="var-range:" + dev, features=feats)
        return "var2", v
    if v < -1e-9 or v > lam * lam + 1e-9:
        raise Viol("invalid-outcome", f"{what}: sample variance {v} outside [0, {lam * lam}]", sig="var-range:" + dev, features=feats)
    return "var", v


def stat_p(m, model, stats):
    """p-value of the pooled statistic(s) [(kind, value, nshots), ...] of one measurement."""
    kind = stats[0][0]
    if kind == "hist":
        pooled = sum(s[1] for s in stats)
        return stt.histogram_p(pooled, model["probs"])
    ps = []
    for _, v, n in stats:
        if kind == "var2":
            # two-valued spectrum: var_est = f(1-f)(hi-lo)^2 determines the frequency f up to f <-> 1-f; the exact binomial
            # p-value of the better of the two candidates is a valid (conservative) p-value
            lo, hi = model["vals"].min(), model["vals"].max()
            w = min(0.25, max(0.0, v / (hi - lo) ** 2))
            r = np.sqrt(max(0.0, 1 - 4 * w))
            cands = [int(round(n * (1 + r) / 2)), int(round(n * (1 - r) / 2))]
            p_hi = float(model["probs"][-1])
            best = max(stt.histogram_p([n - k, k], [1 - p_hi, p_hi]) for k in cands)
            ps.append((best[0], f"sample variance {v:.5f} vs exact {model['var']:.5f}: implied count of the upper eigenvalue {cands} of {n}, exact prob {p_hi:.5f}; {best[1]}"))
            continue
        if kind == "mean":
            p = stt.mean_p(v - model["mean"], n, model["B"])
            ps.append((p, f"sample mean {v:.5f} vs exact {model['mean']:.5f} (n={n}, half-range {model['B']:.3f}, Hoeffding p={p:.2e})"))
        else:
            # |var_est - var| <= |mean(x^2) - E x^2| + 2 Lam |mean(x) - mu| + Lam^2/n, each part at level p/2
            lam = model["lam"]
            dev = max(0.0, abs(v - model["var"]) - lam * lam / n)
            # solve: dev = a + 2 lam b with a = (lam^2/2) t, b = lam * t (t = sqrt(2 ln(4/p)/n))  ->  dev = 2.5 lam^2 t
            t = dev / (2.5 * lam * lam) if lam > 0 else 0.0
            p = min(1.0, 4.0 * np.exp(-n * t * t / 2.0)) if lam > 0 else (1.0 if dev < 1e-9 else 0.0)
            ps.append((float(p), f"sample variance {v:.5f} vs exact {model['var']:.5f} (n={n}, max |eig| {lam:.3f}, Hoeffding p={p:.2e})"))
    p, info = min(ps)
    return min(1.0, p * len(ps)), info


def build_models(ctx, order, rho):
    models = []
    for m, mp in zip(ctx.spec["meas"], ctx.mps):
        if m.get("obs"):
            obs = mp.obs
            if m["mp"] == "probs":
                # probabilities in the eigenbasis of a Pauli word, ordered by the computational basis after rotation:
                # bit b_i = 0 <-> eigenvalue +1 of the i-th factor
                ow = list(obs.wires)
                r = kr.reduced(rho, order, ow)
                U = np.eye(1)
                for f in (obs.operands if hasattr(obs, "operands") else [obs]):
                    ev, V = np.linalg.eigh(sim.op_matrix(f))
                    U = np.kron(U, V[:, ::-1])  # columns: +1 eigenvector first
                models.append({"k": len(ow), "probs": np.clip(np.real(np.einsum("ik,ij,jk->k", U.conj(), r, U)), 0, 1)})
                continue
            vals, probs = spectrum(obs, rho, order) if type(obs).__name__ not in ("Sum", "LinearCombination", "Hamiltonian") else (None, None)
            O = sim.op_matrix(obs)
            r = kr.reduced(rho, order, list(obs.wires))
            mean = float(np.real(np.trace(r @ O)))
            var = float(np.real(np.trace(r @ O @ O))) - mean**2
            ev = np.linalg.eigvalsh((O + O.conj().T) / 2)
            models.append({"vals": vals if vals is not None else np.array([ev.min(), ev.max()]), "probs": probs, "mean": mean, "var": var,
                           "B": half_range(obs), "lam": float(np.abs(ev).max()), "additive": vals is None})
        else:
            ws = [specs.wire(w) for w in m["w"]] if m.get("w") is not None else list(order)
            models.append({"k": len(ws), "probs": np.clip(kr.probs(rho, order, ws), 0, 1)})
    return models


def _nontrivial(models, total):
    if total < 5000:
        return False
    for md in models:
        p = md.get("probs")
        if p is None or "k" not in md or md["k"] < 2:
            continue
        k = md["k"]
        rev = np.array([p[int(format(i, f"0{k}b")[::-1], 2)] for i in range(2**k)])
        if np.sum((p > 0.02) & (p < 0.98)) >= 3 and np.abs(p - rev).max() > 0.05:
            return True
    return False


def check(spec):
    ctx = Ctx(spec)
    qp = ctx.qp
    bins = expand_shots(spec["shots"])
    total = sum(bins)
    feats = {"dev": spec["dev"], "rng": spec["rng"], "via": spec["via"], "partitioned": len(bins) > 1}
    if ctx.dev_wires:
        order = list(ctx.dev_wires)
    else:
        dev0 = ctx.device(0)
        t0 = qp.tape.QuantumScript(ctx.ops, ctx.mps, shots=total)
        if not len(t0.wires):
            raise Reject("no wires at all (device without wires, empty circuit, wire-less measurement)")
        (pt,), _ = dev0.preprocess()[0]([t0])
        if set(pt.wires) != set(t0.wires):
            raise Reject("device without wires: decomposition dropped a wire")
        order = _standard_order(pt)
    if spec["dev"] == "default.qubit":
        psi = sim.run_ops(ctx.ops, order)
        rho = np.outer(psi, psi.conj())
    else:
        rho = kr.run_ops(ctx.ops, order)
    models = build_models(ctx, order, rho)

    def run_and_collect(shots_raw, bin_list, seed):
        res = ctx.run(shots_raw, seed)
        part = len(bin_list) > 1
        if part:
            if not isinstance(res, (tuple, list)) or len(res) != len(bin_list):
                raise Viol("shot-bins", f"shots={spec['shots']}: result has {len(res) if isinstance(res, (tuple, list)) else type(res).__name__} entries for {len(bin_list)} bins",
                           sig="bins:" + spec["dev"], features=feats)
            per_bin = list(res)
        else:
            per_bin = [res]
        stats = [[] for _ in ctx.mps]
        for b, (r, nb) in enumerate(zip(per_bin, bin_list)):
            if len(ctx.mps) > 1:
                if not isinstance(r, (tuple, list)) or len(r) != len(ctx.mps):
                    raise Viol("result-structure", f"bin {b}: {type(r).__name__} of length {len(r) if hasattr(r, '__len__') else '-'} for {len(ctx.mps)} measurements",
                               sig="structure:" + spec["dev"], features=feats)
                rs = list(r)
            else:
                rs = [r]
            for j, (m, mp) in enumerate(zip(spec["meas"], ctx.mps)):
                rj = rs[j] if isinstance(rs[j], dict) else to_np(rs[j])
                kind, val = evaluate(m, mp, rj, nb, models[j], feats)
                stats[j].append((kind, val, nb))
        return stats

    stats = run_and_collect(_raw_shots(spec["shots"]), bins, spec["seed"])
    flagged = []
    labels = ["dev:" + spec["dev"], "rng:" + spec["rng"], "via:" + spec["via"], "bins:" + ("1" if len(bins) == 1 else "2+"),
              "devw:" + ("given" if ctx.dev_wires else "none")]
    for j, m in enumerate(spec["meas"]):
        labels.append("mp:" + m["mp"] + (":obs" if m.get("obs") else (":all" if m.get("w") is None else ":w")))
        p, info = stat_p(m, models[j], stats[j])
        if p < ALPHA:
            flagged.append((j, p, info))
    if flagged:
        # second, independent sample of 4x the size (single bin)
        stats2 = run_and_collect(4 * total, [4 * total], _seed2(spec))
        for j, p, info in flagged:
            p2, info2 = stat_p(spec["meas"][j], models[j], stats2[j])
            if p2 < ALPHA:
                m = spec["meas"][j]
                raise Viol("born-rule", f"{m} on {spec['dev']} ({spec['rng']} rng, shots={spec['shots']}): stage 1 p={p:.2e} [{info}]; "
                                        f"stage 2 (4x shots) p={p2:.2e} [{info2}]; exact probs={np.round(models[j].get('probs'), 5).tolist() if models[j].get('probs') is not None else None} "
                                        f"ops={spec['ops']} dev_wires={spec.get('dev_wires')}",
                           sig=m["mp"] + (":obs" if m.get("obs") else ":w") + ":" + spec["dev"], features={**feats, "mp": m["mp"]})
        labels.append("stage1-flag-not-repeated")
    return Result(_nontrivial(models, total), labels=labels)


def selftest():
    sim.selftest()
    kr.selftest()
    stt.selftest()
    assert expand_shots([10, [5, 2], 3]) == [10, 5, 5, 3]
