"""C09 — declared parameter frequencies cover the true spectrum; the generated shift rule is exact."""
import copy
import warnings

import numpy as np
from hypothesis import strategies as st

from pv import gen, specs
from pv.engine import Reject, Result, Viol
from pv.ref import rules as R
from pv.ref import sim

ID = "C09"
TECHNIQUE = ("every scalar-parametrised gate class (bare, adjoint, explicitly controlled) embedded between Haar-like random unitaries with a "
             "random Hermitian observable; expectation value sampled on the reference simulator; least-squares Fourier fit restricted to the "
             "declared frequencies + finite-difference check of the generated shift rule")
RULE = (
    "A case picks a gate class with scalar parameters (the 31 parametrised classes of the closed-form gate table, MultiRZ, PauliRot, "
    "PCPhase, GlobalPhase), bare or under Adjoint / Controlled (1-2 controls, any control values, built as explicit symbolic "
    "operators), one of its parameters, boundary-biased values for the other parameters and random wire labels; the gate sits on its "
    "wires plus one neighbour wire between two Haar-like unitaries V, W acting on all wires, the input is |0..0> and O is a random "
    "Hermitian matrix: f(x) = <0|V^ U(x)^ W^ O W U(x) V|0>, evaluated with reference-table matrices. Oracle: (i) f sampled on 2R+11 "
    "points of spacing 0.731 (R = number of declared frequencies from qp.gradients.parameter_frequencies(op)[i]) is fitted by least "
    "squares with {1, cos(w x), sin(w x) : w declared}; max residual <= 1e-8 * max(1,|O|) i.e. no spectral weight outside the declared "
    "set; (ii) sum_i c_i f(x + s_i) with (c, s) = qp.gradients.generate_shift_rule(declared) equals the 5-point finite-difference "
    "derivative (h = 1e-3) at three points within 1e-6. For qp.evolve generators (frequencies declared with 8-decimal eigenvalues) the "
    "tolerance on the true f adds the propagated rounding 1e-8 * |O|_F * sum_i |c_i| |x+s_i|, and the rule must also be exact (1e-5) on "
    "the reference model whose generator spectrum is rounded to 8 decimals. ParameterFrequenciesUndefinedError = no claim (rejected); a 'near zero "
    "determinant' warning of generate_shift_rule = rejected. Non-trivial: f actually varies with x (std over samples > 1e-4)."
)
ASSUMPTIONS = [
    "Only scalar parameters are varied (array-valued parameters of SpecialUnitary / SelectPauliRot have no per-entry frequency declaration).",
    "U(x) is the reference-table matrix of the class (structural for Adjoint / Controlled); classes outside the table use op.matrix().",
]
BUDGET = {"quick": {"examples": 900}, "thorough": {"examples": 60000, "shards": 16}}
SHRINK_LISTS = ()

EXTRA = ("MultiRZ", "PauliRot", "PCPhase", "GlobalPhase")


def param_names():
    return sorted([n for n, (npar, _) in gen.ALL_GATES.items() if npar] + list(EXTRA))


@st.composite
def cases(draw, names=None, forms=("B", "B", "B", "A", "C", "C")):
    t = draw(R.targets(names=names or param_names(), forms=list(forms), leaf_wires=4))["t"]
    leaf = R.leaf_of(t)
    npar = len([p for p in leaf.get("p", []) if isinstance(p, (int, float))])
    return {"t": t, "i": draw(st.integers(0, max(npar - 1, 0))), "nb": draw(st.integers(0, 1)),
            "V": draw(gen.float_list(7)), "W": draw(gen.float_list(7)), "H": draw(gen.float_list(7)),
            "x0": draw(st.floats(-3, 3).map(lambda x: round(x, 3)))}


@st.composite
def evo_cases(draw):
    """qp.evolve(H, x) = exp(-i x H) with H a random Pauli sum on 1-2 wires: generators with several unevenly spaced
    eigenvalues (the named gates all have <= 3 equally spaced ones)."""
    n = draw(st.integers(1, 2))
    words = draw(st.lists(st.text("XYZI", min_size=n, max_size=n).filter(lambda w: set(w) != {"I"}), min_size=2, max_size=4, unique=True))
    coeffs = [draw(st.sampled_from([1.0, 1.0, 0.5, 2.0, -1.0, 0.75, 1.5])) for _ in words]
    return {"kind": "evo", "words": words, "coeffs": coeffs, "w": draw(gen.wire_labels(n)), "nb": draw(st.integers(0, 1)),
            "V": draw(gen.float_list(7)), "W": draw(gen.float_list(7)), "H": draw(gen.float_list(7)),
            "x0": draw(st.floats(-3, 3).map(lambda x: round(x, 3))), "ctrl": draw(st.booleans())}


def strategy(tier):
    return st.one_of(cases(), cases(), cases(), cases(), evo_cases())


def enumerate_cases(tier):
    """Every class x every scalar parameter x forms (bare, adjoint, 1 control, 2 controls with a zero control value): fixed instances."""
    from hypothesis import HealthCheck, Phase, given, settings

    per = 2 if tier == "quick" else 12
    for name in param_names():
        for form in ("B", "A", "C"):
            got = []

            @settings(max_examples=per + 1, derandomize=True, database=None, deadline=None, phases=[Phase.generate],
                      suppress_health_check=list(HealthCheck))
            @given(cases(names=[name], forms=(form,)))
            def collect(s):
                got.append(s)

            collect()
            for s in got[1:]:
                leaf = R.leaf_of(s["t"])
                for i in range(len(leaf.get("p", []))):
                    yield {**s, "i": i}


def with_param(t, i, x):
    t = copy.deepcopy(t)
    leaf = R.leaf_of(t)
    leaf["p"][i] = x
    return t


def _evo(spec, x, rounded=False):
    """(PennyLane operator, reference matrix on its wires) for the evolution case. rounded=True: the reference
    matrix of the same generator with its eigenvalues rounded to 8 decimals (the precision of the declared frequencies)."""
    import pennylane as qp
    from scipy.linalg import expm

    from pv.ref import gates as G

    ws = [specs.wire(w) for w in spec["w"]]
    H = qp.sum(*[qp.s_prod(c, qp.prod(*[getattr(qp, "Pauli" + ch if ch != "I" else "Identity")(w) for ch, w in zip(word, ws)]))
                 for c, word in zip(spec["coeffs"], spec["words"])])
    op = qp.evolve(H, x)
    Hm = sum(c * G.pauli_word(word) for c, word in zip(spec["coeffs"], spec["words"]))
    if rounded:
        lam, Q = np.linalg.eigh(Hm)
        U = (Q * np.exp(-1j * x * np.round(lam, 8))) @ Q.conj().T
    else:
        U = expm(-1j * x * Hm)
    wires = list(ws)
    if spec["ctrl"]:
        op = qp.ctrl(op, control=[("ec", 0)])
        U = G.controlled(U, 1, [1])
        wires = [("ec", 0)] + wires
    return op, U, wires


def check(spec):
    import pennylane as qp

    if spec.get("kind") == "evo":
        return _check_core(spec, evo=True)
    return _check_core(spec, evo=False)


def _check_core(spec, evo):
    import pennylane as qp

    if evo:
        op, _, wires_evo = _evo(spec, 0.37)
        name = "C(Evolution)" if spec["ctrl"] else "Evolution"
        sig, i = name, 0
        feats = {"op": name, "leaf": "Evolution", "param": 0, "form": "C" if spec["ctrl"] else "B"}
        t = leaf = None
    else:
        t = spec["t"]
        leaf = R.leaf_of(t)
        i = spec["i"]
        if i >= len(leaf.get("p", [])) or not isinstance(leaf["p"][i], (int, float)):
            raise Reject("no scalar parameter at this index")
        op = R.build_target(t)
        name = R.reg_name(op)
        sig = f"{name}[{i}]"
        feats = {"op": name, "leaf": leaf["op"], "param": i, "form": R.form_of(t)}
    try:
        declared = qp.gradients.parameter_frequencies(op)
    except qp.exceptions.ParameterFrequenciesUndefinedError:
        raise Reject("parameter frequencies undefined (no claim)") from None
    if len(declared) <= i:
        raise Viol("missing-declaration", f"{op}: {len(declared)} frequency tuples for parameter index {i}", sig=sig, features=feats)
    freqs = sorted(float(w) for w in declared[i])
    if any(w <= 0 for w in freqs):
        raise Viol("non-positive-frequency", f"{op}: declared {declared[i]}", sig=sig, features=feats)
    wires = list(wires_evo) if evo else list(op.wires)
    order = wires + ([("nb", 0)] if spec["nb"] or not wires else [])
    m = len(order)
    if m > 7:
        raise Reject("too many wires")
    V = specs.unitary_from_floats(spec["V"], m)
    W = specs.unitary_from_floats(spec["W"], m)
    O = specs.hermitian_from_floats(spec["H"], m)
    psi = V[:, 0]
    WOW = W.conj().T @ O @ W
    scale = max(1.0, float(np.abs(O).max()))

    def f(x, rounded=False):
        if evo:
            Ux = sim.embed(_evo(spec, float(x), rounded)[1], wires, order)
            phi = Ux @ psi
            return float(np.real(np.vdot(phi, WOW @ phi)))
        o = R.build_target(with_param(t, i, float(x)))
        U = sim.embed(sim.op_matrix(o), list(o.wires), order) if len(o.wires) else sim.op_matrix(o)[0, 0] * np.eye(2**m)
        phi = U @ psi
        return float(np.real(np.vdot(phi, WOW @ phi)))

    Rn = len(freqs)
    N = 2 * Rn + 11
    xs = spec["x0"] + 0.731 * np.arange(N)
    ys = np.array([f(x) for x in xs])
    cols = [np.ones(N)]
    for w in freqs:
        cols += [np.cos(w * xs), np.sin(w * xs)]
    A = np.stack(cols, axis=1)
    coef, *_ = np.linalg.lstsq(A, ys, rcond=None)
    resid = float(np.abs(A @ coef - ys).max())
    # declared frequencies of generator-based gates are rounded to 8 decimals (eigvals_to_frequencies), which alone
    # leaves a residual of order 1e-8 * sampling range
    if resid > (1e-6 if evo else 1e-8) * scale:
        raise Viol("spectrum-not-covered", f"{op} parameter {i}: declared frequencies {freqs} leave residual {resid:.3g} "
                                           f"(f std {ys.std():.3g}) on wires {order}", sig=sig, features=feats)
    varies = float(ys.std()) > 1e-4
    labels = [feats["leaf"], "form:" + feats["form"], f"R={Rn}", "varies" if varies else "constant"]
    if Rn:
        with warnings.catch_warnings(record=True) as rec:
            warnings.simplefilter("always")
            rule = np.asarray(qp.gradients.generate_shift_rule(tuple(freqs)), dtype=float)
        if any("determinant" in str(w.message) or "ill-conditioned" in str(w.message).lower() for w in rec) or \
                not np.all(np.isfinite(rule)) or np.abs(rule[:, 0]).max() > 1e6:
            raise Reject("generate_shift_rule: near zero determinant / ill-conditioned default shifts (documented caveat)")
        h = 1e-3
        # Triage (thorough tier): the fixed tolerance below was too tight for Evolution generators with nearly
        # degenerate levels (gaps such as 0.0152 next to 2.0463 / 2.0616). Operation.parameter_frequencies documents
        # that the frequencies are "computed numerically" and rounds the eigenvalues to 8 decimals, so every declared
        # frequency is off by delta <= 1e-8. The rule is exact for g = f with the rounded spectrum; for the true f
        #   |sum_i c_i f(x+s_i) - f'(x)| <= delta * A * (sum_i |c_i| |x+s_i| + 1 + wmax |x|),
        # A = sum of the Fourier amplitudes of f <= ||O||_F (f = sum_jk conj(a_j) a_k M_jk e^{i(l_j-l_k)x}, |a| = 1,
        # M unitarily equivalent to O). With close frequencies the default equidistant shifts give sum|c_i| ~ 1e5-1e6
        # (reproduced by hand: with the unrounded frequencies the same rule is exact to 3e-8), so the propagated
        # rounding reached 1e-3 while the old bound allowed 4e-5. The extra term is <= 1e-6 for well-conditioned rules
        # (nothing loosened there) but a worst-case bound for ill-conditioned ones; to keep those cases sharp the rule
        # is ALSO applied to g (reference matrices of the generator with eigenvalues rounded to 8 decimals, built with
        # numpy eigh, independent of PennyLane), where it must be exact within the old tolerance: a missing or wrong
        # declared frequency still alarms there. Named gates (evo False) are unchanged.
        o_fro = float(np.linalg.norm(O))
        base = (1e-5 if evo else 1e-6) * scale * max(1.0, max(freqs)) ** (1 if evo else 0)
        for x in (spec["x0"], spec["x0"] + 1.234, spec["x0"] - 2.1):
            for rounded in ((False, True) if evo else (False,)):
                got = sum(c * f(x + s, rounded) for c, s in rule[:, :2])
                fd = (-f(x + 2 * h, rounded) + 8 * f(x + h, rounded) - 8 * f(x - h, rounded) + f(x - 2 * h, rounded)) / (12 * h)
                tol = base
                if evo and not rounded:
                    tol += 1e-8 * o_fro * (float(np.sum(np.abs(rule[:, 0]) * np.abs(x + rule[:, 1]))) + 1.0 + max(freqs) * abs(x))
                if abs(got - fd) > tol:
                    raise Viol("shift-rule-not-exact", f"{op} parameter {i}: shift rule from {freqs} gives {got:.9g}, finite difference {fd:.9g} "
                                                       f"at x={x}" + (" (generator spectrum rounded to 8 decimals)" if rounded else ""),
                               sig=sig, features=feats)
        labels.append("shift-rule-checked")
    return Result(varies, labels=labels)


def selftest():
    sim.selftest()
    # fit sanity: a signal with a frequency outside the declared set must leave a residual
    xs = 0.731 * np.arange(13)
    ys = np.cos(xs) + 0.1 * np.sin(2 * xs)
    A = np.stack([np.ones(13), np.cos(xs), np.sin(xs)], axis=1)
    c, *_ = np.linalg.lstsq(A, ys, rcond=None)
    assert np.abs(A @ c - ys).max() > 1e-3
