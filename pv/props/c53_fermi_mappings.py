"""C53 — Jordan-Wigner / parity / Bravyi-Kitaev mappings are faithful, unitarily equivalent representations."""
import numpy as np
from hypothesis import strategies as st

from pv import gen
from pv.cmp import close, maxdiff
from pv.engine import Reject, Result, Viol
from pv.ref import fermi as F

ID = "C53"
TECHNIQUE = "hypothesis-generated Fermi sentences vs Fock-space ladder matrices conjugated by the textbook parity/BK basis encodings"
RULE = (
    "Fermi sentences A, B (0-3 terms, words of 0-4 ladder operators on n <= 6 modes, repeated orbitals allowed, exact "
    "quarter-integer complex coefficients; words built from dict (sorted or reverse insertion order) / from_string (+,-,^ styles) / FermiC*FermiA "
    "products) x scalar k x ps in {True, False} x wire_map (None or a bijection to int/str labels) x tol in {None, "
    "1e-12, 1e-8}. Oracle (pv.ref.fermi: a_j from the Fock-space definition with the (-1)^{n_0+..+n_{j-1}} sign; "
    "parity and Bravyi-Kitaev as GF(2)-linear re-encodings of the occupation basis): for every mapping M, "
    "matrix(M(op)) == U_M ref(op) U_M^dagger for op in {A, B, A*B, A+B, A-B, k*A, A^dagger, word shifted with "
    "shift_operator} at 1e-10, hence products->products, sums->sums, adjoints->adjoints; M(A)M(B) == M(A*B) also "
    "checked on PennyLane's own matrices; spectra of the Hermitian A+A^dagger agree across the three mappings; "
    "FermiWord/FermiSentence.to_mat == reference; orbital >= n raises ValueError. enumerate_cases: the canonical "
    "anticommutation relations {a_i,a_j^dagger}=delta_ij, {a_i,a_j}=0 for all i,j < n, n = 1..8 (9 in thorough), "
    "every mapping. Non-trivial: A has a word with >= 2 operators and B is non-empty."
)
ASSUMPTIONS = [
    "Coefficients are multiples of 1/4, so imaginary parts of mapped coefficients are either exactly 0 or >= 2^-10 "
    "and `tol` (<= 1e-8) can only drop exact zeros.",
    "wire_map is a bijection defined on all modes 0..n-1 (the documented use).",
    "There is no fermionic normal_order in this PennyLane version; FermiWord.shift_operator (reordering by the "
    "anticommutation relations) is checked in its place.",
]
BUDGET = {"quick": {"examples": 300}, "thorough": {"examples": 3000, "shards": 8}}
SHRINK_LISTS = ("A", "B", "f")
TOL = 1e-10

_q = st.sampled_from([1.0, 1.0, -1.0, 0.5, -0.5, 0.25, 2.0, -1.5, 0.0])
_coef = st.one_of(st.tuples(_q, st.just(0.0)), st.tuples(_q, _q), st.tuples(st.just(0.0), _q)).map(list)


@st.composite
def _word(draw, n):
    k = draw(st.sampled_from([0, 1, 1, 2, 2, 2, 3, 4, 4]))
    f = []
    for _ in range(k):
        if f and draw(st.integers(0, 3)) == 0:
            orb = draw(st.sampled_from(f))[0]  # repeated orbital: exercises a a^dagger on one mode
        else:
            orb = draw(st.integers(0, n - 1))
        f.append([orb, draw(st.sampled_from(["+", "-"]))])
    return f


@st.composite
def _sentence(draw, n, max_terms, min_terms=0):
    return [{"c": draw(_coef), "f": draw(_word(n)), "style": draw(st.sampled_from(["dict", "dict-rev", "string", "string^", "ops"]))}
            for _ in range(draw(st.sampled_from([0] + list(range(1, max_terms + 1)) * 2)))]


@st.composite
def _case(draw, tier):
    n = draw(st.sampled_from([1, 2, 3, 3, 4, 4, 5, 6] + ([7] if tier == "thorough" else [])))
    wm = draw(st.sampled_from([None, None, "perm", "labels"]))
    return {
        "n": n,
        "A": draw(_sentence(n, 3)),
        "B": draw(_sentence(n, 2)),
        "k": draw(_coef),
        "ps": draw(st.booleans()),
        "wm": None if wm is None else {"kind": wm, "perm": list(draw(st.permutations(list(range(n))))),
                                       "labels": draw(gen.wire_labels(6)) + ["g7", 11][: max(0, n - 6)]},
        "tol": draw(st.sampled_from([None, None, 1e-12, 1e-8])),
        "shift": [draw(st.integers(0, 3)), draw(st.integers(0, 3))],
    }


def strategy(tier):
    return _case(tier)


def enumerate_cases(tier):
    for n in range(1, 9 if tier == "quick" else 10):
        yield {"car": n}


# ---------------------------------------------------------------- builders
def _c(pair):
    re, im = pair
    return complex(re, im) if im != 0 else float(re)


def _fw(t):
    from pennylane.fermi import FermiA, FermiC, FermiWord, from_string

    f = t["f"]
    if t["style"] == "string":
        return from_string(" ".join(f"{o}{s}" for o, s in f))
    if t["style"] == "string^":
        return from_string(" ".join(f"{o}^" if s == "+" else f"{o}" for o, s in f))
    if t["style"] == "ops" and f:
        out = None
        for o, s in f:
            x = FermiC(o) if s == "+" else FermiA(o)
            out = x if out is None else out * x
        return out
    items = [((i, o), s) for i, (o, s) in enumerate(f)]
    return FermiWord(dict(reversed(items)) if t["style"] == "dict-rev" else dict(items))


def _fs(terms):
    from pennylane.fermi import FermiSentence

    out = FermiSentence({})
    for t in terms:
        out = out + _c(t["c"]) * _fw(t)
    return out


def _ref_terms(terms):
    return [(complex(*t["c"]), [(o, s) for o, s in t["f"]]) for t in terms]


def _maps(n):
    import pennylane as qp

    return {
        "jw": (lambda op, **kw: qp.jordan_wigner(op, **kw), np.eye(2**n)),
        "parity": (lambda op, **kw: qp.parity_transform(op, n, **kw), F.encoding_unitary(F.parity_encoding(n))),
        "bk": (lambda op, **kw: qp.bravyi_kitaev(op, n, **kw), F.encoding_unitary(F.bk_encoding(n))),
    }


def _mat(res, order):
    import pennylane as qp
    from pennylane.pauli import PauliSentence

    if isinstance(res, PauliSentence):
        return np.asarray(res.to_mat(wire_order=order))
    return np.asarray(qp.matrix(res, wire_order=order))


def _check_car(n):
    from pennylane.fermi import FermiA, FermiC

    order = list(range(n))
    Id = np.eye(2**n)
    for name, (fn, _) in _maps(n).items():
        a = [_mat(fn(FermiA(j), ps=True), order) for j in range(n)]
        ad = [_mat(fn(FermiC(j), ps=(j % 2 == 0)), order) for j in range(n)]
        for i in range(n):
            if not close(ad[i], a[i].conj().T, TOL):
                raise Viol("car-adjoint", f"{name} n={n}: map(a_{i}^dag) != map(a_{i})^dag", sig=name)
            for j in range(n):
                if not close(a[i] @ a[j] + a[j] @ a[i], 0 * Id, TOL):
                    raise Viol("car-aa", f"{name} n={n}: {{a_{i},a_{j}}} != 0", sig=name)
                if not close(a[i] @ ad[j] + ad[j] @ a[i], Id * (i == j), TOL):
                    raise Viol("car-aad", f"{name} n={n}: {{a_{i},a_{j}^dag}} != delta", sig=name)
    return Result(True, labels=[f"car-n={n}"])


def check(spec):
    if "car" in spec:
        return _check_car(spec["car"])
    import pennylane as qp
    from pennylane.pauli import PauliSentence

    n = spec["n"]
    A, B = _fs(spec["A"]), _fs(spec["B"])
    ta, tb = _ref_terms(spec["A"]), _ref_terms(spec["B"])
    RA, RB = F.sentence_matrix(ta, n), F.sentence_matrix(tb, n)
    k, kc = _c(spec["k"]), complex(*spec["k"])
    kw = {"ps": spec["ps"]}
    if spec["tol"] is not None:
        kw["tol"] = spec["tol"]
    order = list(range(n))
    if spec["wm"] is not None:
        if spec["wm"]["kind"] == "perm":
            wire_map = {i: spec["wm"]["perm"][i] for i in range(n)}
        else:
            wire_map = {i: spec["wm"]["labels"][i] for i in range(n)}
        kw["wire_map"] = wire_map
        order = [wire_map[i] for i in range(n)]

    # Fermi-side arithmetic (code under test) and the matching reference matrices
    derived = {
        "A": (A, RA),
        "B": (B, RB),
        "A*B": (A * B, RA @ RB),
        "A+B": (A + B, RA + RB),
        "A-B": (A - B, RA - RB),
        "k*A": (k * A, kc * RA),
        "A*k": (A * k, kc * RA),
        "A+k": (A + k, RA + kc * np.eye(2**n)),
        "k-A": (k - A, kc * np.eye(2**n) - RA),
        "adj(A)": (A.adjoint(), RA.conj().T),
        "A**2": (A**2, RA @ RA),
    }
    # single words: word products, adjoint, shift_operator
    shifted = False
    for idx, t in enumerate(spec["A"][:2]):
        w = _fw(t)
        RW = F.word_matrix([(o, s) for o, s in t["f"]], n)
        derived[f"word{idx}"] = (w, RW)
        derived[f"adj(word{idx})"] = (w.adjoint(), RW.conj().T)
        if spec["B"]:
            w2 = _fw(spec["B"][0])
            derived[f"word{idx}*word"] = (w * w2, RW @ F.word_matrix([(o, s) for o, s in spec["B"][0]["f"]], n))
            derived[f"word{idx}*B"] = (w * B, RW @ RB)
            derived[f"word{idx}-B"] = (w - B, RW - RB)
        L = len(t["f"])
        if L >= 2:
            i, f = spec["shift"][0] % L, spec["shift"][1] % L
            derived[f"shift(word{idx},{i},{f})"] = (w.shift_operator(i, f), RW)
            shifted = shifted or i != f

    spectra = {}
    for name, (fn, U) in _maps(n).items():
        mats = {}
        for what, (op, R) in derived.items():
            res = fn(op, **kw)
            if spec["ps"] and not isinstance(res, PauliSentence):
                raise Viol("return-type", f"{name}({what}, ps=True) returned {type(res)}", sig=name)
            if not spec["ps"] and not isinstance(res, qp.operation.Operator):
                raise Viol("return-type", f"{name}({what}, ps=False) returned {type(res)}", sig=name)
            got = _mat(res, order)
            want = U @ R @ U.conj().T
            if got.shape != want.shape or not close(got, want, TOL):
                clause = "image-" + ("shift" if what.startswith("shift") else "adjoint" if what.startswith("adj") else
                                     "product" if "*" in what and what not in ("k*A", "A*k") else "linear" if what not in ("A", "B") and not what.startswith("word") else "value")
                raise Viol(clause, f"{name}({what}) differs from the reference by {maxdiff(got, want)}", sig=name,
                           features={"mapping": name, "what": what.split("(")[0]})
            mats[what] = got
        # homomorphism on PennyLane's own matrices
        if not close(mats["A"] @ mats["B"], mats["A*B"], TOL):
            raise Viol("homomorphism-product", f"{name}: map(A)map(B) != map(A*B)", sig=name)
        if not close(mats["A"].conj().T, mats["adj(A)"], TOL):
            raise Viol("homomorphism-adjoint", f"{name}: map(A)^dag != map(A^dag)", sig=name)
        H = mats["A"] + mats["adj(A)"]
        spectra[name] = np.linalg.eigvalsh(H)
    for name in ("parity", "bk"):
        if not close(spectra[name], spectra["jw"], 1e-8):
            raise Viol("spectrum", f"{name} vs jw spectra of A+A^dag differ by {maxdiff(spectra[name], spectra['jw'])}", sig=name)

    # to_mat (documented: Jordan-Wigner matrix on n_orbitals)
    if any(t["f"] for t in spec["A"]):
        got = A.to_mat(n_orbitals=n)
        if not close(got, RA, TOL):
            raise Viol("to_mat", f"FermiSentence.to_mat differs by {maxdiff(got, RA)}")
        got = A.to_mat(n_orbitals=n, format="csr").toarray()
        if not close(got, RA, TOL):
            raise Viol("to_mat", f"FermiSentence.to_mat(csr) differs by {maxdiff(got, RA)}")
    for t in spec["A"][:2]:
        if t["f"]:
            got = _fw(t).to_mat(n_orbitals=n)
            want = F.word_matrix([(o, s) for o, s in t["f"]], n)
            if not close(got, want, TOL):
                raise Viol("to_mat", f"FermiWord.to_mat differs by {maxdiff(got, want)}")

    # documented rejection: orbital index >= n
    top = max([o for t in spec["A"] for o, _ in t["f"]], default=None)
    if top is not None and top >= 1:
        for fn_ in (qp.parity_transform, qp.bravyi_kitaev):
            try:
                fn_(A, top)
            except ValueError:
                pass
            else:
                raise Viol("orbital-range", f"{fn_.__name__} accepted orbital {top} with n={top}")

    maxlen = max([len(t["f"]) for t in spec["A"]], default=0)
    labs = [f"n={n}", "ps" if spec["ps"] else "op", f"maxlen={maxlen}", f"tol={spec['tol']}",
            "wire_map=" + (spec["wm"]["kind"] if spec["wm"] else "none")]
    if shifted:
        labs.append("shifted")
    if any(len({o for o, _ in t["f"]}) < len(t["f"]) for t in spec["A"]):
        labs.append("repeated-orbital")
    if np.abs(RA).max() == 0:
        labs.append("A=0")
    return Result(nontrivial=maxlen >= 2 and bool(spec["B"]), labels=labs)


def selftest():
    F.selftest()
