"""C28 — built-in channels are complete (trace preserving) on their documented domains; default.mixed density
matrices are physical and equal an independent Kraus-sum simulation."""
import numpy as np
from hypothesis import strategies as st

from pv import gen, specs
from pv.cmp import close, maxdiff, to_np
from pv.engine import Reject, Result, Viol
from pv.ref import kraus as kr
from pv.ref import sim

ID = "C28"
TECHNIQUE = ("channel parameter grids (enumerated, incl. endpoints) + hypothesis points: sum K^dagger K = I and superoperator vs "
             "docstring-derived reference; hypothesis noisy circuits on default.mixed vs independent numpy Kraus-sum simulation")
RULE = (
    "point: every Channel subclass of pennylane.ops.channel (10) on grids incl. endpoints 0/1 (also python ints), 1e-12, 1-1e-9 and "
    "random points of the documented domain (ResetError simplex p0+p1<=1, PauliError words up to 4 letters, ThermalRelaxationError "
    "pe in [0,1], t1>0, 0<t2<=2*t1 incl. t2=t1 and t2=2*t1, tg>=0 from 0 to 100*t1, QubitChannel from blocks of a random isometry, "
    "1-5 Kraus operators on 1-2 wires): each Kraus matrix has shape (2^n,2^n), sum K^dagger K = I (1e-10) and the superoperator "
    "sum K (x) conj(K) equals the one written from the class docstring (1e-9; 2e-7 at gamma=1 of the damping channels; thermal "
    "relaxation: the docstring's Choi matrix). "
    "circuit: 1-4 wires (int/str/mixed labels, random order), depth<=10 over the named-gate table + GlobalPhase/MultiRZ/PauliRot/"
    "QubitUnitary/MultiControlledX/adjoint, 1-4 channels at random positions (thermal relaxation with tg<=t1), optional "
    "QubitDensityMatrix on a wire subset, optional leading BasisState/StatePrep, optional broadcast gate parameter, device wires "
    "none/same/permuted/with idle extras, interfaces numpy/autograd/jax/torch; a third of the circuits start from a generic product "
    "state + entanglers and measure LinearCombination / SparseHamiltonian / Hermitian / Sum expectation values (csr, full-matrix, "
    "sum-of-terms, diagonalising-gates paths); kernel9: 9 wires with a 9-wire MultiControlledX "
    "(custom real-symmetric kernel) between channels; readout: readout_prob device option = BitFlip on each measured wire. Oracle: "
    "pv.ref.kraus (numpy Kraus sums with reference channel definitions, gate matrices from pv.ref.gates) for every measurement "
    "(1e-8, +2e-7 per damping channel at gamma=1) and the full density matrix: Hermitian (1e-10), trace 1 (1e-9), min eigenvalue >= -1e-10. Non-trivial: point with "
    "non-zero strength; circuit with a non-zero-strength channel after an entangling gate."
)
ASSUMPTIONS = [
    "Channel semantics are taken from the class docstrings (Kraus formulas / thermal relaxation Choi matrix); Kraus representations "
    "are compared as channels (superoperators), not matrix by matrix, since PennyLane adds 1e-14 under square roots.",
    "ThermalRelaxationError for T2 <= T1: the docstring names the Kraus form but not the probabilities; the reference uses the Choi "
    "matrix printed for T2 > T1, which is the same physical model (selftest shows they coincide).",
    "Inside circuits ThermalRelaxationError is restricted to tg <= t1 so that the long-gate-time defect of its Kraus formulas "
    "(covered by the point cases) does not mask kernel defects.",
    "PennyLane's documented constant _SQRT_STABILITY_EPS=1e-14 under the square roots leaves 1e-7 of coherence at gamma = 1 exactly "
    "(AmplitudeDamping/PhaseDamping/GeneralizedAmplitudeDamping); treated as float tolerance (2e-7), not as a violation.",
    "readout_prob semantics from the 0.25 release notes: acts like qp.BitFlip on every measured wire (after diagonalisation).",
]
BUDGET = {"quick": {"examples": 330}, "thorough": {"examples": 24000, "shards": 16}}
SHRINK_LISTS = ("ops", "meas")

ENT = {"CNOT", "CZ", "CY", "CH", "SWAP", "ISWAP", "SISWAP", "ECR", "CRX", "CRY", "CRZ", "CRot", "IsingXX", "IsingYY", "IsingZZ",
       "IsingXY", "PSWAP", "Toffoli", "CSWAP", "CCZ", "MultiControlledX", "DoubleExcitation", "SingleExcitation",
       "ControlledPhaseShift", "FermionicSWAP", "OrbitalRotation", "SingleExcitationPlus", "SingleExcitationMinus",
       "DoubleExcitationPlus", "DoubleExcitationMinus"}
ONE_PARAM = ["AmplitudeDamping", "PhaseDamping", "DepolarizingChannel", "BitFlip", "PhaseFlip"]
GRID = [0.0, 1e-12, 1e-6, 0.1, 0.25, 0.5, 0.75, 1 - 1e-9, 1.0]

prob = st.one_of(st.sampled_from(GRID), st.floats(0, 1, allow_nan=False).map(lambda x: round(x, 6)),
                 st.floats(0, 1, allow_nan=False).map(lambda x: round(x, 6)))


@st.composite
def _reset_params(draw):
    p0 = draw(prob)
    p1 = draw(prob)
    if p0 + p1 > 1.0:
        p1 = 1.0 - p0
    if p0 + p1 > 1.0 or p1 < 0:
        p1 = 0.0
    return [p0, p1]


@st.composite
def _thermal_params(draw, moderate):
    pe = draw(prob)
    t1 = draw(st.one_of(st.sampled_from([0.01, 0.5, 1.0, 50.0, 1e4]), st.floats(0.05, 20).map(lambda x: round(x, 4))))
    r = draw(st.one_of(st.sampled_from([1e-3, 0.5, 1.0, 1.0 + 1e-9, 1.5, 2.0]), st.floats(0.01, 2.0).map(lambda x: round(x, 4))))
    if moderate:
        s = draw(st.one_of(st.sampled_from([0.0, 1e-9, 0.01, 0.1, 1.0]), st.floats(0, 1).map(lambda x: round(x, 4))))
    else:
        s = draw(st.one_of(st.sampled_from([0.0, 1e-9, 0.01, 0.1, 1.0, 3.0, 10.0, 30.0, 100.0]), st.floats(0, 50).map(lambda x: round(x, 3))))
    t2 = r * t1
    if t2 > 2 * t1:
        t2 = 2 * t1
    return [pe, t1, t2, s * t1]


@st.composite
def channel(draw, wires, moderate=True, names=None):
    n = len(wires)
    names = names or (ONE_PARAM + ["GeneralizedAmplitudeDamping", "ResetError", "ThermalRelaxationError", "PauliError", "PauliError", "QubitChannel"])
    nm = draw(st.sampled_from(names))
    if nm in ONE_PARAM:
        return {"op": nm, "p": [draw(prob)], "w": draw(gen.subset(wires, 1))}
    if nm == "GeneralizedAmplitudeDamping":
        return {"op": nm, "p": [draw(prob), draw(prob)], "w": draw(gen.subset(wires, 1))}
    if nm == "ResetError":
        return {"op": nm, "p": draw(_reset_params()), "w": draw(gen.subset(wires, 1))}
    if nm == "ThermalRelaxationError":
        return {"op": nm, "p": draw(_thermal_params(moderate)), "w": draw(gen.subset(wires, 1))}
    if nm == "PauliError":
        k = draw(st.integers(1, min(n, 4)))
        return {"op": nm, "p": [draw(prob)], "w": draw(gen.subset(wires, k)), "word": draw(st.text("IXYZ", min_size=k, max_size=k))}
    k = draw(st.integers(1, min(n, 2)))
    return {"op": "QubitChannel", "K": {"iso": draw(gen.float_list(6)), "n": k, "m": draw(st.integers(1, 5))}, "w": draw(gen.subset(wires, k))}


@st.composite
def _point(draw):
    k = draw(st.integers(1, 4))
    wires = draw(gen.wire_labels(k))
    c = draw(channel(wires, moderate=False))
    if draw(st.integers(0, 9)) == 0 and (c["op"] in ONE_PARAM or c["op"] == "PauliError"):  # python-int endpoints
        c = {**c, "p": [draw(st.sampled_from([0, 1]))]}
    return {"kind": "point", "ch": c}


@st.composite
def _meas(draw, wires):
    n = len(wires)
    sub = st.integers(1, n).flatmap(lambda k: gen.subset(wires, k))
    opts = [gen.observable(wires).map(lambda o: {"mp": "expval", "obs": o}),
            gen.observable(wires).map(lambda o: {"mp": "var", "obs": o}),
            sub.map(lambda w: {"mp": "probs", "w": w}),
            sub.map(lambda w: {"mp": "density_matrix", "w": w}), sub.map(lambda w: {"mp": "purity", "w": w}),
            st.tuples(sub, st.sampled_from([None, 2, 10])).map(lambda t: {"mp": "vn_entropy", "w": t[0], "log_base": t[1]}),
            gen.pauli_word_obs(wires).map(lambda o: {"mp": "probs", "obs": o}),
            st.tuples(st.lists(st.integers(0, 1), min_size=1, max_size=min(3, n)), st.permutations(wires)).map(
                lambda t: {"mp": "expval", "obs": {"op": "Projector", "p": [t[0]], "w": list(t[1])[:len(t[0])]}})]
    if n >= 2:
        opts.append(st.permutations(wires).flatmap(lambda p: st.integers(1, n - 1).map(
            lambda k: {"mp": "mutual_info", "w0": list(p)[:k], "w1": list(p)[k:]})))
    # LinearCombination / SparseHamiltonian: the csr (numpy) and sum-of-terms (other interfaces) expectation paths
    opts.append(st.lists(st.tuples(gen.floats01, gen.pauli_word_obs(wires)), min_size=1, max_size=4).map(
        lambda ts: {"mp": "expval", "obs": {"op": "lincomb", "coeffs": [c for c, _ in ts], "operands": [o for _, o in ts]}}))
    opts.append(st.tuples(gen.float_list(5), st.integers(1, min(n, 3)).flatmap(lambda k: gen.subset(wires, k))).map(
        lambda t: {"mp": "expval", "obs": {"op": "SparseHamiltonian", "H": t[0], "w": t[1]}}))
    return draw(st.one_of(*opts))


def _dev_wires(draw, wires):
    devw = draw(st.sampled_from(["none", "same", "perm", "extra"]))
    if devw == "same":
        return list(wires)
    if devw == "perm":
        return list(draw(st.permutations(wires)))
    if devw == "extra":
        return list(draw(st.permutations(wires + ["idle1", "idle2"][: draw(st.integers(1, 2))])))
    return None


@st.composite
def _circuit(draw):
    n = draw(st.integers(1, 4))
    wires = draw(gen.wire_labels(n))
    ops = draw(gen.op_list(wires, None, 10, extras=True, p_derive=0.15))
    for _ in range(draw(st.integers(1, 4))):
        ops.insert(draw(st.integers(0, len(ops))), draw(channel(wires)))
    if draw(st.integers(0, 4)) == 0:
        k = draw(st.integers(1, n))
        ops.insert(draw(st.integers(0, len(ops))), {"op": "QubitDensityMatrix", "rho": {"fl": draw(gen.float_list(6)), "n": k, "pure": draw(st.booleans())},
                                                    "w": draw(gen.subset(wires, k))})
    prep = draw(st.sampled_from([None, None, None, "basis", "state"]))
    if prep == "basis":
        k = draw(st.integers(1, n))
        ops.insert(0, {"op": "BasisState", "p": [draw(st.lists(st.integers(0, 1), min_size=k, max_size=k))], "w": draw(gen.subset(wires, k))})
    elif prep == "state":
        k = draw(st.integers(1, min(n, 3)))
        ops.insert(0, {"op": "StatePrep", "p": [{"vec": draw(gen.float_list(6)), "n": k}], "w": draw(gen.subset(wires, k))})
    batch = draw(st.sampled_from([None, None, None, 1, 2, 3]))
    if batch:
        w = draw(gen.subset(wires, min(2, n)))
        nm = draw(st.sampled_from(["RX", "RZ", "PhaseShift", "RY"] + (["CRY", "IsingZZ", "ControlledPhaseShift"] if n >= 2 else [])))
        k = gen.ALL_GATES[nm][1]
        ops.insert(draw(st.integers(1 if prep else 0, len(ops))), {"op": nm, "p": [draw(st.lists(gen.angles(), min_size=batch, max_size=batch))], "w": w[:k]})
    meas = draw(st.lists(_meas(wires), min_size=0, max_size=3)) + [{"mp": "state"}]
    return {"kind": "circuit", "ops": ops, "meas": meas, "wires": wires, "dev_wires": _dev_wires(draw, wires),
            "interface": draw(st.sampled_from(["numpy"] * 14 + ["autograd"] * 4 + ["jax", "torch"]))}


@st.composite
def _obs_circuit(draw):
    """Generic (non-symmetric) noisy state, measured through every expectation-value path of qubit_mixed.measure."""
    n = draw(st.integers(2, 4))
    wires = draw(gen.wire_labels(n))
    ops = [{"op": "RY", "p": [draw(gen.generic_angles())], "w": [w]} for w in wires]
    ops += [{"op": "RZ", "p": [draw(gen.generic_angles())], "w": [w]} for w in wires]
    ops += draw(gen.op_list(wires, gen.GATES2, 3, min_depth=1, ang=gen.generic_angles(), extras=False, p_derive=0.0))
    for _ in range(draw(st.integers(1, 2))):
        ops.insert(draw(st.integers(2 * n, len(ops))), draw(channel(wires)))
    batch = draw(st.sampled_from([None, None, 1, 2]))
    if batch:
        ops.insert(draw(st.integers(0, len(ops))), {"op": draw(st.sampled_from(["RX", "RZ", "PhaseShift"])),
                                                    "p": [draw(st.lists(gen.generic_angles(), min_size=batch, max_size=batch))], "w": draw(gen.subset(wires, 1))})
    sub = st.integers(1, min(n, 3)).flatmap(lambda k: gen.subset(wires, k))
    lin = st.lists(st.tuples(gen.floats01, gen.pauli_word_obs(wires)), min_size=1, max_size=4).map(
        lambda ts: {"op": "lincomb", "coeffs": [c for c, _ in ts], "operands": [o for _, o in ts]})
    sparse = st.tuples(gen.float_list(5), sub).map(lambda t: {"op": "SparseHamiltonian", "H": t[0], "w": t[1]})
    obs = st.one_of(lin, lin, sparse, sparse, gen.observable(wires))
    meas = draw(st.lists(st.one_of(obs.map(lambda o: {"mp": "expval", "obs": o}), gen.observable(wires).map(lambda o: {"mp": "var", "obs": o})),
                         min_size=1, max_size=3)) + [{"mp": "state"}]
    return {"kind": "circuit", "ops": ops, "meas": meas, "wires": wires, "dev_wires": _dev_wires(draw, wires),
            "interface": draw(st.sampled_from(["numpy"] * 8 + ["autograd", "autograd", "jax", "torch"]))}


@st.composite
def _kernel9(draw):
    wires = list(draw(st.permutations(list(range(9)) if draw(st.booleans()) else [f"q{i}" for i in range(9)])))
    ops = [{"op": "RY", "p": [draw(gen.generic_angles())], "w": [w]} for w in wires]
    ops.append(draw(channel(wires, names=ONE_PARAM + ["ResetError"])))
    ops.append({"op": "MultiControlledX", "p": [], "w": draw(gen.subset(wires, 9)),
                "kw": {"control_values": draw(st.lists(st.integers(0, 1), min_size=8, max_size=8))}})
    ops.append(draw(channel(wires, names=ONE_PARAM + ["GeneralizedAmplitudeDamping"])))
    sub = draw(gen.subset(wires, 3))
    meas = [{"mp": "density_matrix", "w": sub}, {"mp": "expval", "obs": draw(gen.pauli_word_obs(sub))}, {"mp": "purity", "w": wires}]
    return {"kind": "kernel9", "ops": ops, "meas": meas, "wires": wires, "dev_wires": None, "interface": "numpy"}


@st.composite
def _readout(draw):
    n = draw(st.integers(1, 3))
    wires = draw(gen.wire_labels(n))
    ops = [{"op": "RY", "p": [draw(gen.generic_angles())], "w": [w]} for w in wires]
    ops += draw(gen.op_list(wires, None, 5, extras=False, p_derive=0.1, ang=gen.generic_angles()))
    if draw(st.booleans()):
        ops.insert(draw(st.integers(0, len(ops))), draw(channel(wires, names=ONE_PARAM)))
    sub = st.integers(1, n).flatmap(lambda k: gen.subset(wires, k))
    meas = draw(st.lists(st.one_of(sub.map(lambda w: {"mp": "probs", "w": w}), st.just({"mp": "probs", "w": list(wires)}),
                                   gen.pauli_word_obs(wires).map(lambda o: {"mp": "expval", "obs": o})), min_size=1, max_size=3))
    return {"kind": "readout", "ops": ops, "meas": meas, "wires": wires, "dev_wires": list(draw(st.permutations(wires))),
            "interface": "numpy", "readout_prob": draw(st.one_of(st.sampled_from([0.0, 0.1, 0.5, 1.0, 1, 0]), st.floats(0.01, 0.99).map(lambda x: round(x, 4))))}


def strategy(tier):
    return st.one_of(_point(), _point(), _point(), _point(), _circuit(), _circuit(), _circuit(), _circuit(), _circuit(), _circuit(),
                     _circuit(), _circuit(), _circuit(), _obs_circuit(), _obs_circuit(), _obs_circuit(), _readout(), _readout(),
                     *([_kernel9()] if tier == "thorough" else []))


def enumerate_cases(tier):
    for nm in ONE_PARAM:
        for p in GRID + [0, 1]:
            yield {"kind": "point", "ch": {"op": nm, "p": [p], "w": [0]}}
    for g in GRID:
        for p in GRID:
            yield {"kind": "point", "ch": {"op": "GeneralizedAmplitudeDamping", "p": [g, p], "w": ["a"]}}
            if g + p <= 1.0:
                yield {"kind": "point", "ch": {"op": "ResetError", "p": [g, p], "w": [1]}}
    for p0 in GRID:
        yield {"kind": "point", "ch": {"op": "ResetError", "p": [p0, 1.0 - p0], "w": [1]}}
    for k in (1, 2):
        import itertools
        for word in itertools.product("IXYZ", repeat=k):
            for p in (0.0, 0.3, 1.0):
                yield {"kind": "point", "ch": {"op": "PauliError", "p": [p], "w": ["b", 0][:k], "word": "".join(word)}}
    for pe in (0.0, 0.3, 1.0):
        for r in (0.01, 0.5, 1.0, 1.2, 2.0):
            for s in (0.0, 1e-9, 0.1, 1.0, 2.0) + ((10.0, 100.0) if r in (0.5, 2.0) and pe == 0.3 else ()):
                yield {"kind": "point", "ch": {"op": "ThermalRelaxationError", "p": [pe, 1.5, r * 1.5, s * 1.5], "w": [0]}}
    if tier == "quick":
        # one 9-wire custom-kernel case, fixed
        wires = list(range(9))
        yield {"kind": "kernel9", "wires": wires, "dev_wires": None, "interface": "numpy",
               "ops": [{"op": "RY", "p": [0.3 + 0.2 * i], "w": [w]} for i, w in enumerate(wires)] +
                      [{"op": "AmplitudeDamping", "p": [0.3], "w": [2]},
                       {"op": "MultiControlledX", "p": [], "w": [4, 0, 8, 1, 3, 7, 2, 6, 5], "kw": {"control_values": [1, 0, 1, 1, 0, 1, 1, 1]}},
                       {"op": "DepolarizingChannel", "p": [0.2], "w": [5]}],
               "meas": [{"mp": "density_matrix", "w": [5, 0, 2]}, {"mp": "expval", "obs": {"op": "PauliZ", "w": [5]}}, {"mp": "purity", "w": wires}]}


# ----------------------------------------------------------------------------------------------
# builders
# ----------------------------------------------------------------------------------------------

def _iso_kraus(d):
    """m Kraus operators on n wires = blocks of the first 2^n columns of a (m 2^n)-dim unitary."""
    dim = 2 ** d["n"]
    U = specs.param({"Udim": d["iso"], "d": dim * d["m"]})
    V = U[:, :dim]
    return [np.array(V[i * dim:(i + 1) * dim, :]) for i in range(d["m"])]


def _rho(d):
    dim = 2 ** d["n"]
    if d["pure"]:
        v = specs.vec_from_floats(d["fl"], d["n"])
        return np.outer(v, v.conj())
    H = specs.hermitian_from_floats(d["fl"], d["n"]) + 0.05 * np.eye(dim)
    R = H @ H.conj().T
    return R / np.trace(R).real


def build_op(s):
    import pennylane as qp

    nm = s["op"]
    ws = [specs.wire(w) for w in s.get("w", [])]
    if nm == "PauliError":
        return qp.PauliError(s["word"], s["p"][0], wires=ws)
    if nm == "QubitChannel":
        return qp.QubitChannel(_iso_kraus(s["K"]), wires=ws)
    if nm == "QubitDensityMatrix":
        return qp.QubitDensityMatrix(_rho(s["rho"]), wires=ws)
    if nm in kr.CHANNELS:
        return getattr(qp, nm)(*s["p"], wires=ws)
    return specs.build_op(s)


def build_meas(m):
    import pennylane as qp

    if (m.get("obs") or {}).get("op") == "SparseHamiltonian":
        from scipy.sparse import csr_matrix
        o = m["obs"]
        return qp.expval(qp.SparseHamiltonian(csr_matrix(specs.hermitian_from_floats(o["H"], len(o["w"]))), wires=[specs.wire(w) for w in o["w"]]))
    return specs.build_meas(m)


def build_tape(spec, ops=None):
    import pennylane as qp

    return qp.tape.QuantumScript([build_op(o) for o in (spec["ops"] if ops is None else ops)], [build_meas(m) for m in spec["meas"]])


def _strength(c):
    if c["op"] == "QubitChannel":
        return 1.0 if c["K"]["m"] > 1 else 0.0
    if c["op"] == "ThermalRelaxationError":
        return float(c["p"][3])
    if c["op"] == "ResetError":
        return float(c["p"][0] + c["p"][1])
    if c["op"] == "GeneralizedAmplitudeDamping":
        return float(c["p"][0])
    if c["op"] == "PauliError":
        return float(c["p"][0]) if set(c["word"]) - {"I"} else 0.0
    return float(c["p"][0])


def _sqrt_eps_endpoint(c):
    """Damping-type channels carry sqrt(1 - gamma + 1e-14) *linearly* in the coherences (pennylane.ops.channel.
    _SQRT_STABILITY_EPS); at gamma = 1 this leaves 1e-7 instead of 0. Everywhere else the effect is <= 1e-11."""
    return c["op"] in ("AmplitudeDamping", "PhaseDamping", "GeneralizedAmplitudeDamping") and 1.0 - float(c["p"][0]) < 1e-7


def _regime(c):
    if c["op"] != "ThermalRelaxationError":
        return "std"
    pe, t1, t2, tg = c["p"]
    a = "t2>t1" if t2 > t1 else "t2<=t1"
    return a + (",tg>4*t2" if tg > 4 * t2 else ",tg<=4*t2")


# ----------------------------------------------------------------------------------------------
# checks
# ----------------------------------------------------------------------------------------------

def _check_point(spec):
    c = spec["ch"]
    nm = c["op"]
    op = build_op(c)
    n = len(op.wires)
    feats = {"kind": "point", "channel": nm, "regime": _regime(c)}
    K = [np.asarray(to_np(k), dtype=complex) for k in op.kraus_matrices()]
    if not K:
        raise Viol("kraus-shape", f"{nm} empty Kraus list", sig=nm + ":shape", features=feats)
    for k in K:
        if k.shape != (2**n, 2**n):
            raise Viol("kraus-shape", f"{nm} {c} Kraus shape {k.shape} on {n} wires", sig=nm + ":shape", features=feats)
    S = kr.completeness(K)
    if not close(S, np.eye(2**n), 1e-10):
        raise Viol("kraus-complete", f"{nm} params={c.get('p')} {c.get('word', '')}: max|sum K^dag K - I| = {maxdiff(S, np.eye(2**n)):.3e}; sum={np.round(S, 12).tolist()}",
                   sig=nm + ":" + _regime(c), features=feats)
    if nm == "QubitChannel":
        ref = _iso_kraus(c["K"])
    else:
        ref = kr.channel_kraus(nm, [float(x) for x in c["p"]], {"operators": c.get("word")})
    A, B = kr.superop(K), kr.superop(ref)
    if not close(A, B, 2e-7 if _sqrt_eps_endpoint(c) else 1e-9):
        raise Viol("kraus-channel", f"{nm} params={c.get('p')} {c.get('word', '')}: superoperator differs from the documented channel by {maxdiff(A, B):.3e}",
                   sig=nm + ":" + _regime(c), features=feats)
    labels = ["point", "ch:" + nm, "regime:" + _regime(c)] if nm == "ThermalRelaxationError" else ["point", "ch:" + nm]
    if any(isinstance(x, int) for x in c.get("p", [])):
        labels.append("int-param")
    if any(x in (0.0, 1.0) for x in c.get("p", [])):
        labels.append("endpoint")
    return Result(_strength(c) > 0, labels=labels)


def _batch_of(ops):
    for o in ops:
        if o["op"] in gen.ALL_GATES:
            for p in o.get("p", []):
                if isinstance(p, list):
                    return len(p)
    return None


def _unbatch(ops, i):
    out = []
    for o in ops:
        if o["op"] in gen.ALL_GATES and any(isinstance(p, list) for p in o.get("p", [])):
            o = {**o, "p": [(p[i] if isinstance(p, list) else p) for p in o["p"]]}
        out.append(o)
    return out


def _to_interface(tape, interface):
    """Gate / channel parameters as tensors of the interface (matrix-valued channel data stays numpy)."""
    import pennylane as qp

    if interface == "numpy":
        return tape

    def conv(a):
        if interface == "autograd":
            return qp.numpy.array(a, requires_grad=True)
        if interface == "jax":
            import jax.numpy as jnp
            return jnp.array(a)
        import torch
        return torch.tensor(a)

    ops = []
    for op in tape.operations:
        if type(op).__name__ in ("QubitChannel", "QubitDensityMatrix", "BasisState") or not op.data or \
                any(np.asarray(p).dtype.kind not in "fc" for p in op.data):
            ops.append(op)
        else:
            ops.append(qp.ops.functions.bind_new_parameters(op, [conv(np.asarray(p)) for p in op.data]))
    return qp.tape.QuantumScript(ops, tape.measurements)


def _standard_order(tape):
    """Documented wire order of a device without wires (QuantumScript.map_to_standard_wires), see C26."""
    op_wires = []
    for op in tape.operations:
        for w in op.wires:
            if w not in op_wires:
                op_wires.append(w)
    meas_only = []
    for mp in tape.measurements:
        for w in mp.wires:
            if w not in op_wires and w not in meas_only:
                meas_only.append(w)
    n = len(op_wires)
    if set(op_wires) == set(range(n)) and all(isinstance(w, int) for w in op_wires):
        op_wires = list(range(n))
        if set(meas_only) == set(range(n, n + len(meas_only))):
            meas_only = sorted(meas_only)
    return op_wires + meas_only


def _leaf(o):
    return _leaf(o["base"]) if "base" in o else o["op"]


def _physical(rho, feats, what):
    d = rho.shape[0]
    if not close(rho, rho.conj().T, 1e-10):
        raise Viol("dm-hermitian", f"{what}: |rho - rho^dag| = {maxdiff(rho, rho.conj().T):.3e}", sig="hermitian", features=feats)
    tr = np.trace(rho)
    if abs(tr - 1) > 1e-9:
        raise Viol("dm-trace", f"{what}: trace = {tr}", sig="trace", features=feats)
    ev = np.linalg.eigvalsh((rho + rho.conj().T) / 2)
    if ev.min() < -1e-10:
        raise Viol("dm-psd", f"{what}: min eigenvalue {ev.min():.3e} (dim {d})", sig="psd", features=feats)


def _check_circuit(spec):
    import pennylane as qp

    tape = build_tape(spec)
    dev_wires = [specs.wire(w) for w in spec["dev_wires"]] if spec.get("dev_wires") else None
    for m in tape.measurements:
        if type(m).__name__ == "MutualInfoMP" and set(m.raw_wires[0]) & set(m.raw_wires[1]):
            raise Reject("mutual_info overlapping")
    kw = {}
    if spec["kind"] == "readout":
        kw["readout_prob"] = spec["readout_prob"]
    dev = qp.device("default.mixed", wires=dev_wires, **kw) if dev_wires else qp.device("default.mixed", **kw)
    batch = _batch_of(spec["ops"])
    chans = [o["op"] for o in spec["ops"] if o["op"] in kr.CHANNELS]
    qdm = any(o["op"] == "QubitDensityMatrix" for o in spec["ops"])
    csr = any((m.get("obs") or {}).get("op") in ("lincomb", "SparseHamiltonian") for m in spec["meas"])
    feats = {"kind": spec["kind"], "interface": spec["interface"], "channels": sorted(set(chans)), "qdm": qdm, "batch": batch,
             "batch1_csr_obs": bool(batch == 1 and csr)}
    if dev_wires:
        order = list(dev_wires)
    else:
        # a device without wires orders the state by the wires of the tape it finally simulates (after its own decomposition)
        (pt,), _ = dev.preprocess()[0]([tape])
        if set(pt.wires) != set(tape.wires):
            raise Reject("device without wires: decomposition dropped a wire (state size not documented)")
        order = _standard_order(pt)
    itape = _to_interface(tape, spec["interface"])
    try:
        res = qp.execute([itape], dev, interface=None if spec["interface"] == "numpy" else spec["interface"])[0]
    except Exception as e:  # noqa: BLE001  every generated circuit is documented-valid: any exception is a finding
        tag = f"{type(e).__name__}:{spec['kind']}" + (":batch1" if batch == 1 else "")
        raise Viol("unexpected-exception", f"{type(e).__name__}: {str(e)[:300]} ops={spec['ops']} meas={spec['meas']} dev_wires={spec.get('dev_wires')} interface={spec['interface']}",
                   sig=tag, features={**feats, "exc": type(e).__name__}) from e
    res = to_np(res)
    if len(tape.measurements) == 1:
        res = (res,)
    tol = 1e-8 + 2e-7 * sum(1 for o in spec["ops"] if o["op"] in kr.CHANNELS and _sqrt_eps_endpoint(o))
    refs = []
    for i in range(batch or 1):
        t_i = build_tape(spec, _unbatch(spec["ops"], i) if batch else spec["ops"])
        rho = kr.run_ops(t_i.operations, order)
        if spec["kind"] == "readout":
            refs.append(tuple(_readout_ref(rho, mp, order, float(spec["readout_prob"])) for mp in t_i.measurements))
        else:
            refs.append(tuple(kr.measure(rho, mp, order) for mp in t_i.measurements))
    for j, mp in enumerate(tape.measurements):
        got = np.asarray(res[j])
        exp = np.stack([np.asarray(r[j]) for r in refs]) if batch else np.asarray(refs[0][j])
        mname = type(mp).__name__
        if got.shape != exp.shape:
            raise Viol("result-shape", f"{mname} got {got.shape} expected {exp.shape} batch={batch} ops={spec['ops']}",
                       sig=mname + ":shape" + (":batch1" if batch == 1 else ""), features=feats)
        if mname == "StateMP":
            for b, r in enumerate(got if batch else [got]):
                _physical(r, feats, f"final density matrix (batch {b}) ops={spec['ops']}")
        if not close(got, exp, tol):
            raise Viol("result-value", f"{spec['kind']} {spec['meas'][j]} diff={maxdiff(got, exp)} interface={spec['interface']} dev_wires={spec.get('dev_wires')} ops={spec['ops']}",
                       sig=mname + ":" + spec["kind"] + (":qdm" if qdm else ""), features=feats)
    # non-trivial: a non-zero-strength channel somewhere after an entangling gate
    seen_ent = False
    nt = False
    for o in spec["ops"]:
        if _leaf(o) in ENT:
            seen_ent = True
        elif o["op"] in kr.CHANNELS and seen_ent and _strength(o) > 0:
            nt = True
    labels = [spec["kind"], "iface:" + spec["interface"], "devw:" + ("given" if dev_wires else "none")] + \
             ["mp:" + m["mp"] + (":" + m["obs"]["op"] if m.get("obs") and m["mp"] == "expval" else "") for m in spec["meas"]] + ["ch:" + c for c in chans] + (["batched"] if batch else []) + \
             [o["op"] for o in spec["ops"] if o["op"] in ("QubitDensityMatrix", "StatePrep", "BasisState")]
    return Result(nt, labels=labels)


def _readout_ref(rho, mp, order, p):
    """Readout error: rotate to the measurement basis, flip each measured wire with probability p."""
    n = len(order)
    r = np.asarray(rho).reshape((2,) * (2 * n))
    wires = list(mp.wires)
    if mp.obs is not None:
        for g in mp.obs.diagonalizing_gates():
            r = kr.apply_kraus(r, [sim.op_matrix(g)], [order.index(w) for w in g.wires], n)
    for w in wires:
        r = kr.apply_kraus(r, kr.channel_kraus("BitFlip", [p]), [order.index(w)], n)
    pr = kr.probs(r.reshape(2**n, 2**n), order, wires)
    if type(mp).__name__ == "ProbabilityMP":
        return pr
    # expval of a Pauli word: eigenvalue of bitstring b is (-1)^{|b|}
    signs = np.array([(-1) ** bin(i).count("1") for i in range(len(pr))])
    return float(pr @ signs)


def check(spec):
    if spec["kind"] == "point":
        return _check_point(spec)
    return _check_circuit(spec)


def selftest():
    sim.selftest()
    kr.selftest()
