"""C32 — result structure depends only on the request."""
import numpy as np
from hypothesis import strategies as st

from pv.engine import Reject, Result, Viol

ID = "C32"
TECHNIQUE = ("hypothesis-generated requests (measurement lists, shots / shot vectors, broadcast size, tape batches) x devices x interfaces x "
             "diff methods; oracle = a small shape model written from the 'Return Type Specification' document")
RULE = (
    "A request = 1-3 tapes on 1-3 wires, each with 1-4 measurements from expval / var / probs(wires) / sample(wires) / sample(obs) / "
    "counts / state / density_matrix(wires) (state-like only analytic, sample/counts only with shots), shots in {None, int, shot vector "
    "incl. repeated entries}, an optional broadcast gate parameter of size 1 or 3. Entry points: qp.execute(batch, device, diff_method, "
    "interface) and QNode calls (also under jax.jit) on default.qubit / default.mixed / reference.qubit / null.qubit with interfaces "
    "numpy / autograd / jax / torch and diff methods None / backprop / parameter-shift / adjoint / finite-diff where the combination is "
    "accepted; Jacobians of QNodes (jax.jacobian, torch functional jacobian, qp.jacobian) with 1-2 scalar / vector arguments, analytic and "
    "with shots / shot vectors (parameter-shift, finite-diff); gradient transforms param_shift / finite_diff / spsa_grad / hadamard_grad "
    "applied to tapes. Oracle: the model nests tape -> shot copy -> measurement (a single measurement is unwrapped, a shot vector adds a "
    "tuple, a batch is always a tuple; tuple and list are interchangeable) and gives every leaf the shape (broadcast,) + measurement shape "
    "(+ argument shape for Jacobians); counts are dictionaries. The observed nesting and leaf shapes must equal the model exactly. "
    "Non-trivial: >= 2 measurements, a shot vector, a batch of >= 2 tapes or a broadcast parameter."
)
ASSUMPTIONS = [
    "qp.state() on default.mixed returns the density matrix (documented for that device): leaf (2^n, 2^n) instead of (2^n,).",
    "With a broadcast parameter, counts are a sequence of `batch` dictionaries (the document allows list or object array).",
    "Device wires are declared as 0..n-1 and every wire is acted on, so that wire-less measurements have a defined size.",
    "Combinations rejected with DeviceError / QuantumFunctionError / the documented ValueErrors of gradient transforms are not compared.",
]
BUDGET = {"quick": {"examples": 330, "min_nontrivial": 60}, "thorough": {"examples": 5000, "shards": 8, "min_nontrivial": 1500}}
SHRINK_LISTS = ("tapes", "meas", "ops")

DEVICES = ["default.qubit", "default.qubit", "default.mixed", "reference.qubit", "null.qubit"]
_ang = st.floats(-1.5, 1.5, allow_nan=False).map(lambda x: round(x, 3))


# ------------------------------------------------------------------------------------------------ strategies

@st.composite
def _tape(draw, allow_batch=True, kinds=None, trainable=False):
    n = draw(st.integers(1, 3))
    shots = draw(st.sampled_from([None, None, 7, 12, [5, 7], [4, 4, 9], [[6, 2]], [3, [5, 2]]]))
    B = draw(st.sampled_from([None, None, None, 1, 3])) if allow_batch else None
    ops = [{"g": "RY", "w": [w], "p": round(0.4 + 0.3 * w, 2)} for w in range(n)]
    for _ in range(draw(st.integers(0, 3))):
        g = draw(st.sampled_from(["RX", "RZ", "CNOT", "Hadamard", "CRY"] if n > 1 else ["RX", "RZ", "Hadamard"]))
        k = 2 if g in ("CNOT", "CRY") else 1
        ws = list(draw(st.permutations(range(n))))[:k]
        ops.append({"g": g, "w": ws, "p": draw(_ang) if g in ("RX", "RZ", "CRY") else None})
    par_ix = [i for i, o in enumerate(ops) if o["p"] is not None]
    bix = draw(st.sampled_from(par_ix)) if B is not None else None
    avail = kinds or (["expval", "var", "probs", "state", "density_matrix"] if shots is None else ["expval", "var", "probs", "sample", "sample_obs", "counts"])
    meas = []
    for _ in range(draw(st.sampled_from([1, 1, 2, 2, 3, 4]))):
        k = draw(st.sampled_from(avail))
        ws = sorted(list(draw(st.permutations(range(n))))[:draw(st.integers(1, n))])
        if k in ("expval", "var", "sample_obs"):
            meas.append({"k": k, "obs": draw(st.sampled_from(["X", "Y", "Z"])), "w": ws[:1]})
        elif k == "state":
            meas.append({"k": k})
        elif k == "counts":
            meas.append({"k": k, "w": draw(st.sampled_from([ws, None]))})
        else:
            meas.append({"k": k, "w": ws})
    return {"n": n, "shots": shots, "B": B, "bix": bix, "ops": ops, "meas": meas}


@st.composite
def _execute_case(draw, tier):
    tapes = draw(st.lists(_tape(), min_size=1, max_size=3))
    return {"kind": "execute", "tapes": tapes, "dev": draw(st.sampled_from(DEVICES)),
            "iface": draw(st.sampled_from([None, None, "autograd", "jax", "torch"])),
            "dm": draw(st.sampled_from([None, None, "parameter-shift", "backprop", "finite-diff", "adjoint"]))}


@st.composite
def _qnode_case(draw, tier):
    t = draw(_tape())
    iface = draw(st.sampled_from([None, "auto", "autograd", "jax", "torch", "jax-jit"] if tier == "thorough" else [None, "auto", "autograd", "autograd", "jax", "jax", "torch", "torch"] + ["jax-jit"] * 1))
    return {"kind": "qnode", "tapes": [t], "dev": draw(st.sampled_from(DEVICES)), "iface": iface,
            "dm": draw(st.sampled_from(["best", "parameter-shift", "backprop", "finite-diff", "adjoint", None]))}


@st.composite
def _jac_case(draw, tier):
    iface = draw(st.sampled_from(["jax", "jax", "torch", "torch", "autograd"]))
    t = draw(_tape(allow_batch=False, kinds=["expval", "expval", "var", "probs"]))
    if iface == "autograd":
        t["meas"] = t["meas"][:1]
    if t["shots"] is None:
        dm = draw(st.sampled_from(["backprop", "parameter-shift", "adjoint", "finite-diff"]))
    else:
        dm = draw(st.sampled_from(["parameter-shift", "finite-diff"]))
    if dm == "adjoint":
        for m in t["meas"]:
            m.update(k="expval", obs=m.get("obs", "Z"), w=(m.get("w") or [0])[:1])
    args = draw(st.lists(st.sampled_from([[], [], [2]]), min_size=1, max_size=2))
    return {"kind": "jacobian", "tapes": [t], "dev": draw(st.sampled_from(["default.qubit", "default.qubit", "null.qubit", "reference.qubit", "default.mixed"])),
            "iface": iface, "dm": dm, "args": args}


@st.composite
def _transform_case(draw, tier):
    t = draw(_tape(allow_batch=False, kinds=["expval", "expval", "var", "probs"]))
    tr = draw(st.sampled_from(["param_shift", "param_shift", "finite_diff", "spsa_grad", "hadamard_grad"]))
    if tr == "hadamard_grad":
        for m in t["meas"]:
            if m["k"] == "var":
                m["k"] = "expval"
    par_ix = [i for i, o in enumerate(t["ops"]) if o["p"] is not None]
    train = sorted(draw(st.lists(st.sampled_from(par_ix), min_size=1, max_size=len(par_ix), unique=True)))
    return {"kind": "transform", "tapes": [t], "dev": draw(st.sampled_from(["default.qubit", "null.qubit", "reference.qubit", "default.mixed"])),
            "transform": tr, "train": train, "broadcast": draw(st.booleans()) if tr == "param_shift" else False}


def strategy(tier):
    return st.integers(0, 9).flatmap(lambda i: _execute_case(tier) if i < 3 else _qnode_case(tier) if i < 6 else _jac_case(tier) if i < 8 else _transform_case(tier))


# ------------------------------------------------------------------------------------------------ the shape model

def copies(shots):
    """None if no shot vector, else the list of shot numbers of the copies."""
    if shots is None or isinstance(shots, int):
        return None
    out = []
    for s in shots:
        out += [s[0]] * s[1] if isinstance(s, list) else [s]
    return out


def leaf_shape(m, n, shots, mixed):
    k = m["k"]
    if k in ("expval", "var"):
        return ()
    if k == "probs":
        return (2 ** len(m["w"]),)
    if k == "sample":
        return (shots, len(m["w"]))
    if k == "sample_obs":
        return (shots,)
    if k == "state":
        return (2**n, 2**n) if mixed else (2**n,)
    if k == "density_matrix":
        return (2 ** len(m["w"]),) * 2
    if k == "counts":
        return "dict"
    raise ValueError(k)


def model_tape(t, mixed, extra=()):
    """Expected structure of one tape's result: nested lists (tuples) with shape tuples / 'dict' / ('dicts', B) leaves."""
    def one(shots):
        out = []
        for m in t["meas"]:
            s = leaf_shape(m, t["n"], shots, mixed)
            if s == "dict":
                out.append(("dicts", t["B"]) if t["B"] is not None else "dict")
            else:
                out.append(((t["B"],) if t["B"] is not None else ()) + s + tuple(extra))
        return out[0] if len(out) == 1 else out
    cs = copies(t["shots"])
    if cs is None:
        return one(t["shots"])
    return [one(s) for s in cs]


def observed(r):
    """Structure of an actual result in the same vocabulary."""
    if isinstance(r, dict):
        return "dict"
    if isinstance(r, (tuple, list)):
        if len(r) and all(isinstance(x, dict) for x in r):
            return ("dicts", len(r))
        return [observed(x) for x in r]
    if isinstance(r, np.ndarray) and r.dtype == object:
        if r.ndim == 1 and all(isinstance(x, dict) for x in r):
            return ("dicts", len(r))
        return ("object-array", r.shape)
    if hasattr(r, "shape"):
        return tuple(int(x) for x in r.shape)
    return tuple(np.shape(r))


def _norm(a):
    """('dicts', k) and a k-list of 'dict' are the same structure (a sequence of k dictionaries)."""
    if isinstance(a, tuple) and len(a) == 2 and a[0] == "dicts":
        return ["dict"] * a[1]
    if isinstance(a, list):
        return [_norm(x) for x in a]
    return a


def _eq(a, b):
    a, b = _norm(a), _norm(b)
    if isinstance(a, list) != isinstance(b, list):
        return False
    if isinstance(a, list):
        return len(a) == len(b) and all(_eq(x, y) for x, y in zip(a, b))
    return a == b


# ------------------------------------------------------------------------------------------------ building

def _build(t, params=None, B_iface=None):
    import pennylane as qp

    ops = []
    vals = iter(params) if params is not None else None
    for i, o in enumerate(t["ops"]):
        if o["p"] is None:
            ops.append(getattr(qp, o["g"])(wires=o["w"]))
            continue
        p = o["p"]
        if t["B"] is not None and i == t["bix"]:
            p = np.array([o["p"] + 0.1 * j for j in range(t["B"])])
            if B_iface is not None:
                p = B_iface(p)
        elif vals is not None:
            p = next(vals, p)
        ops.append(getattr(qp, o["g"])(p, wires=o["w"]))
    return ops, [_meas(m) for m in t["meas"]]


def _meas(m):
    import pennylane as qp

    k = m["k"]
    obs = getattr(qp, m["obs"])(m["w"][0]) if "obs" in m else None
    if k == "expval":
        return qp.expval(obs)
    if k == "var":
        return qp.var(obs)
    if k == "probs":
        return qp.probs(wires=m["w"])
    if k == "sample":
        return qp.sample(wires=m["w"])
    if k == "sample_obs":
        return qp.sample(obs)
    if k == "state":
        return qp.state()
    if k == "density_matrix":
        return qp.density_matrix(wires=m["w"])
    if k == "counts":
        return qp.counts(wires=m["w"]) if m["w"] is not None else qp.counts()
    raise ValueError(k)


def _shots(s):
    if isinstance(s, list):
        return tuple(tuple(x) if isinstance(x, list) else x for x in s)
    return s


_REJECT_TYPES = ("DeviceError", "QuantumFunctionError", "WireError", "DecompositionUndefinedError")
_REJECT_MSG = ["Gradient transforms cannot be used with grad_on_execution=True", "Computing the gradient of", "not supported", "does not support",
               "Can't JIT", "require an auxiliary wire", "requires an auxiliary wire", "only supported", "Cannot differentiate", "is not supported"]


def _reject(e):
    name = type(e).__name__
    msg = str(e)
    if name in _REJECT_TYPES:
        return name
    if name in ("ValueError", "NotImplementedError", "TypeError") and any(p in msg for p in _REJECT_MSG):
        return f"{name}: documented"
    if name in ("XlaRuntimeError", "JaxRuntimeError") and any(p in msg for p in _REJECT_MSG + list(_REJECT_TYPES)):
        return "jit: documented"
    return None


def _raise(e, feats):
    """Documented rejection -> Reject; other exceptions of the code under test -> violation with features."""
    from pv.engine import _origin

    if _reject(e):
        raise Reject(_reject(e)[:60]) from None
    if type(e).__name__ in ("XlaRuntimeError", "JaxRuntimeError") and "Incorrect output dtype" in str(e):
        raise Reject("jit callback: dtype differs from the declared one (dtype is outside this property)") from None
    if type(e).__name__ in ("XlaRuntimeError", "JaxRuntimeError") and "Incorrect output shape" in str(e):
        # under jax.jit the result shapes are declared up front from the request; a device returning another shape fails here
        msg = [ln for ln in str(e).splitlines() if "Incorrect output shape" in ln][-1]
        raise Viol("structure", f"jit callback: {msg.strip()}", sig="jit-callback-shape", features=dict(feats, batch1_shots=bool(feats.get("batch1")))) from None
    origin, where = _origin(e.__traceback__)
    if origin != "sut":
        raise e
    f = dict(feats, exc=type(e).__name__, where=where,
             adjoint_no_obs_measurement=feats.get("dm") == "adjoint" and "expected 'arg_specs' dtype" in str(e))
    raise Viol("unexpected-exception", f"{type(e).__name__}: {e}"[:500], sig=f"{type(e).__name__}@{where}", features=f) from None


def _labels(spec):
    out = [spec["kind"], "dev:" + spec["dev"]]
    for t in spec["tapes"]:
        out.append("shots:" + ("none" if t["shots"] is None else "int" if isinstance(t["shots"], int) else "vector"))
        if t["B"] is not None:
            out.append(f"batch={t['B']}")
        out += ["meas:" + m["k"] for m in t["meas"]]
    out.append(f"tapes={len(spec['tapes'])}")
    return sorted(set(out))


def _nontrivial(spec):
    return len(spec["tapes"]) >= 2 or any(len(t["meas"]) >= 2 or copies(t["shots"]) is not None or t["B"] is not None for t in spec["tapes"])


def _device(spec, n):
    import pennylane as qp

    return qp.device(spec["dev"], wires=n)


def _conv(iface):
    if iface in ("jax", "jax-jit"):
        import jax.numpy as jnp
        return jnp.array
    if iface == "torch":
        import torch
        return lambda v: torch.tensor(v, dtype=torch.float64, requires_grad=True)
    if iface == "autograd":
        from pennylane import numpy as pnp
        return lambda v: pnp.array(v, requires_grad=True)
    return None


def _fail(spec, sig, exp, got, feats):
    # known class: samples of a broadcast tape with batch size one lose the batch axis in expval / var / probs post-processing
    b1 = any(t["B"] == 1 and t["shots"] is not None and any(m["k"] in ("expval", "var", "probs", "counts") for m in t["meas"]) for t in spec["tapes"])
    raise Viol("structure", f"{sig}: expected {exp}, observed {got}", sig=sig, features=dict(feats, batch1_shots=b1))


# ------------------------------------------------------------------------------------------------ kinds

def _check_execute(spec):
    import pennylane as qp

    n = max(t["n"] for t in spec["tapes"])
    dev = _device(spec, n)
    mixed = spec["dev"] == "default.mixed"
    conv = _conv(spec["iface"])
    tapes = []
    for t in spec["tapes"]:
        ops, ms = _build(t, B_iface=conv)
        tapes.append(qp.tape.QuantumScript(ops, ms, shots=_shots(t["shots"])))
    feats = {"kind": "execute", "dev": spec["dev"], "iface": spec["iface"], "dm": spec["dm"]}
    try:
        res = qp.execute(tapes, dev, diff_method=spec["dm"], interface=spec["iface"])
    except Exception as e:  # noqa: BLE001
        _raise(e, feats)
    exp = [model_tape(dict(t, n=n if any(m["k"] == "state" for m in t["meas"]) else t["n"]), mixed) for t in spec["tapes"]]
    got = observed(res)
    if not _eq(exp, got):
        _fail(spec, f"execute:{spec['dev']}:{spec['iface']}:{spec['dm']}", exp, got, feats)
    return Result(_nontrivial(spec), _labels(spec) + [f"iface:{spec['iface']}", f"dm:{spec['dm']}"])


def _check_qnode(spec):
    import pennylane as qp

    t = spec["tapes"][0]
    dev = _device(spec, t["n"])
    mixed = spec["dev"] == "default.mixed"
    iface = spec["iface"]
    jit = iface == "jax-jit"
    if jit and any(m["k"] == "counts" for m in t["meas"]):
        raise Reject("counts cannot be returned from a jitted function (documented)")
    conv = _conv(iface) if iface not in (None, "auto") else None
    pvals = [o["p"] for o in t["ops"] if o["p"] is not None]

    def func(*params):
        ops, ms = _build(t, params=params, B_iface=conv)
        return ms[0] if len(ms) == 1 else tuple(ms)

    kw = {"diff_method": spec["dm"]}
    if iface != "auto":
        kw["interface"] = "jax" if jit else iface
    feats = {"kind": "qnode", "dev": spec["dev"], "iface": iface, "dm": spec["dm"], "batch1": t["B"] == 1 and t["shots"] is not None}
    try:
        qn = qp.set_shots(qp.QNode(func, dev, **kw), shots=_shots(t["shots"]))
        args = [conv(p) if conv else p for p in pvals]
        if jit:
            import jax
            res = jax.jit(qn)(*args)
        else:
            res = qn(*args)
    except Exception as e:  # noqa: BLE001
        _raise(e, feats)
    exp = model_tape(t, mixed)
    got = observed(res)
    if not _eq(exp, got):
        _fail(spec, f"qnode:{spec['dev']}:{iface}:{spec['dm']}", exp, got, feats)
    return Result(_nontrivial(spec), _labels(spec) + [f"iface:{iface}", f"dm:{spec['dm']}"])


def _check_jacobian(spec):
    import pennylane as qp

    t = spec["tapes"][0]
    dev = _device(spec, t["n"])
    iface, dm = spec["iface"], spec["dm"]
    conv = _conv(iface)
    ashapes = [tuple(a) for a in spec["args"]]
    par_ix = [i for i, o in enumerate(t["ops"]) if o["p"] is not None]

    def func(*args):
        flat = []
        for a, shp in zip(args, ashapes):
            flat += [a] if not shp else [a[j] for j in range(shp[0])]
        params = [flat[i % len(flat)] * (1.0 + 0.1 * i) for i in range(len(par_ix))]
        ops, ms = _build(t, params=params)
        return ms[0] if len(ms) == 1 else tuple(ms)

    feats = {"kind": "jacobian", "dev": spec["dev"], "iface": iface, "dm": dm}
    args = [conv(np.array([0.3, 0.7][:s[0]])) if s else conv(0.45) for s in ashapes]
    try:
        qn = qp.set_shots(qp.QNode(func, dev, interface=iface, diff_method=dm), shots=_shots(t["shots"]))
        if iface == "jax":
            import jax
            J = jax.jacobian(qn, argnums=tuple(range(len(args))))(*args)
        elif iface == "torch":
            import torch
            if copies(t["shots"]) is not None and len(t["meas"]) > 1:
                raise Reject("torch.autograd.functional.jacobian does not accept nested tuples of outputs")
            J = torch.autograd.functional.jacobian(qn, tuple(args))
        else:
            if copies(t["shots"]) is not None:
                raise Reject("autograd cannot differentiate tuple-valued QNodes (documented: stack the outputs)")
            J = qp.jacobian(qn, argnums=list(range(len(args))))(*args)
            J = J if isinstance(J, tuple) else (J,)
    except Reject:
        raise
    except Exception as e:  # noqa: BLE001
        _raise(e, feats)

    def with_args(shape):
        return [tuple(shape) + a for a in ashapes]

    def per_meas(shots):
        out = [with_args(leaf_shape(m, t["n"], shots, False)) for m in t["meas"]]
        return out[0] if len(out) == 1 else out
    cs = copies(t["shots"])
    exp = per_meas(t["shots"]) if cs is None else [per_meas(s) for s in cs]
    got = observed(J)
    if not _eq(exp, got):
        _fail(spec, f"jacobian:{spec['dev']}:{iface}:{dm}", exp, got, feats)
    return Result(True, _labels(spec) + [f"iface:{iface}", f"dm:{dm}", f"args={len(ashapes)}"])


def _check_transform(spec):
    import pennylane as qp

    t = spec["tapes"][0]
    dev = _device(spec, t["n"] + 1)
    ops, ms = _build(t)
    # tape parameter index of each parametrised op
    pidx, k = {}, 0
    for i, o in enumerate(t["ops"]):
        if o["p"] is not None:
            pidx[i] = k
            k += 1
    tape = qp.tape.QuantumScript(ops, ms, shots=_shots(t["shots"]), trainable_params=[pidx[i] for i in spec["train"]])
    tr = spec["transform"]
    feats = {"kind": "transform", "dev": spec["dev"], "transform": tr,
             "hadamard_probs_shot_vector": tr == "hadamard_grad" and copies(t["shots"]) is not None and any(m["k"] == "probs" for m in t["meas"])}
    kw = {}
    if tr == "param_shift" and spec["broadcast"]:
        kw["broadcast"] = True
    if tr == "spsa_grad":
        kw["sampler_rng"] = 7
    if tr == "hadamard_grad":
        kw["aux_wire"] = t["n"]
    try:
        g_tapes, fn = getattr(qp.gradients, tr)(tape, **kw)
        res = qp.execute(g_tapes, dev, diff_method=None) if len(g_tapes) else ()
        J = fn(res)
    except Exception as e:  # noqa: BLE001
        _raise(e, feats)
    npar = len(spec["train"])

    def per_meas(shots):
        out = []
        for m in t["meas"]:
            s = leaf_shape(m, t["n"], shots, False)
            out.append(s if npar == 1 else [s] * npar)
        return out[0] if len(out) == 1 else out
    cs = copies(t["shots"])
    exp = per_meas(t["shots"]) if cs is None else [per_meas(s) for s in cs]
    got = observed(J)
    if not _eq(exp, got):
        _fail(spec, f"transform:{tr}:{spec['dev']}", exp, got, feats)
    return Result(True, _labels(spec) + [f"transform:{tr}", f"params={npar}"])


def check(spec):
    for t in spec["tapes"]:
        npar = [i for i, o in enumerate(t["ops"]) if o["p"] is not None]
        if not t["meas"] or len(t["ops"]) < t["n"] or (t["bix"] is not None and (t["bix"] >= len(t["ops"]) or t["ops"][t["bix"]]["p"] is None)):
            raise Reject("inconsistent request (shrinking artefact)")
        if spec["kind"] == "transform" and not set(spec["train"]) <= set(npar):
            raise Reject("inconsistent request (shrinking artefact)")
    if spec["kind"] in ("qnode", "jacobian") and spec["iface"] in ("jax", "jax-jit"):
        import jax
        try:
            jax.config.update("jax_cpu_enable_async_dispatch", False)
        except Exception:  # noqa: BLE001
            pass
    return {"execute": _check_execute, "qnode": _check_qnode, "jacobian": _check_jacobian, "transform": _check_transform}[spec["kind"]](spec)


def selftest():
    # the document's own examples
    t = {"n": 1, "shots": [1, 100, 1000], "B": 3, "bix": 0, "meas": [{"k": "expval", "obs": "Z", "w": [0]}, {"k": "probs", "w": [0]}, {"k": "counts", "w": None}]}
    assert model_tape(t, False) == [[(3,), (3, 2), ("dicts", 3)]] * 3
    t = {"n": 1, "shots": None, "B": None, "bix": None, "meas": [{"k": "expval", "obs": "Z", "w": [0]}, {"k": "probs", "w": [0]}, {"k": "state"}]}
    assert model_tape(t, False) == [(), (2,), (2,)]
    assert model_tape(dict(t, meas=t["meas"][1:2]), False) == (2,)
    assert copies([3, [5, 2]]) == [3, 5, 5] and copies(7) is None
    assert observed((np.float64(1.0), np.array([1.0, 0.0]), [{"0": 1}, {"1": 1}])) == [(), (2,), ("dicts", 2)]
    assert _eq([(), [(2,), "dict"]], [(), [(2,), "dict"]]) and not _eq([()], ())
