"""C56 — arithmetic templates compute their documented classical functions on every basis input of their domain."""
from math import gcd

import numpy as np
from hypothesis import strategies as st

from pv.engine import Reject, Result, Viol
from pv.ref import flatten as F
from pv.ref import sim

ID = "C56"
TECHNIQUE = ("hypothesis-generated template instances (register sizes, moduli, constants, polynomials, wire layouts) x exhaustive "
             "enumeration of the documented basis-input domain; classical Python model of the docstring formula compared with an "
             "independent state-vector simulation of the fully decomposed circuit")
RULE = (
    "Instances of Adder, PhaseAdder, SemiAdder, OutAdder, Multiplier, OutMultiplier, SignedOutMultiplier, ModExp, OutSquare, "
    "SignedOutSquare, OutPoly, IntegerComparator, Incrementer, TemporaryAND, QubitSum, QubitCarry with register sizes 1-3 (quick; "
    "<= 11 wires incl. work wires) / 1-4 (thorough), moduli incl. non powers of two, constants incl. negative and >= mod, random "
    "integer polynomials, optional / surplus / dynamically allocated work wires, int/str wire labels in random order. For each "
    "instance EVERY basis input of the documented domain (register values < mod, zeroed work wires, zeroed output when "
    "output_wires_zeroed, TemporaryAND target |0>; PhaseAdder in the Fourier basis) is pushed through (a) op.decomposition() and "
    "(b) every registered rule that reports itself applicable (qp.list_decomps), each expanded recursively with op.decomposition() "
    "down to table gates and simulated by pv.ref.sim (all inputs as one batch; a generic-amplitude superposition over the whole "
    "domain when 2^n*|domain| is too large), (c) op.matrix() where defined and (d) default.qubit on a generic superposition over "
    "the domain. Oracle: output == |documented classical function> computed with Python ints (two's complement for the signed "
    "variants) with amplitude exactly 1, all other registers unchanged, user and dynamically allocated work wires back in |0>; "
    "matrix columns == decomposition columns on the domain. Non-trivial: some domain input wraps around the modulus / carries / "
    "flips the target."
)
ASSUMPTIONS = [
    "Documented preconditions define the domain: x,y,b < mod; PhaseAdder additionally x < 2^(n-1) when mod != 2^n; Multiplier/ModExp "
    "k, base coprime to mod; work wires start in |0>; TemporaryAND target starts in |0>; output register |0> when output_wires_zeroed.",
    "mod >= 2; a rule is only exercised when rule.is_applicable(**resource_params) holds (work-wire count conditions).",
    "Leaves of the recursive decomposition are closed-form table gates and Adjoint/Pow/Controlled wrappers of them, evaluated "
    "structurally by the reference simulator; PennyLane matrices are never used on the reference side.",
]
BUDGET = {"quick": {"examples": 200}, "thorough": {"examples": 2500, "shards": 16}}
SHRINK_LISTS = ()
TOL = 1e-7

POOLS = [list(range(16)), list("abcdefghijklmnop"), [3, "x", 0, "q1", 7, 2, "w", 11, "aux", 5, "b", 9, 1, "c", 4, "z"]]
NAMES = ["Adder", "PhaseAdder", "SemiAdder", "OutAdder", "Multiplier", "OutMultiplier", "SignedOutMultiplier", "ModExp",
         "OutSquare", "SignedOutSquare", "OutPoly", "IntegerComparator", "Incrementer", "TemporaryAND", "QubitSum", "QubitCarry"]


# ---------------------------------------------------------------------------------------------
# generators (spec = {"t": name, "r": {register: [wire...]}, "a": {argument: value}})
# ---------------------------------------------------------------------------------------------

def _pool():
    return st.sampled_from(POOLS).flatmap(st.permutations).map(list)


def _split(pool, sizes):
    out, i = {}, 0
    for k, n in sizes:
        out[k] = pool[i:i + n]
        i += n
    return out


def _mod(nbits, p_pow2=0.35):
    """modulus in [2, 2^nbits], biased to the maximum and to 2^nbits - 1."""
    top = 2**nbits
    if top == 2:
        return st.just(2)
    return st.one_of(st.just(top), st.just(top - 1), st.integers(2, top), st.integers(2, top))


def _const(mod):
    return st.one_of(st.integers(0, mod - 1), st.integers(-2 * mod - 1, 3 * mod + 1), st.sampled_from([0, 1, -1, mod, mod - 1, mod + 1]))


@st.composite
def _adder(draw, name, S):
    pool = draw(_pool())
    n = draw(st.sampled_from([1] + 2 * list(range(2, S + (2 if name == "PhaseAdder" else 1)))))
    if name == "PhaseAdder":
        # documented: when mod != 2^n one extra wire is needed, i.e. mod <= 2^(n-1)
        mod = draw(st.one_of(st.just(2**n), _mod(n - 1))) if n > 1 else 2
    else:
        mod = draw(_mod(n))
    k = draw(_const(mod))
    if name == "Adder":
        nw = 2 if mod != 2**n else draw(st.sampled_from([0, 0, 2]))
        r = _split(pool, [("x_wires", n), ("work_wires", nw)])
    else:
        nw = 1 if mod != 2**n else draw(st.sampled_from([0, 0, 1]))
        r = _split(pool, [("x_wires", n), ("work_wire", nw)])
    return {"t": name, "r": r, "a": {"k": k, "mod": draw(st.sampled_from([mod, None])) if mod == 2**n else mod}}


@st.composite
def _semi_adder(draw, S):
    pool = draw(_pool())
    n, m = draw(st.integers(1, S)), draw(st.integers(1, S + 1))
    nw = draw(st.sampled_from([0, max(m - 1, 0), max(m - 1, 0), max(m - 2, 0), m]))
    return {"t": "SemiAdder", "r": _split(pool, [("x_wires", n), ("y_wires", m), ("work_wires", nw)]), "a": {}}


@st.composite
def _out_adder(draw, S):
    pool = draw(_pool())
    n, m, k = draw(st.integers(1, S)), draw(st.integers(1, S)), draw(st.integers(1, S))
    mod = draw(_mod(k))
    nw = 2 if mod != 2**k else draw(st.sampled_from([0, 0, 2]))
    r = _split(pool, [("x_wires", n), ("y_wires", m), ("output_wires", k), ("work_wires", nw)])
    return {"t": "OutAdder", "r": r, "a": {"mod": draw(st.sampled_from([mod, None])) if mod == 2**k else mod}}


@st.composite
def _multiplier(draw, S):
    pool = draw(_pool())
    n = draw(st.sampled_from([1, 2] + 3 * list(range(3, S + 1))))
    mod = draw(st.one_of(_mod(n), st.sampled_from([m for m in (5, 7, 9, 11, 13) if m < 2**n] or [2**n])))
    units = [v for v in range(mod) if gcd(v, mod) == 1]
    proper = [v for v in units if v * v % mod != 1]          # not their own inverse
    k = draw(st.one_of(st.sampled_from(proper or units), st.sampled_from(proper or units),
                       _const(mod).filter(lambda v: gcd(v % mod, mod) == 1)))
    nw = n if mod == 2**n else n + 2
    r = _split(pool, [("x_wires", n), ("work_wires", nw)])
    return {"t": "Multiplier", "r": r, "a": {"k": k, "mod": draw(st.sampled_from([mod, None])) if mod == 2**n else mod}}


@st.composite
def _out_multiplier(draw, S):
    pool = draw(_pool())
    n, m, k = draw(st.integers(1, S)), draw(st.integers(1, S)), draw(st.integers(1, S + 1))
    mod = draw(st.one_of(st.just(2**k), _mod(k)))
    if mod != 2**k:   # QFT route with nested controlled modular phase adders: keep the circuit small
        n, m, k = min(n, S - 1), min(m, S - 1), min(k, S)
        mod = min(mod, 2**k - 1) if k > 1 else 2
    zeroed = draw(st.booleans())
    if mod != 2**k:
        nw = draw(st.sampled_from([2, 2, 3]))
    else:
        nw = draw(st.sampled_from([0, 0, k, k + 1, min(k - 1, m + 1) if zeroed else k, k + 2, 1]))
    nw = max(0, min(nw, 12 - n - m - k)) if mod == 2**k else nw
    r = _split(pool, [("x_wires", n), ("y_wires", m), ("output_wires", k), ("work_wires", nw)])
    return {"t": "OutMultiplier", "r": r,
            "a": {"mod": draw(st.sampled_from([mod, None])) if mod == 2**k else mod, "output_wires_zeroed": zeroed}}


@st.composite
def _signed_out_multiplier(draw, S):
    pool = draw(_pool())
    zeroed = draw(st.booleans())
    if zeroed:
        n, m, k = draw(st.integers(1, S)), draw(st.integers(1, S)), draw(st.integers(2, S + 2))
        nw = draw(st.sampled_from([2, 2, 3, 4, k + 1]))
    else:
        n, m, k = draw(st.integers(1, 2)), draw(st.integers(1, 2)), draw(st.integers(2, 2 if S <= 3 else 3))
        nw = 2 * k + 1 + draw(st.sampled_from([0, 0, 1]))
    r = _split(pool, [("x_wires", n), ("y_wires", m), ("output_wires", k), ("work_wires", nw)])
    return {"t": "SignedOutMultiplier", "r": r, "a": {"output_wires_zeroed": zeroed}}


@st.composite
def _mod_exp(draw, S):
    pool = draw(_pool())
    n, k = draw(st.integers(1, 2 if S <= 3 else 3)), draw(st.integers(1, S))
    if n + 2 * k > 2 * S + 1:
        n = 1
    mod = draw(_mod(k))
    if mod != 2**k and k >= S:
        k = S - 1
        mod = min(mod, 2**k)
    base = draw(_const(mod).filter(lambda v: gcd(v % mod, mod) == 1))
    nw = k if mod == 2**k else k + 2
    r = _split(pool, [("x_wires", n), ("output_wires", k), ("work_wires", nw)])
    return {"t": "ModExp", "r": r, "a": {"base": base, "mod": draw(st.sampled_from([mod, None])) if mod == 2**k else mod}}


@st.composite
def _out_square(draw, name, S):
    pool = draw(_pool())
    signed = name == "SignedOutSquare"
    n = draw(st.integers(1, S))
    m = draw(st.integers(1, min(2 * n + 1, S + 2)))
    zeroed = draw(st.booleans())
    need = (min(n, m) if signed else min(n + 1, m)) if zeroed else m
    while n + m + need > 3 * S + 2:     # <= 11 wires in the quick tier
        m -= 1
        need = (min(n, m) if signed else min(n + 1, m)) if zeroed else m
    nw = need + draw(st.sampled_from([0, 0, 0, 1]))
    r = _split(pool, [("x_wires", n), ("output_wires", m), ("work_wires", nw)])
    return {"t": name, "r": r, "a": {"output_wires_zeroed": zeroed}}


@st.composite
def _out_poly(draw, S):
    pool = draw(_pool())
    nv = draw(st.integers(1, 2))
    sizes = [draw(st.integers(1, 2 if nv == 2 else S)) for _ in range(nv)]
    k = draw(st.integers(1, S))
    mod = draw(_mod(k))
    nw = 2 if mod != 2**k else draw(st.sampled_from([0, 0, 2]))
    nterms = draw(st.integers(1, 3))
    terms = []
    for _ in range(nterms):
        exps = [draw(st.integers(0, 2)) for _ in range(nv)]
        c = draw(st.one_of(st.integers(-4, 6), st.sampled_from([1, -1, mod, mod - 1])))
        terms.append([exps, c])
    regs = [("in%d" % i, s) for i, s in enumerate(sizes)] + [("output_wires", k), ("work_wires", nw)]
    return {"t": "OutPoly", "r": _split(pool, regs), "a": {"terms": terms, "nv": nv, "mod": draw(st.sampled_from([mod, None])) if mod == 2**k else mod}}


@st.composite
def _comparator(draw, S):
    pool = draw(_pool())
    n = draw(st.integers(1, S + 1))
    value = draw(st.one_of(st.integers(0, 2**n), st.sampled_from([1, 2**n - 1, 2**n, 2**n + 1, 2 ** (n - 1), 2 ** (n + 1) + 1])))
    nw = draw(st.sampled_from([0, 0, 1, 2, n]))
    r = _split(pool, [("control", n), ("target", 1), ("work_wires", nw)])
    return {"t": "IntegerComparator", "r": r, "a": {"value": value, "geq": draw(st.booleans())}}


@st.composite
def _incrementer(draw, S):
    pool = draw(_pool())
    n = draw(st.integers(1, S + 2))
    nw = draw(st.sampled_from([0, 0, 1, max(n - 2, 0), max(n - 2, 0), n - 1, n]))
    return {"t": "Incrementer", "r": _split(pool, [("wires", n), ("work_wires", nw)]), "a": {}}


@st.composite
def _fixed(draw, name):
    pool = draw(_pool())
    if name == "TemporaryAND":
        cv = draw(st.sampled_from([None, [1, 1], [0, 1], [1, 0], [0, 0]]))
        return {"t": name, "r": _split(pool, [("control", 2), ("target", 1)]), "a": {"control_values": cv}}
    return {"t": name, "r": _split(pool, [("wires", 3 if name == "QubitSum" else 4)]), "a": {}}


def _case(name, S):
    if name in ("Adder", "PhaseAdder"):
        return _adder(name, S)
    if name in ("OutSquare", "SignedOutSquare"):
        return _out_square(name, S)
    if name in ("TemporaryAND", "QubitSum", "QubitCarry"):
        return _fixed(name)
    return {"SemiAdder": _semi_adder, "OutAdder": _out_adder, "Multiplier": _multiplier, "OutMultiplier": _out_multiplier,
            "SignedOutMultiplier": _signed_out_multiplier, "ModExp": _mod_exp, "OutPoly": _out_poly,
            "IntegerComparator": _comparator, "Incrementer": _incrementer}[name](S)


WEIGHTED = [n for n in NAMES if n not in ("TemporaryAND", "QubitSum", "QubitCarry")] + \
    ["OutMultiplier", "OutMultiplier", "Adder", "OutPoly", "OutSquare", "SignedOutSquare", "IntegerComparator", "SemiAdder", "SemiAdder",
     "Incrementer", "Multiplier", "OutSquare"]


def strategy(tier):
    S = 3 if tier == "quick" else 4
    return st.sampled_from(WEIGHTED).flatmap(lambda n: _case(n, S))


def enumerate_cases(tier):
    """Finite sub-domains in full: the fixed-arity gates (all control values) and IntegerComparator on 1-2 control wires."""
    p = list(range(8))
    for cv in (None, [1, 1], [0, 1], [1, 0], [0, 0]):
        yield {"t": "TemporaryAND", "r": _split(["c", 0, "t"], [("control", 2), ("target", 1)]), "a": {"control_values": cv}}
    yield {"t": "QubitSum", "r": {"wires": [2, 0, 1]}, "a": {}}
    yield {"t": "QubitCarry", "r": {"wires": ["a", 3, 1, 0]}, "a": {}}
    for n in (1, 2):
        for value in range(1, 2**n + 2):
            for geq in (True, False):
                yield {"t": "IntegerComparator", "r": _split(p, [("control", n), ("target", 1), ("work_wires", 0)]),
                       "a": {"value": value, "geq": geq}}
    for n in (1, 2, 3):
        yield {"t": "Incrementer", "r": _split(p, [("wires", n), ("work_wires", max(n - 2, 0))]), "a": {}}
        yield {"t": "Adder", "r": _split(p, [("x_wires", n), ("work_wires", 2)]), "a": {"k": 1, "mod": 2**n - 1 if n > 1 else 2}}


# ---------------------------------------------------------------------------------------------
# documented semantics (pure Python)
# ---------------------------------------------------------------------------------------------

def _signed(v, n):
    return v - 2**n if v >= 2 ** (n - 1) else v


def _poly(terms):
    def f(*xs):
        tot = 0
        for exps, c in terms:
            t = c
            for x, e in zip(xs, exps):
                t = t * x**e
            tot = tot + t
        return tot
    return f


def model(spec):
    """-> dict(regs=[(name, wires)], domain=[{reg: value}], f=values->(values, wrapped?), fourier=[reg names])."""
    t, r, a = spec["t"], spec["r"], spec["a"]
    regs = [(k, list(map(_w, v))) for k, v in r.items()]
    size = {k: len(v) for k, v in regs}
    rng = lambda k, lim=None: range(min(2 ** size[k], lim if lim is not None else 2 ** size[k]))  # noqa: E731
    fourier = []
    classify = None
    zero = {k: 0 for k in size if k in ("work_wires", "work_wire")}

    def dom(**ranges):
        keys = list(ranges)
        out = [dict(zero)]
        for k in keys:
            out = [dict(d, **{k: v}) for d in out for v in ranges[k]]
        return out

    if t in ("Adder", "PhaseAdder"):
        n = size["x_wires"]
        mod = a["mod"] or 2**n
        lim = mod if (t == "Adder" or mod == 2**n) else min(mod, 2 ** (n - 1))
        domain = dom(x_wires=range(lim))
        k = a["k"]
        f = lambda v: (dict(v, x_wires=(v["x_wires"] + k) % mod), not 0 <= v["x_wires"] + k < mod)  # noqa: E731
        if t == "PhaseAdder":
            fourier = ["x_wires"]
    elif t == "SemiAdder":
        m = size["y_wires"]
        domain = dom(x_wires=rng("x_wires"), y_wires=rng("y_wires"))
        f = lambda v: (dict(v, y_wires=(v["x_wires"] + v["y_wires"]) % 2**m), v["x_wires"] + v["y_wires"] >= 2**m)  # noqa: E731
    elif t == "OutAdder":
        mod = a["mod"] or 2 ** size["output_wires"]
        domain = dom(x_wires=rng("x_wires", mod), y_wires=rng("y_wires", mod), output_wires=range(mod))
        f = lambda v: (dict(v, output_wires=(v["output_wires"] + v["x_wires"] + v["y_wires"]) % mod),  # noqa: E731
                       v["output_wires"] + v["x_wires"] + v["y_wires"] >= mod)
    elif t == "Multiplier":
        mod = a["mod"] or 2 ** size["x_wires"]
        k = a["k"]
        domain = dom(x_wires=range(mod))
        f = lambda v: (dict(v, x_wires=(v["x_wires"] * k) % mod), not 0 <= v["x_wires"] * k < mod)  # noqa: E731
    elif t == "OutMultiplier":
        mod = a["mod"] or 2 ** size["output_wires"]
        zs = range(1) if a["output_wires_zeroed"] else range(mod)
        domain = dom(x_wires=rng("x_wires", mod), y_wires=rng("y_wires", mod), output_wires=zs)
        f = lambda v: (dict(v, output_wires=(v["output_wires"] + v["x_wires"] * v["y_wires"]) % mod),  # noqa: E731
                       v["output_wires"] + v["x_wires"] * v["y_wires"] >= mod)
    elif t == "SignedOutMultiplier":
        n, m, k = size["x_wires"], size["y_wires"], size["output_wires"]
        zs = range(1) if a["output_wires_zeroed"] else range(2**k)
        domain = dom(x_wires=rng("x_wires"), y_wires=rng("y_wires"), output_wires=zs)

        def f(v):
            p = _signed(v["x_wires"], n) * _signed(v["y_wires"], m)
            return dict(v, output_wires=(v["output_wires"] + p) % 2**k), not -(2 ** (k - 1)) <= _signed(v["output_wires"], k) + p < 2 ** (k - 1)

        def classify(v):
            x, y = _signed(v["x_wires"], n), _signed(v["y_wires"], m)
            if x * y == 0 and (x < 0 or y < 0):
                return "zero-times-negative"
            if abs(x) * abs(y) >= 2 ** (k - 1):
                return "magnitude-exceeds-output"
            return "other"
    elif t == "ModExp":
        mod = a["mod"] or 2 ** size["output_wires"]
        base = a["base"]
        domain = dom(x_wires=rng("x_wires", mod), output_wires=range(mod))
        f = lambda v: (dict(v, output_wires=(v["output_wires"] * pow(base, v["x_wires"], mod)) % mod),  # noqa: E731
                       v["output_wires"] * (base % mod) ** v["x_wires"] >= mod)
    elif t in ("OutSquare", "SignedOutSquare"):
        n, m = size["x_wires"], size["output_wires"]
        zs = range(1) if a["output_wires_zeroed"] else range(2**m)
        domain = dom(x_wires=rng("x_wires"), output_wires=zs)
        val = (lambda x: _signed(x, n)) if t == "SignedOutSquare" else (lambda x: x)
        if t == "SignedOutSquare" and n == 1:
            classify = lambda v: "one-bit-x"  # noqa: E731
        f = lambda v: (dict(v, output_wires=(v["output_wires"] + val(v["x_wires"]) ** 2) % 2**m),  # noqa: E731
                       v["output_wires"] + val(v["x_wires"]) ** 2 >= 2**m)
    elif t == "OutPoly":
        mod = a["mod"] or 2 ** size["output_wires"]
        nv = a["nv"]
        poly = _poly(a["terms"])
        domain = dom(**{"in%d" % i: rng("in%d" % i, mod) for i in range(nv)}, output_wires=range(mod))

        def f(v):
            p = poly(*[v["in%d" % i] for i in range(nv)])
            return dict(v, output_wires=(v["output_wires"] + p) % mod), not 0 <= v["output_wires"] + p < mod

        c0 = poly(*([0] * nv)) % mod

        def classify(v):
            extended = mod != 2 ** size["output_wires"] or size.get("work_wires", 0) > 0
            return "constant-term-not-reduced" if extended and c0 and v["output_wires"] + c0 >= mod else "other"
    elif t == "IntegerComparator":
        L, geq = a["value"], a["geq"]
        domain = dom(control=rng("control"), target=range(2))

        def f(v):
            flip = (v["control"] >= L) if geq else (v["control"] < L)
            return dict(v, target=v["target"] ^ int(flip)), flip
    elif t == "Incrementer":
        n = size["wires"]
        domain = dom(wires=rng("wires"))
        f = lambda v: (dict(v, wires=(v["wires"] + 1) % 2**n), (v["wires"] + 1) & v["wires"] != 0 or v["wires"] + 1 == 2**n)  # noqa: E731
    elif t == "TemporaryAND":
        cv = a["control_values"] or [1, 1]
        domain = dom(control=range(4), target=range(1))
        f = lambda v: (dict(v, target=int(v["control"] == 2 * cv[0] + cv[1])), v["control"] == 2 * cv[0] + cv[1])  # noqa: E731
    elif t == "QubitSum":
        domain = dom(wires=range(8))

        def f(v):
            x = v["wires"]
            a_, b_, c_ = x >> 2 & 1, x >> 1 & 1, x & 1
            return {"wires": a_ << 2 | b_ << 1 | (a_ ^ b_ ^ c_)}, (a_ ^ b_) == 1
    elif t == "QubitCarry":
        domain = dom(wires=range(16))

        def f(v):
            x = v["wires"]
            a_, b_, c_, d_ = x >> 3 & 1, x >> 2 & 1, x >> 1 & 1, x & 1
            out = a_ << 3 | b_ << 2 | (b_ ^ c_) << 1 | ((b_ & c_) ^ d_ ^ ((b_ ^ c_) & a_))
            return {"wires": out}, out != x
    else:
        raise KeyError(t)
    instance_class = "one-bit-x" if t == "SignedOutSquare" and size["x_wires"] == 1 else None
    return {"regs": regs, "domain": domain, "f": f, "fourier": fourier, "classify": classify, "instance_class": instance_class}


def _w(w):
    return tuple(w) if isinstance(w, list) else w


def build(spec):
    import pennylane as qp

    t, a = spec["t"], spec["a"]
    r = {k: [_w(w) for w in v] for k, v in spec["r"].items()}
    if t == "Adder":
        return qp.Adder(a["k"], r["x_wires"], a["mod"], r["work_wires"])
    if t == "PhaseAdder":
        return qp.PhaseAdder(a["k"], r["x_wires"], a["mod"], r["work_wire"])
    if t == "SemiAdder":
        return qp.SemiAdder(r["x_wires"], r["y_wires"], r["work_wires"] or None)
    if t == "OutAdder":
        return qp.OutAdder(r["x_wires"], r["y_wires"], r["output_wires"], a["mod"], r["work_wires"])
    if t == "Multiplier":
        return qp.Multiplier(a["k"], r["x_wires"], a["mod"], r["work_wires"])
    if t == "OutMultiplier":
        return qp.OutMultiplier(r["x_wires"], r["y_wires"], r["output_wires"], a["mod"], r["work_wires"],
                                output_wires_zeroed=a["output_wires_zeroed"])
    if t == "SignedOutMultiplier":
        return qp.SignedOutMultiplier(r["x_wires"], r["y_wires"], r["output_wires"], r["work_wires"],
                                      output_wires_zeroed=a["output_wires_zeroed"])
    if t == "ModExp":
        return qp.ModExp(r["x_wires"], r["output_wires"], a["base"], a["mod"], r["work_wires"])
    if t in ("OutSquare", "SignedOutSquare"):
        return getattr(qp, t)(r["x_wires"], r["output_wires"], r["work_wires"], output_wires_zeroed=a["output_wires_zeroed"])
    if t == "OutPoly":
        nv = a["nv"]
        terms = a["terms"]
        if nv == 1:
            fn = lambda x: _poly(terms)(x)  # noqa: E731
        else:
            fn = lambda x, y: _poly(terms)(x, y)  # noqa: E731
        return qp.OutPoly(fn, [r["in%d" % i] for i in range(nv)], r["output_wires"], mod=a["mod"], work_wires=r["work_wires"])
    if t == "IntegerComparator":
        return qp.IntegerComparator(a["value"], wires=r["control"] + r["target"], geq=a["geq"], work_wires=r["work_wires"] or None)
    if t == "Incrementer":
        return qp.Incrementer(r["wires"], r["work_wires"])
    if t == "TemporaryAND":
        if a["control_values"] is None:
            return qp.TemporaryAND(r["control"] + r["target"])
        return qp.TemporaryAND(r["control"] + r["target"], control_values=a["control_values"])
    return getattr(qp, t)(wires=r["wires"])


# ---------------------------------------------------------------------------------------------
# oracle
# ---------------------------------------------------------------------------------------------

def _index(values, regs, n_extra=0):
    idx = 0
    for name, ws in regs:
        idx = (idx << len(ws)) | values[name]
    return idx << n_extra


def _dft(n):
    N = 2**n
    k = np.arange(N)
    return np.exp(2j * np.pi * np.outer(k, k) / N) / np.sqrt(N)


def _amps(D, which=0):
    """generic, deterministic, pairwise different complex amplitudes (two unrelated families)"""
    j = np.arange(1, D + 1)
    g1, g2 = ((0.6180339887498949, 1.4142135623730951), (0.7320508075688772, 0.4342944819032518))[which]
    a = (1.0 + ((j * g1) % 1.0)) * np.exp(2j * np.pi * ((j * g2) % 1.0))
    return a / np.linalg.norm(a)


def _columns(idx, n, batch):
    D = len(idx)
    if batch:
        M = np.zeros((2**n, D), dtype=complex)
        M[idx, np.arange(D)] = 1
        return M
    M = np.zeros((2**n, 2), dtype=complex)
    M[idx, 0] = _amps(D, 0)
    M[idx, 1] = _amps(D, 1)
    return M


def _fourier(M, regs, order, names):
    if not names:
        return M
    n = len(order)
    T = M.reshape((2,) * n + (M.shape[1],))
    for name, ws in regs:
        if name in names:
            T = sim.apply(T, _dft(len(ws)), [order.index(w) for w in ws], batch_axes=1)
    return T.reshape(2**n, -1)


def _queue_sig(raw):
    return [(type(o).__name__, tuple(map(repr, getattr(o, "wires", ()))), repr(getattr(o, "data", ()))[:200],
             repr(getattr(o, "hyperparameters", ""))[:300]) for o in raw]


def _routes(op):
    """[(route name, thunk -> queue)]: op.decomposition() and every registered rule that reports itself applicable."""
    from pv.ref import rules as R

    out = []
    if getattr(op, "has_decomposition", False):
        out.append(("decomposition", lambda: list(op.decomposition())))
    params, _, _ = R.call_convention(op)
    for rule in R.listed_rules(op):
        if rule.is_applicable(**params):
            out.append(("rule:" + str(getattr(rule, "name", "?")), (lambda rule=rule: list(R.run_rule(op, rule).raw))))
    return out


BATCH_LIMIT = 2**14      # 2^n * |domain| up to which every basis input is simulated explicitly
DEVICE_LEAVES = 2500     # device route only when the decomposition has at most this many leaves


def _simulate(leaves, full, regs, n_dyn, domain, images, fourier, batch):
    n = len(full)
    iin = [_index(v, regs, n_dyn) for v in domain]
    iout = [_index(o, regs, n_dyn) for o, _ in images]
    X = _fourier(_columns(iin, n, batch), regs, full, fourier)
    E = _fourier(_columns(iout, n, batch), regs, full, fourier)
    with F.guard():
        Y = F.run_batch(leaves, full, X)
    return Y, E


def check(spec):
    import pennylane as qp

    t = spec["t"]
    md = model(spec)
    regs, domain, f = md["regs"], md["domain"], md["f"]
    try:
        op = build(spec)
    except ValueError as e:
        raise Reject(f"{t}: constructor rejected ({str(e)[:60]})") from None
    order = [w for _, ws in regs for w in ws]
    if set(op.wires) - set(order):
        raise Viol("foreign-wires", f"{t}: op.wires={list(op.wires)} not within the given registers {order}", sig=t)
    images = [f(v) for v in domain]
    wrapped = sum(1 for _, wflag in images if wflag)
    moved = sum(1 for v, (o, _) in zip(domain, images) if o != v)
    if len({_index(o, regs) for o, _ in images}) != len(images):
        raise RuntimeError("model is not injective on the domain")
    feats = {"template": t}
    if "output_wires_zeroed" in spec["a"]:
        feats["zeroed"] = bool(spec["a"]["output_wires_zeroed"])
    labels = [t, f"{t}:wires={len(order)}", f"domain<={2 ** int(np.ceil(np.log2(max(len(domain), 1))))}"]
    routes = _routes(op)
    if not routes and not op.has_matrix:
        raise Reject(f"{t}: no decomposition route applicable for this work-wire count")
    seen = []
    n_leaves = None
    max_dyn = 0
    for rname, thunk in routes:
        try:
            raw = thunk()
            qs = _queue_sig(raw)
            if qs in seen and not any(type(o).__name__ == "Allocate" for o in raw):
                labels.append(f"{t}/{rname}=same-queue")
                continue
            seen.append(qs)
            leaves, dyn = F.flatten(raw)
        except qp.exceptions.DecompositionUndefinedError:
            raise Reject(f"{t}: decomposition undefined for this configuration") from None
        except Exception as e:  # noqa: BLE001
            from pv.engine import _origin

            origin, where = _origin(e.__traceback__)
            if origin != "sut":
                raise
            icls = md.get("instance_class") or "other"
            raise Viol("decomposition-raises", f"{t} {spec['a']} regs={spec['r']} via {rname}: {type(e).__name__}: {e} ({where})",
                       sig=f"{t}/{rname}" + ("" if icls == "other" else ":" + icls),
                       features=dict(feats, input_class=icls, route=rname, exc=type(e).__name__, where=where)) from None
        if n_leaves is None:
            n_leaves = len(leaves)
        dynw = [d["wire"] for d in dyn]
        max_dyn = max(max_dyn, len(dynw))
        full = order + dynw
        stray = [w for w in F.wires_of(leaves) if w not in full]
        if stray:
            raise Viol("foreign-wires", f"{t} via {rname}: decomposition touches {stray} outside registers {order}",
                       sig=f"{t}/{rname}", features=feats)
        if len(full) > 15:
            raise Reject("more than 15 wires after dynamic allocation")
        batch = (2 ** len(full)) * len(domain) <= BATCH_LIMIT
        Y, E = _simulate(leaves, full, regs, len(dynw), domain, images, md["fourier"], batch)
        if np.abs(Y - E).max() > TOL:
            if not batch:   # re-run input by input to name the failing inputs
                Y, E = _simulate(leaves, full, regs, len(dynw), domain, images, md["fourier"], True)
            _report(Y, E, spec, md, rname, feats, domain, images, regs, len(dynw))
        labels.append(f"{t}/{rname}")
        labels.append("mode:each-input" if batch else "mode:generic-superposition")
        if dynw:
            labels.append("dynamic-work-wires")
    # (c) matrix where defined
    if op.has_matrix and not md["fourier"]:
        mw = list(op.wires)
        M = np.asarray(qp.matrix(op, wire_order=mw), dtype=complex)
        sub = [(name, ws) for name, ws in regs if all(w in mw for w in ws)]
        if [w for _, ws in sub for w in ws] != mw:
            raise Viol("matrix-wires", f"{t}: op.wires {mw} are not the documented registers in order", sig=t, features=feats)
        for v, (o, _) in zip(domain, images):
            col = M[:, _index(v, sub)]
            exp = np.zeros(len(col), dtype=complex)
            exp[_index(o, sub)] = 1
            if np.abs(col - exp).max() > TOL:
                raise Viol("matrix-wrong-output", f"{t} {spec['a']}: matrix column for input {v} is not |{o}> "
                           f"(nonzero rows {np.flatnonzero(np.abs(col) > 1e-9).tolist()}, values {col[np.abs(col) > 1e-9]})",
                           sig=t + "/matrix", features=feats)
        labels.append(f"{t}/matrix")
    # (d) device primitive on a generic superposition over the domain
    if n_leaves is not None and n_leaves <= DEVICE_LEAVES:
        n = len(order)
        iin = [_index(v, regs) for v in domain]
        iout = [_index(o, regs) for o, _ in images]
        X = _fourier(_columns(iin, n, False), regs, order, md["fourier"])[:, 0]
        E = _fourier(_columns(iout, n, False), regs, order, md["fourier"])[:, 0]
        spare = [f"_spare{i}" for i in range(max_dyn)]   # room for dynamically allocated work wires
        dev = qp.device("default.qubit", wires=order + spare)

        @qp.qnode(dev)
        def circ():
            qp.StatePrep(X, wires=order)
            build(spec)
            return qp.state()

        Y = np.asarray(circ(), dtype=complex)
        if spare:
            E = np.kron(E, np.eye(2 ** len(spare))[0])
        if np.abs(Y - E).max() > TOL:
            raise Viol("device-wrong-output", f"{t} {spec['a']} regs={spec['r']}: default.qubit state differs from the documented map "
                       f"on a superposition over the domain (max diff {np.abs(Y - E).max():.3g})", sig=t + "/device", features=feats)
        labels.append(f"{t}/device")
    nontrivial = wrapped > 0 and moved > 0
    labels.append("wraps" if wrapped else "no-wrap")
    return Result(nontrivial, labels)


CLASS_PRIORITY = ("other",)   # classes not listed come after, in alphabetical order


def _report(Y, E, spec, md, rname, feats, domain, images, regs, n_dyn):
    """Name the failing inputs; bucket by the least explained class of failing inputs."""
    t = spec["t"]
    bad = [int(j) for j in np.flatnonzero(np.abs(Y - E).max(axis=0) > TOL)]
    classify = md.get("classify") or (lambda v: "other")
    groups = {}
    for j in bad:
        groups.setdefault(classify(domain[j]), []).append(j)
    cls = sorted(groups, key=lambda c: (c not in CLASS_PRIORITY, c))[0]
    j = groups[cls][0]
    col = Y[:, j]
    top = int(np.argmax(np.abs(col)))
    exp_idx = int(np.argmax(np.abs(E[:, j])))
    got = _decode(top, regs, n_dyn)
    want = images[j][0]
    clause = "wrong-output"
    if np.abs(np.abs(col) - np.abs(E[:, j])).max() <= TOL:
        clause = "phase"
    elif abs(abs(col[top]) - 1) < 1e-6 and not md["fourier"] and all(
            got[k] == want[k] for k in got if k not in ("work_wires", "work_wire", "_dyn")):
        clause = "work-wires-not-restored"
    feats = dict(feats, input_class=cls, route=rname)
    raise Viol(clause, f"{t} {spec['a']} regs={spec['r']} via {rname}: input {domain[j]} -> got {got} amp {col[top]:.6g} "
               f"(expected {want}, amp at expected index {col[exp_idx]:.6g}); {len(bad)}/{len(domain)} inputs wrong, "
               f"classes {({c: len(v) for c, v in groups.items()})}",
               sig=f"{t}/{rname}" + ("" if cls == "other" else ":" + cls), features=feats)


def _decode(idx, regs, n_dyn):
    out = {}
    if n_dyn:
        out["_dyn"] = idx & (2**n_dyn - 1)
        idx >>= n_dyn
    for name, ws in reversed(regs):
        out[name] = idx & (2 ** len(ws) - 1)
        idx >>= len(ws)
    return out


def selftest():
    F.selftest()
    assert _signed(3, 2) == -1 and _signed(1, 2) == 1 and _signed(1, 1) == -1 and _signed(4, 3) == -4
    md = model({"t": "Adder", "r": {"x_wires": [0, 1, 2], "work_wires": [3, 4]}, "a": {"k": -3, "mod": 5}})
    assert len(md["domain"]) == 5 and md["f"]({"x_wires": 1, "work_wires": 0})[0]["x_wires"] == 3
    md = model({"t": "QubitCarry", "r": {"wires": [0, 1, 2, 3]}, "a": {}})
    assert md["f"]({"wires": 0b0110})[0]["wires"] == 0b0101   # documented example
    md = model({"t": "SignedOutSquare", "r": {"x_wires": [0, 1, 2, 3], "output_wires": [4, 5, 6, 7, 8, 9], "work_wires": []},
                "a": {"output_wires_zeroed": False}})
    assert md["f"]({"x_wires": 0b1011, "output_wires": 5})[0]["output_wires"] == 30   # documented example: 5 + (-5)^2
    assert np.allclose(_dft(1), np.array([[1, 1], [1, -1]]) / np.sqrt(2))
    a = _amps(64)
    assert len({complex(np.round(x, 9)) for x in a}) == 64
