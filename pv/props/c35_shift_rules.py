"""C35 — generated parameter-shift rules are exact for their frequency spectra (closed-form derivative oracle)."""
import math
import warnings

from hypothesis import strategies as st

from pv.engine import Reject, Result, Viol

ID = "C35"
TECHNIQUE = "hypothesis frequency/shift families + random trigonometric polynomials vs closed-form n-th derivative"
RULE = (
    "Frequency sets: equidistant f0*(1..R), equal-gap-but-offset (e.g. (2,3), (1,3,5)), integer subsets, decimal "
    "(non-commensurate) floats, dense; given unsorted, as ints or floats. Shifts: default (None), the default values "
    "passed explicitly, or random distinct positive values; order 1-4; generate_multi_shift_rule with 2-3 parameters "
    "and mixed orders. Oracle: for a generated trigonometric polynomial with exactly those frequencies (constant "
    "term included) and a generated point x, sum_i c_i f(x+s_i) equals the closed-form derivative within "
    "1e-7*(sum|c_i| + fmax^order)*amplitude; multi-parameter rules are tested on sums of products of univariate "
    "polynomials against the mixed partial derivative. Structural: finite (M,2)/(M,1+P) array, no duplicate shifts. "
    "Cases where the function emits its documented 'near zero determinant' warning, and explicit shifts whose sine "
    "matrix has condition number > 1e6, are discarded and counted. Non-trivial: >= 2 frequencies (in some parameter)."
)
ASSUMPTIONS = [
    "Frequencies are distinct positive numbers (documented); decimal frequencies have <= 3 decimals when order >= 2 "
    "because frequencies_to_period documents rounding to 5 decimals.",
    "The lru_cache of generate_shift_rule/_get_shift_rule is cleared before each call so the documented warning is "
    "observable and check() is a pure function of the spec.",
    "Explicit shifts are distinct, positive, and pairwise separated; ill-conditioned explicit shift choices "
    "(cond > 1e6) are a user error and rejected. With default shifts the function chooses the shifts itself, so it "
    "must either warn or be exact.",
]
BUDGET = {"quick": {"examples": 2000}, "thorough": {"examples": 200000, "shards": 16}}
SHRINK_LISTS = ("terms",)
TOL = 1e-7
COND_MAX = 1e6


# ----------------------------------------------------------------------------------------------- generators
def _r3(lo, hi):
    return st.integers(int(lo * 1000), int(hi * 1000)).map(lambda k: k / 1000)


@st.composite
def _freqs(draw, max_r):
    fam = draw(st.sampled_from(["equidistant", "equidistant", "offset-gap", "offset-gap", "int-subset",
                                "decimal", "dense", "single"]))
    if fam == "single":
        fs = [draw(st.sampled_from([1, 2, 0.5, 3, 1.5, 0.25, 7]))]
    elif fam == "equidistant":
        f0 = draw(st.sampled_from([1, 1, 2, 0.5, 3, 1.5, 0.25, 0.1]))
        r = draw(st.integers(2, max_r))
        fs = [f0 * k for k in range(1, r + 1)]
    elif fam == "offset-gap":
        gap = draw(st.sampled_from([1, 1, 2, 2, 3, 0.5, 4]))
        start = draw(st.sampled_from([1, 2, 3, 5, 0.5, 1.5, 4]))
        if start == gap:
            start = start + gap  # (2g, 3g, ...) still has equal gaps != smallest frequency
        r = draw(st.integers(2, max_r))
        fs = [start + gap * k for k in range(r)]
    elif fam == "int-subset":
        fs = draw(st.lists(st.integers(1, 9), min_size=2, max_size=max_r, unique=True))
    elif fam == "decimal":
        fs = draw(st.lists(_r3(0.2, 5.0), min_size=2, max_size=max_r, unique=True))
    else:  # dense
        base = draw(st.sampled_from([1, 2, 0.5]))
        step = draw(st.sampled_from([0.1, 0.25, 0.05]))
        r = draw(st.integers(2, max_r))
        fs = [round(base + step * k, 3) for k in range(r)]
    fs = draw(st.permutations(fs))
    if draw(st.booleans()):
        fs = [float(f) for f in fs]
    return {"family": fam, "freqs": list(fs)}


@st.composite
def _param(draw, max_r, max_order):
    order = draw(st.sampled_from([1, 1, 1, 2, 2, 3, 4] if max_order >= 4 else [1, 1, 2]))
    fr = draw(_freqs(max_r if order <= 2 else min(max_r, 3)))
    n = len(fr["freqs"])
    kind = draw(st.sampled_from(["default", "default", "default-explicit", "random", "random"]))
    shifts = None
    if kind == "default-explicit":
        shifts = "default-explicit"
    elif kind == "random":
        fmin = min(fr["freqs"])
        hi = min(3.1, math.pi / fmin) if draw(st.booleans()) else 3.1
        shifts = draw(st.lists(_r3(0.1, max(hi, 0.1 + 0.2 * n)), min_size=n, max_size=n, unique=True))
    return {"family": fr["family"], "freqs": fr["freqs"], "shifts": shifts, "order": order}


def _poly(n):
    amp = st.integers(-1000, 1000).map(lambda k: k / 1000)
    return st.fixed_dictionaries({"a0": amp, "ab": st.lists(st.tuples(amp, amp).map(list), min_size=n, max_size=n)})


@st.composite
def _case(draw, tier):
    max_r = 5 if tier == "quick" else 6
    xs = st.integers(-10000, 10000).map(lambda k: k / 1000)
    if draw(st.integers(0, 3)) > 0:
        p = draw(_param(max_r, 4))
        return {"mode": "single", "params": [p], "terms": [[draw(_poly(len(p["freqs"])))]], "x": [draw(xs)]}
    npar = draw(st.integers(2, 3))
    params = [draw(_param(3, 2)) for _ in range(npar)]
    nterms = draw(st.integers(1, 3))
    terms = [[draw(_poly(len(p["freqs"]))) for p in params] for _ in range(nterms)]
    return {"mode": "multi", "params": params, "terms": terms, "x": [draw(xs) for _ in params]}


def strategy(tier):
    return _case(tier)


def enumerate_cases(tier):
    """Small fixed family: every pair/triple of integer frequencies <= 5 with default shifts, order 1 and 2."""
    import itertools

    for r in (1, 2, 3):
        for fs in itertools.combinations(range(1, 6), r):
            for order in (1, 2):
                poly = {"a0": 0.3, "ab": [[0.7 - 0.2 * k, -0.4 + 0.3 * k] for k in range(r)]}
                yield {"mode": "single", "params": [{"family": "enum", "freqs": list(fs), "shifts": None,
                                                     "order": order}], "terms": [[poly]], "x": [0.37]}


# ----------------------------------------------------------------------------------------------- reference
def trig_eval(poly, freqs, x, order=0):
    """order-th derivative at x of a0 + sum_k a_k cos(f_k x) + b_k sin(f_k x) (closed form)."""
    val = poly["a0"] if order == 0 else 0.0
    for (a, b), f in zip(poly["ab"], freqs):
        ph = f * x + order * math.pi / 2
        val += (f**order) * (a * math.cos(ph) + b * math.sin(ph))
    return val


def amplitude(poly):
    return abs(poly["a0"]) + sum(abs(a) + abs(b) for a, b in poly["ab"])


def default_shifts(freqs):
    n = len(freqs)
    fmin = min(freqs)
    return [(2 * mu - 1) * math.pi / (2 * n * fmin) for mu in range(1, n + 1)]


def is_equidistant(freqs):
    fs = sorted(freqs)
    return all(abs(f - fs[0] * (k + 1)) <= 1e-9 * fs[0] * (k + 1) for k, f in enumerate(fs))


def _tup(xs):
    return tuple(xs)


# ----------------------------------------------------------------------------------------------- check
def _call(fn, *args, **kw):
    """call the function under test with fresh caches, return (result, saw_documented_warning)"""
    from pennylane.gradients import general_shift_rules as gsr

    for name in ("generate_shift_rule", "_get_shift_rule"):
        f = getattr(gsr, name, None)
        if hasattr(f, "cache_clear"):
            f.cache_clear()
    with warnings.catch_warnings(record=True) as rec:
        warnings.simplefilter("always")
        try:
            out = fn(*args, **kw)
        except Exception:
            # the documented instability warning followed by a solver error on the (exactly) singular system
            # is the announced failure mode, not a silent wrong rule
            if any("near zero determinant" in str(w.message) for w in rec):
                raise Reject("documented warning: near zero determinant (then solver error)")
            raise
    unstable = any("near zero determinant" in str(w.message) for w in rec)
    return out, unstable


def check(spec):
    import numpy as np

    from pennylane.gradients import generate_multi_shift_rule, generate_shift_rule

    params = spec["params"]
    labels = [spec["mode"]]
    shifts_args = []
    for p in params:
        fs = p["freqs"]
        if p["shifts"] is None:
            shifts_args.append(None)
        elif p["shifts"] == "default-explicit":
            shifts_args.append(_tup(default_shifts(fs)))
        else:
            sh = sorted(p["shifts"])
            if len(sh) != len(fs) or any(b - a < 0.05 for a, b in zip(sh, sh[1:])):
                raise Reject("explicit shifts too close")
            cond = np.linalg.cond(np.sin(np.outer(sh, sorted(fs))))
            if not np.isfinite(cond) or cond > COND_MAX:
                raise Reject("explicit shifts ill-conditioned (cond > 1e6)")
            shifts_args.append(_tup(p["shifts"]))
        labels.append(f"{p['family']}/{'default' if p['shifts'] is None else p['shifts'] if isinstance(p['shifts'], str) else 'random'}")
        labels.append(f"order={p['order']}")
    eq = [is_equidistant(p["freqs"]) for p in params]
    labels.append("all-equidistant" if all(eq) else "non-equidistant")

    def _one_gap(fs):
        fs = sorted(fs)
        return len(fs) >= 2 and len({round(b - a, 9) for a, b in zip(fs, fs[1:])}) == 1

    # per parameter: equal gaps that differ from the smallest frequency (every non-harmonic pair is such a set)
    ego = [(not e) and _one_gap(p["freqs"]) for e, p in zip(eq, params)]
    feats = {
        "mode": spec["mode"],
        "equidistant": all(eq),
        "equal_gap_offset": any(ego),
        "equal_gap_offset_with_default_shifts": any(
            g and p["shifts"] in (None, "default-explicit") for g, p in zip(ego, params)),
    }

    if spec["mode"] == "single":
        p = params[0]
        rule, unstable = _call(generate_shift_rule, _tup(p["freqs"]), shifts=shifts_args[0], order=p["order"])
        ncols = 2
    else:
        all_default = all(s is None for s in shifts_args)
        sh_arg = None if all_default else list(shifts_args)
        if not all_default and any(s is None for s in shifts_args):
            # a list mixing None and tuples is not documented: pass the default values explicitly instead
            sh_arg = [s if s is not None else _tup(default_shifts(p["freqs"])) for s, p in zip(shifts_args, params)]
        orders = [p["order"] for p in params]
        ord_arg = None if all(o == 1 for o in orders) else orders
        rule, unstable = _call(generate_multi_shift_rule, [_tup(p["freqs"]) for p in params], shifts=sh_arg,
                               orders=ord_arg)
        ncols = 1 + len(params)
    if unstable:
        raise Reject("documented warning: near zero determinant")

    rule = np.asarray(rule, dtype=float)
    sig = ("equal-gap-offset+default-shifts" if feats["equal_gap_offset_with_default_shifts"] else
           "equal-gap-offset+explicit-shifts" if feats["equal_gap_offset"] else
           "equidistant" if feats["equidistant"] else "general")
    if rule.ndim != 2 or rule.shape[1] != ncols or rule.shape[0] < 1:
        raise Viol("shape", f"{_brief(spec)}: rule shape {rule.shape}", sig=sig, features=feats)
    if not np.all(np.isfinite(rule)):
        raise Viol("finite", f"{_brief(spec)}: non-finite rule {rule.tolist()}", sig=sig, features=feats)
    key = [tuple(np.round(r[1:], 7)) for r in rule]
    if len(set(key)) != len(key):
        raise Viol("duplicate-shifts", f"{_brief(spec)}: {rule.tolist()}", sig=sig, features=feats)

    # evaluate sum_i c_i f(x + s_i) and the closed-form derivative
    x = spec["x"]
    got = 0.0
    for row in rule:
        val = 0.0
        for term in spec["terms"]:
            prod = 1.0
            for poly, p, xj, sj in zip(term, params, x, row[1:]):
                prod *= trig_eval(poly, p["freqs"], xj + float(sj))
            val += prod
        got += float(row[0]) * val
    exact = 0.0
    amp = 0.0
    scale_f = 1.0
    for term in spec["terms"]:
        prod, pa = 1.0, 1.0
        for poly, p, xj in zip(term, params, x):
            prod *= trig_eval(poly, p["freqs"], xj, order=p["order"])
            pa *= amplitude(poly)
        exact += prod
        amp += pa
    for p in params:
        scale_f *= max(p["freqs"]) ** p["order"]
    csum = float(np.sum(np.abs(rule[:, 0])))
    tol = TOL * (csum + scale_f) * max(amp, 1e-3)
    if abs(got - exact) > tol:
        raise Viol("derivative", f"{_brief(spec)}: rule gives {got!r}, exact derivative {exact!r} (|diff| "
                   f"{abs(got - exact):.3e} > tol {tol:.1e}); rule={np.round(rule, 6).tolist()[:8]}",
                   sig=sig, features=feats)
    nontrivial = any(len(p["freqs"]) >= 2 for p in params)
    return Result(nontrivial=nontrivial, labels=labels)


def _brief(spec):
    return "; ".join(f"freqs={p['freqs']} shifts={p['shifts']} order={p['order']}" for p in spec["params"]) + \
        f" x={spec['x']}"


def selftest():
    # closed-form derivative vs central finite differences of trig_eval itself (independent of PennyLane)
    poly = {"a0": 0.3, "ab": [[0.5, -0.2], [0.1, 0.9]]}
    fs = [1.5, 4]
    h = 1e-4
    for order in (1, 2, 3):
        x = 0.7
        fd = (trig_eval(poly, fs, x + h, order - 1) - trig_eval(poly, fs, x - h, order - 1)) / (2 * h)
        assert abs(fd - trig_eval(poly, fs, x, order)) < 1e-5
    # the textbook two-term rule is exact for a single frequency
    x = 0.3
    two_term = 0.5 * (trig_eval(poly, [1, 1], x + math.pi / 2) - trig_eval(poly, [1, 1], x - math.pi / 2))
    assert abs(two_term - trig_eval(poly, [1, 1], x, 1)) < 1e-12
    assert is_equidistant([2, 1, 3]) and is_equidistant([0.5, 1.0]) and not is_equidistant([2, 3]) and not is_equidistant([1, 3])
