"""C01 — operator representations describe one and the same linear map; capability flags tell the truth."""
import numpy as np
import scipy.linalg as sla
from hypothesis import strategies as st

from pv import gen, zoo, zoo_extra
from pv.cmp import maxdiff
from pv.engine import Reject, Result, Viol
from pv.props import c03_operator_arithmetic as c03
from pv.ref import opalg, sim
from pv.ref import pauli as RP
from pv.specs import wire

ID = "C01"
TECHNIQUE = ("hypothesis-generated instances of every operator class with a zoo builder (plus symbolic wrappers); oracle = pairwise agreement of "
             "the representations the instance exposes, decompositions and diagonalising circuits evaluated by an independent simulator")
RULE = (
    "One instance per case: a zoo leaf (every class with a builder: named gates, matrix ops, observables, channels, state preparations, meta ops, "
    "~60 templates), a zoo leaf under adjoint/pow/ctrl wrappers, or a nested arithmetic expression (C03's generator: prod, sum, s_prod, exp, "
    "LinearCombination, change_op_basis ...); parameters from the boundary mixture; int/str/mixed wire labels; a wire order = permutation of the "
    "operator's wires plus 0-2 extra wires; broadcast batches (1-3) for parametrised named gates. Oracle, each pair only when both sides are "
    "available: M = qp.matrix(op, wire_order) vs (a) op.sparse_matrix(wire_order).toarray(); (b) D^dagger diag(op.eigvals()) D with D the reference "
    "simulator's unitary of op.diagonalizing_gates(); (c) reference-simulator matrix of op.decomposition() (TemporaryAND: columns with target in |0> "
    "only; decompositions with measurements / allocations are skipped); (d) dense matrix of op.pauli_rep from pv/ref/pauli.py; (e) for one-parameter "
    "operations with a generator, expm(i*theta*G) with G the dense matrix of op.generator(), and qp.generator(op, 'prefactor') must give the same G; "
    "(f) M on the permuted/extended order vs explicit embedding of op.matrix() on op.wires; (g) op.eigvals() as a multiset vs numpy eigenvalues of M "
    "(normal M only). Batched: matrix/eigvals of the batched instance equal the stack of the per-element instances. Capability clause: "
    "has_matrix / has_sparse_matrix / has_decomposition / has_diagonalizing_gates / has_generator true => the call returns; false => it raises the "
    "documented *UndefinedError. Comparisons at 1e-8 relative (1e-6 for numerically diagonalised eig+diag pairs and fractional powers). Non-trivial: at least two representations compared and the matrix is not the identity."
)
ASSUMPTIONS = [
    "Fractional Pow only where the base matrix is unitary with eigenphases inside (-pi+0.05, pi-0.05); a decomposition that is a valid power on "
    "another branch is reported under clause fractional-pow-branch.",
    "Classes documented in tests/ops/functions/conftest.py::_INSTANCES_TO_FAIL are excluded only from the convention they break: TmpPauliRot "
    "(has_matrix False despite having a matrix) from the has_matrix flag clause; SparseHamiltonian (non-tensor data) builds its matrix from a scipy matrix.",
    "GlobalPhase / Identity on zero wires: matrix() without wire order is 1x1 (documented scalar); compared on a non-empty wire order only.",
    "Operators acting on work wires declare validity only for zeroed work wires; they have no matrix, so only the capability clause applies (C10 covers "
    "their decompositions).",
    "Exp: the generator clause is applied to Evolution only (documented as exp(-i x H)); Exp.generator does not document which parameter it refers to. "
    "Exp.sparse_matrix documents NotImplementedError for a wire order: then compared without wire order.",
]
BUDGET = {"quick": {"examples": 900}, "thorough": {"examples": 60000, "shards": 16}}
SHRINK_LISTS = ("operands",)
TOL = 1e-8

FLAGS = (("has_matrix", "matrix", "MatrixUndefinedError"), ("has_sparse_matrix", "sparse_matrix", "SparseMatrixUndefinedError"),
         ("has_decomposition", "decomposition", "DecompositionUndefinedError"), ("has_diagonalizing_gates", "diagonalizing_gates", "DiagGatesUndefinedError"),
         ("has_generator", "generator", "GeneratorUndefinedError"))
SKIP_DECOMP_OPS = {"MidMeasure", "PauliMeasure", "Conditional", "Allocate", "Deallocate", "MeasureNode", "PrepareNode"}


def _all_names():
    return sorted(zoo.ZOO)


@st.composite
def _case(draw, tier):
    kind = draw(st.sampled_from(["leaf"] * 6 + ["wrapped"] * 2 + ["expr"] * 2 + ["batch"]))
    wires = draw(gen.wire_labels(6))
    if kind == "leaf":
        name = draw(st.sampled_from(_all_names()))
        f, mw, _ = zoo.ZOO[name]
        e = draw(f(wires))
    elif kind == "wrapped":
        e = draw(zoo.wrapped(wires[:4], "matrix", max_depth=3))
        if draw(st.integers(0, 4)) == 0:
            e = {"op": "pow", "base": e, "z": draw(c03.FRAC)}
    elif kind == "expr":
        e = draw(c03.expr(wires[:draw(st.integers(1, 4))], draw(st.integers(1, 3)), draw(st.sampled_from(["U", "U", "H", "M"]))))
    else:
        name = draw(st.sampled_from(sorted(n for n, (np_, _) in gen.ALL_GATES.items() if np_)))
        npar, k = gen.ALL_GATES[name]
        b = draw(st.integers(1, 3))
        e = {"op": name, "p": [draw(st.lists(gen.angles(), min_size=b, max_size=b)) for _ in range(npar)], "w": wires[:k]}
    used = zoo_extra.spec_wires(e)
    extra = draw(st.sampled_from([[], [], ["zz"], [99, "zz"]]))
    order = list(draw(st.permutations(used + [x for x in extra if x not in used])))
    return {"expr": e, "order": order, "kind": kind}


def strategy(tier):
    return _case(tier)


def enumerate_cases(tier):
    yield {"coverage": True}
    # every class with a builder at least once, deterministic parameters
    import hypothesis
    from hypothesis import HealthCheck, given, seed, settings

    for name in _all_names():
        f, mw, _ = zoo.ZOO[name]
        out = []

        @seed(1234)
        @settings(max_examples=3 if tier == "quick" else 12, database=None, deadline=None, phases=[hypothesis.Phase.generate],
                  suppress_health_check=list(HealthCheck))
        @given(f(gen.WIRE_POOLS[2][:max(mw, 6)]))
        def grab(s):
            out.append(s)

        try:
            grab()
        except Exception:  # noqa: BLE001  (empty strategy for this wire count)
            continue
        for s in out[:3 if tier == "quick" else 12]:
            used = zoo_extra.spec_wires(s)
            yield {"expr": s, "order": list(reversed(used)) + ["zz"], "kind": "enum"}
    # basis-state projectors with non-palindromic bit strings (bit order of the dense, sparse and eigenvalue representations), also
    # inside a sum / scalar product
    for bits, w in (([0, 1], [0, 1]), ([1, 0], ["b", "a"]), ([1, 0, 0], [2, 0, 1]), ([0, 1, 1], [0, 1, 2]), ([1, 1, 0, 1], [3, 1, 0, 2])):
        pr = {"op": "Projector", "p": [bits], "w": w}
        for e in (pr, {"op": "s_prod", "c": 0.5, "base": pr}, {"op": "sum", "operands": [pr, {"op": "PauliZ", "w": [w[0]]}]}):
            used = zoo_extra.spec_wires(e)
            yield {"expr": e, "order": list(reversed(used)) + ["zz"], "kind": "enum"}
    # change_op_basis with an explicit uncompute and Pauli operands: the composite has a Pauli representation whose factor
    # order matters (non-commuting compute / target / uncompute)
    P = lambda n, w: {"op": n, "w": [w]}  # noqa: E731
    PP = lambda a, b: {"op": "prod", "operands": [P(a, 0), P(b, 1)]}  # noqa: E731
    for comp, tgt, unc in [(P("PauliX", 0), P("PauliY", 0), P("PauliZ", 0)), (P("PauliZ", 0), P("PauliX", 0), P("PauliX", 0)),
                           (PP("PauliX", "PauliY"), PP("PauliZ", "PauliZ"), P("PauliY", 0)), (P("PauliY", 1), PP("PauliX", "PauliX"), PP("PauliZ", "PauliY")),
                           (P("PauliX", 0), P("PauliZ", 0), None)]:
        e = {"op": "cob", "compute": comp, "target": tgt, "uncompute": unc}
        used = zoo_extra.spec_wires(e)
        yield {"expr": e, "order": list(reversed(used)) + ["zz"], "kind": "enum"}


def _close(A, B, tol=TOL):
    A = np.asarray(A)
    B = np.asarray(B)
    if A.shape != B.shape:
        return False
    return bool(np.all(np.abs(A - B) <= tol * max(1.0, float(np.abs(B).max()) if B.size else 1.0)))


def _dense(x):
    return np.asarray(x.toarray() if hasattr(x, "toarray") else x, dtype=complex)


def _multiset_close(a, b, tol=1e-6):
    a = list(np.asarray(a, dtype=complex).reshape(-1))
    b = list(np.asarray(b, dtype=complex).reshape(-1))
    if len(a) != len(b):
        return False
    for x in a:
        j = int(np.argmin([abs(x - y) for y in b]))
        if abs(x - b[j]) > tol * max(1.0, abs(x)):
            return False
        b.pop(j)
    return True


def _pauli_matrix(pr, order):
    terms = [(complex(np.asarray(c)), {w: ch for w, ch in pw.items()}) for pw, c in pr.items()]
    return RP.sentence_matrix(terms, order)


def _undefined(exc_name):
    import pennylane as qp

    return getattr(qp.exceptions, exc_name)


def _op_nodes(op):
    """All operators of an operator-arithmetic tree (the instance, symbolic bases, composite operands)."""
    out, todo = [], [op]
    while todo:
        x = todo.pop()
        out.append(x)
        b = getattr(x, "base", None)
        if b is not None and hasattr(b, "has_matrix"):
            todo.append(b)
        todo.extend(getattr(x, "operands", None) or ())
    return out


def _input_class(op):
    """Input-class features of the built instance (structure only; used to match known findings narrowly).
    pow2_over_matrixless_base: the tree contains a Pow2 whose base declares has_matrix False (Pow2.compute_matrix then goes
    through qp.matrix(base), i.e. the base's decomposition, so matrix() returns although every flag up the tree says False)."""
    return {"pow2_over_matrixless_base": any(type(x).__name__ == "Pow2" and not x.base.has_matrix for x in _op_nodes(op))}


def _capabilities(op, name, tags, sig):
    """has_X true => call returns; false => documented *UndefinedError. Returns {method: value}."""
    got = {}
    cls_feats = _input_class(op)
    for flag, meth, exc in FLAGS:
        if not hasattr(op, flag):
            continue
        if flag == "has_matrix" and "breaks:has_matrix" in tags:
            continue
        val = bool(getattr(op, flag))
        try:
            res = getattr(op, meth)()
        except _undefined(exc) as e:
            if val:
                raise Viol("flag-true-but-undefined", f"{name}.{flag} is True but {meth}() raised {type(e).__name__}: {e}", sig=f"{sig}:{flag}",
                           features={"flag": flag, "cls": sig, **cls_feats}) from None
            continue
        except Exception as e:  # noqa: BLE001
            if val:
                raise
            raise Viol("flag-false-wrong-error", f"{name}.{flag} is False but {meth}() raised {type(e).__name__}: {e} instead of {exc}",
                       sig=f"{sig}:{flag}", features={"flag": flag, "cls": sig, **cls_feats}) from None
        if not val:
            raise Viol("flag-false-but-defined", f"{name}.{flag} is False but {meth}() returned {type(res).__name__}", sig=f"{sig}:{flag}",
                       features={"flag": flag, "cls": sig, **cls_feats})
        got[meth] = res
    return got


def _generator_branch(e, observed, order):
    """Pow.generator is documented as z * base.generator(), i.e. exp(i*theta*z*G_base) = U_base(z*theta): a z-th power of the base on
    the angle-scaling branch, while Pow.matrix is the principal power (recorded finding `fractional-pow-branch`). c03._branch_variant
    only recognises that branch when eager pow / simplify / decomposition happen to produce it (not for a Controlled base, nor for a
    base without a pow method such as OrbitalRotation), so those generator mismatches were reported as plain `representations-differ`.
    Here the candidate for each fractional power chain is the exponential of that chain's own generator; it only counts if it is a
    mathematically valid non-principal power of the chain's reference base (commutes with it, C^q == A^p) and substituting it into the
    reference evaluation reproduces `observed`. Returns the kind of the chain's innermost base, else None."""
    import itertools

    import pennylane as qp

    chains = opalg.power_chains(e)[:3]
    cands = []
    for root, inner, z in chains:
        opts = []
        try:
            A, aw = opalg.evaluate(inner, c03._leaf_fallback)  # noqa: SLF001
            P, pw = opalg.evaluate(root, c03._leaf_fallback)  # noqa: SLF001
            c = zoo_extra.build(root)
            if aw and c.has_generator and c.num_params == 1 and np.ndim(c.data[0]) == 0:
                G_op = c.generator()
                G = _dense(G_op.sparse_matrix(wire_order=aw)) if isinstance(G_op, qp.SparseHamiltonian) else np.asarray(
                    qp.matrix(G_op, wire_order=aw), dtype=complex)
                C = sla.expm(1j * complex(np.asarray(c.data[0])) * G)
                # 1e-5: some generators are stored in single precision (DoubleExcitationMinus/Plus: complex64), so z * G and hence
                # C^q carry ~1e-7 rounding; the comparison clause itself tolerates 1e-6 for fractional powers
                if opalg.is_other_branch(C, A, z, sim.embed(P, pw, aw), tol=1e-5):
                    opts.append(C)
        except Exception:  # noqa: BLE001  (classification only: no candidate)
            pass
        cands.append(opts)
    for combo in itertools.product(*[[None] + o for o in cands]):
        ov = {id(ch[0]): c for ch, c in zip(chains, combo) if c is not None}
        if not ov:
            continue
        try:
            R2, rw = opalg.evaluate(e, c03._leaf_fallback, ov)  # noqa: SLF001
        except opalg.BranchCut:
            continue
        if _close(observed, sim.embed(R2, rw, order), 1e-6):
            return next(ch[1]["op"] for ch, c in zip(chains, combo) if c is not None)
    return None


def _has_ctor(s, kind):
    if not isinstance(s, dict):
        return False
    if s.get("op") == kind:
        return True
    kids = [s[k] for k in ("base", "compute", "target", "uncompute") if isinstance(s.get(k), dict)] + list(s.get("operands") or [])
    return any(_has_ctor(k, kind) for k in kids)


def _has_ctor_leaf(s, name):
    if isinstance(s, dict):
        if s.get("op") == name:
            return True
        return any(_has_ctor_leaf(v, name) for v in s.values())
    if isinstance(s, list):
        return any(_has_ctor_leaf(v, name) for v in s)
    return False


def _leaf_name(s):
    while isinstance(s, dict) and "base" in s and s["op"] in ("adjoint", "pow", "ctrl", "s_prod", "exp", "evolution"):
        s = s["base"]
    return s["op"]


def check(spec):
    import pennylane as qp

    if spec.get("coverage"):
        return Result(False, labels=zoo_extra.coverage_labels())
    e = spec["expr"]
    order = [wire(w) for w in spec["order"]]
    cls_label = e["op"] if e["op"] in zoo.ZOO else "expr"
    tags = zoo.ZOO[e["op"]][2] if e["op"] in zoo.ZOO else set()
    # fractional powers: documented branch-cut domain, computed from the reference base matrix
    if opalg.power_chains(e):
        try:
            opalg.evaluate(e, c03._leaf_fallback)  # noqa: SLF001
        except opalg.BranchCut as b:
            raise Reject(f"fractional power outside the covered range ({b})") from None
    op = zoo_extra.build(e)
    tname = type(op).__name__
    sig = tname if cls_label == "expr" else cls_label
    labels = ["cls:" + cls_label, "type:" + tname]
    own = list(op.wires)
    if not set(own) <= set(order):
        order = own + [w for w in order if w not in own]
    batch = getattr(op, "batch_size", None)
    if spec.get("kind") == "batch" or batch is not None:
        return _check_batch(e, op, labels)

    reps_raw = _capabilities(op, repr(op)[:200], tags, sig)
    reps = {}
    feats = {"cls": sig}

    def fail(clause, a, b, detail=""):
        obs = reps.get(b)
        if opalg.power_chains(e) and obs is not None:
            base = c03._branch_variant(e, obs, order)  # noqa: SLF001
            if base is None and a in reps:
                base = c03._branch_variant(e, reps[a], order)  # noqa: SLF001
            if base is None and "exp(i*theta*G)" in (a, b):
                base = _generator_branch(e, reps["exp(i*theta*G)"], order)
            if base is not None:
                return Viol("fractional-pow-branch", f"stage={clause} {a} vs {b} expr={e}", sig=f"fractional-pow-branch:{base}",
                            features={"fractional_pow_branch": True, "base": base, "stage": clause})
        d = maxdiff(reps[a], reps[b]) if a in reps and b in reps else "n/a"
        return Viol(clause, f"{a} vs {b}: expr={e} op={op!r} order={order} diff={d} {detail}", sig=f"{sig}:{a}-{b}", features=feats)

    # (f) matrix on the requested order vs explicit embedding of the canonical matrix
    if "matrix" in reps_raw:
        M_own = np.asarray(reps_raw["matrix"], dtype=complex)
        if own:
            if M_own.shape != (2 ** len(own),) * 2:
                raise Viol("matrix-shape", f"{op!r}: matrix() shape {M_own.shape} for {len(own)} wires", sig=sig, features=feats)
            reps["matrix"] = np.asarray(qp.matrix(op, wire_order=order), dtype=complex)
            reps["embed(matrix())"] = sim.embed(M_own, own, order)
            if not _close(reps["matrix"], reps["embed(matrix())"]):
                raise fail("wire-order", "embed(matrix())", "matrix")
            del reps["embed(matrix())"]
        else:  # operator on no wires: documented scalar
            if M_own.shape != (1, 1):
                raise Viol("matrix-shape", f"{op!r}: wire-less operator matrix() shape {M_own.shape}", sig=sig, features=feats)
            reps["matrix"] = M_own[0, 0] * np.eye(2 ** len(order), dtype=complex)
            if order:
                Mo = np.asarray(qp.matrix(op, wire_order=order), dtype=complex)
                if not _close(Mo, reps["matrix"]):
                    reps["embed"] = Mo
                    raise fail("wire-order", "matrix", "embed")

    # (a) sparse
    if "sparse_matrix" in reps_raw and own:
        try:
            S = op.sparse_matrix(wire_order=order)
            reps["sparse"] = _dense(S)
        except NotImplementedError:
            labels.append("sparse:no-wire-order")
            reps["sparse"] = sim.embed(_dense(reps_raw["sparse_matrix"]), own, order)

    # (c) decomposition through the reference simulator
    if "decomposition" in reps_raw and "stateprep" not in tags and "channel" not in tags and "workwires" not in tags:
        dec = list(reps_raw["decomposition"])
        names = {type(o).__name__ for o in dec}
        if e["op"] != "TemporaryAND" and _has_ctor_leaf(e, "TemporaryAND"):
            # TemporaryAND is only specified on the target-in-|0> subspace; under wrappers that subspace is no longer a column set
            labels.append("decomp:skipped-wrapped-TemporaryAND")
        elif names & SKIP_DECOMP_OPS or any(getattr(o, "batch_size", None) for o in dec):
            labels.append("decomp:skipped-mcm-or-alloc")
        else:
            dw = [w for o in dec for w in o.wires if w not in order]
            if dw:
                labels.append("decomp:extra-wires")
            else:
                try:
                    reps["decomp"] = sim.unitary(dec, order)
                except qp.exceptions.MatrixUndefinedError:
                    labels.append("decomp:no-matrix-for-some-op")
                except qp.exceptions.DecompositionUndefinedError:
                    labels.append("decomp:no-matrix-for-some-op")

    # (b) eigvals + diagonalizing gates, (g) eigvals multiset
    eig = None
    try:
        eig = np.asarray(op.eigvals(), dtype=complex)
    except qp.exceptions.OperatorPropertyUndefined:  # no has_eigvals flag exists: any undefined-property error = unavailable
        pass
    normal = None
    if "matrix" in reps_raw:
        Mo_ = np.asarray(reps_raw["matrix"], dtype=complex)
        normal = bool(np.allclose(Mo_ @ Mo_.conj().T, Mo_.conj().T @ Mo_, atol=1e-10))
    if eig is not None and own and eig.ndim == 1:
        if eig.shape != (2 ** len(own),):
            raise Viol("eigvals-shape", f"{op!r}: eigvals shape {eig.shape}", sig=sig, features=feats)
        if "diagonalizing_gates" in reps_raw and normal is False:
            labels.append("eig+diag:skipped-non-normal")  # O = U Sigma U^dagger with unitary U presupposes a normal operator
        elif "diagonalizing_gates" in reps_raw:
            dg = list(reps_raw["diagonalizing_gates"])
            if all(set(o.wires) <= set(own) for o in dg):
                D = sim.unitary(dg, own)
                reps["eig+diag"] = sim.embed(D.conj().T @ np.diag(eig) @ D, own, order)
        if "matrix" in reps:
            M_own = np.asarray(reps_raw["matrix"], dtype=complex)
            if normal:
                if not _multiset_close(eig, np.linalg.eigvals(M_own)):
                    raise Viol("eigvals-multiset", f"expr={e} op={op!r} eigvals={np.round(eig, 6).tolist()} numpy={np.round(np.linalg.eigvals(M_own), 6).tolist()}",
                               sig=f"{sig}:eigvals", features=feats)
                labels.append("rep:eigvals-multiset")

    # (d) pauli rep
    pr = getattr(op, "pauli_rep", None)
    if pr is not None and set(pr.wires) <= set(order):
        reps["pauli"] = _pauli_matrix(pr, order)

    # (e) generator
    if "generator" in reps_raw and own and not _has_ctor(e, "exp"):
        G_op = reps_raw["generator"]
        try:
            nparams = op.num_params
            theta = op.data[0] if nparams == 1 else None
        except Exception:  # noqa: BLE001
            theta = None
        if theta is not None and np.ndim(theta) == 0 and set(G_op.wires) <= set(order):
            if isinstance(G_op, qp.SparseHamiltonian):
                G = _dense(G_op.sparse_matrix(wire_order=order))
            else:
                G = np.asarray(qp.matrix(G_op, wire_order=order), dtype=complex)
            z = 1.0
            reps["exp(i*theta*G)"] = sla.expm(1j * complex(np.asarray(theta)) * z * G)
            try:
                obs, pref = qp.generator(op, format="prefactor")
                Go = _dense(obs.sparse_matrix(wire_order=order)) if isinstance(obs, qp.SparseHamiltonian) else np.asarray(qp.matrix(obs, wire_order=order), dtype=complex)
                if not _close(complex(pref) * Go, G):
                    raise Viol("generator-prefactor", f"expr={e} op={op!r}: prefactor*obs != op.generator() (diff {maxdiff(complex(pref) * Go, G)})",
                               sig=f"{sig}:generator", features=feats)
            except qp.exceptions.QuantumFunctionError:
                labels.append("generator:not-verified-hermitian")
            except IndexError as ex:
                from pv.engine import _origin

                origin, where = _origin(ex.__traceback__)
                # input class of a known finding: the generator is a product containing a scaled wire-less identity
                wireless = any(getattr(f, "scalar", None) is not None and len(f.wires) == 0 for f in getattr(G_op, "operands", ()))
                if origin == "sut" and wireless:
                    raise Viol("unexpected-exception", f"IndexError: {ex} in qp.generator({op!r})", sig=f"IndexError@{where}",
                               features={"exc": "IndexError", "where": where, "wireless_identity_sprod": True}) from None
                raise

    names = list(reps)
    anchor = names[0] if names else None
    frac_tol = 1e-6 if opalg.power_chains(e) else TOL  # scipy's fractional_matrix_power (Schur-Pade) is only ~1e-8 accurate
    for other in names[1:]:
        A, B = reps[anchor], reps[other]
        if tname == "TemporaryAND" and other == "decomp":  # documented: valid with the target qubit in |0>
            tpos = order.index(own[-1])
            n = len(order)
            cols = [i for i in range(2 ** n) if not (i >> (n - 1 - tpos)) & 1]
            A, B = A[:, cols], B[:, cols]
        # numerical eigendecompositions (eig+diag) are compared at 1e-6
        if not _close(B, A, max(frac_tol, 1e-6 if "eig+diag" in (anchor, other) else TOL)):
            raise fail("representations-differ", anchor, other)
        labels.append(f"rep:{anchor}={other}")
    M = reps.get(anchor) if anchor else None
    nontrivial = len(names) >= 2 and M is not None and not _close(M, np.eye(M.shape[0]))
    labels.append(f"nreps:{len(names)}")
    return Result(nontrivial, labels=labels + zoo_extra.coverage_labels())


def _check_batch(e, op, labels):
    """Batched named gate: matrix / eigvals equal the stack of the per-element instances."""
    import pennylane as qp

    b = op.batch_size
    if b is None:
        return Result(False, labels=labels + ["batch:none"])
    M = np.asarray(qp.matrix(op), dtype=complex)
    n = len(op.wires)
    if M.shape != (b, 2 ** n, 2 ** n):
        raise Viol("batched-matrix-shape", f"{op!r}: shape {M.shape}, batch {b}", sig=e["op"])
    eig = None
    try:
        eig = np.asarray(op.eigvals(), dtype=complex)
    except qp.exceptions.EigvalsUndefinedError:
        pass
    for i in range(b):
        ei = {**e, "p": [(x[i] if isinstance(x, list) else x) for x in e["p"]]}
        opi = zoo_extra.build(ei)
        Mi = np.asarray(qp.matrix(opi), dtype=complex)
        if not _close(M[i], Mi):
            raise Viol("batched-matrix", f"expr={e} element {i}: diff {maxdiff(M[i], Mi)}", sig=e["op"])
        if eig is not None:
            if eig.shape != (b, 2 ** n):
                raise Viol("batched-eigvals-shape", f"{op!r}: eigvals shape {eig.shape}", sig=e["op"])
            if not _multiset_close(eig[i], np.linalg.eigvals(Mi)):
                raise Viol("batched-eigvals", f"expr={e} element {i}", sig=e["op"])
    if op.has_decomposition:
        dec = op.decomposition()
        try:
            Md = np.asarray(qp.matrix(qp.tape.QuantumScript(dec), wire_order=list(op.wires)), dtype=complex)
            Md = np.broadcast_to(Md, M.shape) if Md.ndim == 2 else Md
            if not _close(Md, M):
                raise Viol("batched-decomposition", f"expr={e}: diff {maxdiff(Md, M)}", sig=e["op"])
            labels.append("batch:decomp")
        except qp.exceptions.MatrixUndefinedError:
            pass
    return Result(True, labels=labels + ["batch:%d" % b])


def selftest():
    sim.selftest()
    opalg.selftest()
    assert _multiset_close([1, -1, 1j], [1j, 1, -1]) and not _multiset_close([1, 1], [1, -1])
