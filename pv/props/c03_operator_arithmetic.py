"""C03 — operator arithmetic agrees with matrix arithmetic."""
import numpy as np
from hypothesis import strategies as st

from pv import gen, zoo, zoo_extra
from pv.cmp import maxdiff
from pv.engine import Reject, Result, Viol
from pv.ref import opalg, sim
from pv.specs import wire

ID = "C03"
TECHNIQUE = ("hypothesis-generated nested operator expressions over the operator zoo; oracle = recursive numpy/scipy evaluation "
             "of the expression *spec* (never of the built object)")
RULE = (
    "Expression specs of depth <= 4 / <= 10 leaves / <= 5 wires over zoo leaves (unitary, hermitian and matrix-free template classes; int, "
    "string and mixed wire labels) with constructors adjoint, pow (ints -3..4; fractions only when the reference base is unitary with "
    "eigenphases (of its matrix) inside (-pi+0.05, pi-0.05)), ctrl (1-2 control wires, random control values, work wires of either type; through qp.ctrl, the "
    "Controlled/ControlledOp2 classes and qp.ctrl of a callable), prod, sum, s_prod (real/complex scalars), exp and evolve on hermitian bases, "
    "change_op_basis, LinearCombination and dot; lazy and eager (lazy=False) variants and the operator dunders (@, +, *, **). Oracle: the spec is "
    "evaluated with numpy (M^dagger, matrix_power/inverse, Schur principal power, block-controlled matrix, embedded ordered product, sum, scalar "
    "multiple, scipy expm, U V T V^dagger) on a random global wire order (all wires permuted plus 0-1 extra); qp.matrix(expr, wire_order) must equal "
    "it at 1e-8 relative; so must qp.matrix(qp.simplify(expr)) and qp.matrix(simplify(simplify(expr))); qp.matrix(qp.map_wires(expr, m), m(order)) for "
    "a random injective relabelling m (permutations of the used labels included) must equal it too and the input must be unchanged. "
    "Non-trivial: depth >= 2 with at least two different constructors."
)
ASSUMPTIONS = [
    "Leaf matrices come from closed forms (pv/ref/gates.py, pv/ref/opalg.py) where available, otherwise from qp.matrix of a separately built "
    "leaf (leaf correctness is C01/C02's subject); which leaves used the fallback is in the histogram as leafref:<Class>.",
    "Negative integer powers only of unitary sub-expressions (inverse of a singular sum is undefined); fractional powers only of unitary "
    "sub-expressions whose matrix eigenphases lie inside (-pi+0.05, pi-0.05), else the case is rejected; the reference is the principal power "
    "(complex Schur form). A mismatch that is explained entirely by PennyLane taking a different branch of the power (its value for the power "
    "sub-expression is a valid non-principal z-th power and substituting it reproduces the observed matrix) is reported under the separate "
    "clause fractional-pow-branch.",
    "Exp with num_steps (Trotter approximation) is not compared exactly (C58).",
    "simplify() drops Pauli words with |coefficient| <= 1e-8 at every level (PauliSentence.prune, documented threshold): a simplify mismatch "
    "below 1e-6 that vanishes when the expression is re-simplified with that threshold set to 0 is accepted (label simplify:pruned-below-1e-8).",
    "Two explicit refusals are rejections, not violations: LinearCombination @ LinearCombination on shared wires (ValueError of "
    "LinearCombination.__matmul__, only reachable through the @ dunder) and qp.map_wires of an expression containing HilbertSchmidt / "
    "LocalHilbertSchmidt (its map_wires only raises NotImplementedError); matrix and simplify are still compared for the latter.",
    "simplify idempotence is recorded (label simplify:not-idempotent) but not asserted: the statement only requires the linear map to be kept.",
]
BUDGET = {"quick": {"examples": 800}, "thorough": {"examples": 40000, "shards": 16}}
SHRINK_LISTS = ("operands",)

TOL = 1e-8
REAL = st.sampled_from([1.0, -1.0, 0.5, 2.0, -0.25, 0.0, 1e-3]) | gen.floats01.map(lambda x: round(2 * x, 4))
CPLX = st.one_of(REAL, st.tuples(gen.floats01, gen.floats01).map(lambda t: {"c": [t[0], t[1]]}),
                 st.sampled_from([{"c": [0.0, 1.0]}, {"c": [0.0, -1.0]}, {"c": [0.0, 0.5]}]))
PHASE = gen.angles().map(lambda a: {"c": [round(float(np.cos(a)), 12), round(float(np.sin(a)), 12)]})
FRAC = st.sampled_from([0.5, -0.5, 0.25, 1.5, 1 / 3, -1.7, 2.5])

CONTROLLED_LEAVES = ["CNOT", "CY", "CZ", "CH", "CRX", "CRY", "CRZ", "CRot", "ControlledPhaseShift", "Toffoli", "CSWAP", "CCZ",
                     "MultiControlledX", "ControlledQubitUnitary"]
HERM_NAMES = ["PauliX", "PauliY", "PauliZ", "Hadamard", "Identity", "Hermitian", "Projector"]


def _breaks():
    """Classes documented (tests/ops/functions/conftest.py::_INSTANCES_TO_FAIL) as breaking an operator convention that
    arithmetic relies on (SparseHamiltonian: non-tensor data; TmpPauliRot: private, has_matrix False)."""
    return tuple(n for n, (_, _, t) in zoo.ZOO.items() if any(x.startswith("breaks:") for x in t))


def _herm_leaf(wires):
    ns = [n for n in zoo.names("herm", exclude=_breaks()) if zoo.ZOO[n][1] <= len(wires)]
    return st.sampled_from(ns).flatmap(lambda n: zoo.ZOO[n][0](wires))


def _unit_leaf(wires):
    opts = [zoo.leaf(wires, "unitary", exclude=_breaks())] * 6
    # templates without a matrix whose decomposition is a unitary circuit (matrix obtained through qp.matrix's decomposition path)
    ns = [n for n in zoo.names("decomp") if zoo.ZOO[n][1] <= len(wires) and not zoo.ZOO[n][2] & {"channel", "stateprep", "nonunitary", "workwires"}]
    if ns:
        opts.append(st.sampled_from(ns).flatmap(lambda n: zoo.ZOO[n][0](wires)))
    return st.one_of(*opts)


@st.composite
def _split(draw, wires, k):
    """k control/work wires and the rest."""
    p = draw(st.permutations(wires))
    return list(p[:k]), list(p[k:])


def _shift_first_angle(s, delta):
    """Copy of the expression with the first numeric leaf parameter shifted by delta (None if there is none)."""
    if not isinstance(s, dict):
        return None
    if "base" in s and isinstance(s["base"], dict):
        b = _shift_first_angle(s["base"], delta)
        return None if b is None else {**s, "base": b}
    if "operands" in s:
        for i, o in enumerate(s["operands"]):
            b = _shift_first_angle(o, delta)
            if b is not None:
                return {**s, "operands": s["operands"][:i] + [b] + s["operands"][i + 1:]}
        return None
    p = s.get("p") or []
    for i, x in enumerate(p):
        if isinstance(x, (int, float)) and not isinstance(x, bool):
            return {**s, "p": p[:i] + [x + delta] + p[i + 1:]}
    return None


@st.composite
def _operands(draw, make, n, kind):
    """n operands; with p=0.35 the last one is a confusable variant of the first (identical, an angle shifted by +-2pi/4pi
    -- same hash class for rotations --, or its adjoint when the kind allows)."""
    ops = [make() for _ in range(n)]
    if draw(st.integers(0, 99)) < 35:
        how = draw(st.sampled_from(["same", "2pi", "-2pi", "4pi", "adjoint"]))
        v = None
        if how == "same":
            v = ops[0]
        elif how == "adjoint":
            v = {"op": "adjoint", "base": ops[0], "lazy": True}
        else:
            v = _shift_first_angle(ops[0], {"2pi": 2 * np.pi, "-2pi": -2 * np.pi, "4pi": 4 * np.pi}[how])
        if v is not None:
            ops[-1] = v
    return ops


@st.composite
def expr(draw, wires, depth, kind):
    """kind: 'U' unitary, 'H' hermitian, 'M' any operator with a matrix."""
    wires = list(wires)
    if depth <= 0 or draw(st.integers(0, 9)) < 2:
        if kind == "H":
            return draw(_herm_leaf(wires))
        if kind == "M" and draw(st.booleans()):
            return draw(_herm_leaf(wires))
        return draw(_unit_leaf(wires))
    d = depth - 1
    sub = lambda k, ws=wires: draw(expr(ws, d, k))  # noqa: E731
    lazy = draw(st.sampled_from([True, True, False]))
    n_ops = draw(st.integers(2, 3))
    if kind == "U":
        c = draw(st.sampled_from(["adjoint", "adjoint", "pow", "pow", "powf", "ctrl", "ctrl", "ctrl", "prod", "prod", "s_prod", "exp", "evolution", "cob"]))
    elif kind == "H":
        c = draw(st.sampled_from(["s_prod", "sum", "sum", "lincomb", "dot", "prodH", "adjoint", "pow+", "exp"]))
    else:
        c = draw(st.sampled_from(["U", "H", "s_prod", "sum", "sum", "prod", "adjoint", "pow+", "ctrl", "exp", "lincomb"]))
    if c in ("U", "H"):
        return draw(expr(wires, depth, c))
    if c == "adjoint":
        return {"op": "adjoint", "base": sub(kind), "lazy": lazy}
    if c == "pow":
        return {"op": "pow", "base": sub("U"), "z": draw(st.integers(-3, 4)), "lazy": lazy, "via": draw(st.sampled_from(["fn", "fn", "dunder"]))}
    if c == "pow+":
        return {"op": "pow", "base": sub(kind), "z": draw(st.integers(0, 3)), "lazy": lazy}
    if c == "powf":
        return {"op": "pow", "base": sub("U"), "z": draw(FRAC), "lazy": lazy}
    if c == "ctrl":
        if len(wires) < 2:
            return sub(kind)
        k = draw(st.integers(1, min(2, len(wires) - 1)))
        nw = draw(st.integers(0, 1)) if len(wires) - k >= 2 else 0
        cws, rest = draw(_split(wires, k + nw))
        ctrl_leaves = [n for n in CONTROLLED_LEAVES if zoo.ZOO[n][1] <= len(rest)]
        if ctrl_leaves and draw(st.integers(0, 9)) < 3:  # controlled version of an already controlled gate (nested controls)
            base = draw(st.sampled_from(ctrl_leaves).flatmap(lambda n: zoo.ZOO[n][0](rest)))
        else:
            base = draw(expr(rest, d, "U" if kind == "U" else draw(st.sampled_from(["U", "U", "M"]))))
        out = {"op": "ctrl", "base": base, "cw": cws[:k],
               "cv": draw(st.lists(st.integers(0, 1), min_size=k, max_size=k)), "via": draw(st.sampled_from(["ctrl", "ctrl", "class", "callable"]))}
        if draw(st.booleans()):
            out["cv"] = None if all(out["cv"]) else out["cv"]
        if nw:
            out["ww"] = cws[k:]
            out["wwt"] = draw(st.sampled_from(["borrowed", "zeroed"]))
        return out
    if c == "prod":
        return {"op": "prod", "operands": draw(_operands(lambda: sub(kind), n_ops, kind)), "lazy": lazy, "via": draw(st.sampled_from(["fn", "fn", "dunder"]))}
    if c == "prodH":  # product of hermitian factors on disjoint wires is hermitian
        if len(wires) < 2:
            return sub("H")
        a, b = draw(_split(wires, draw(st.integers(1, len(wires) - 1))))
        return {"op": "prod", "operands": [draw(expr(a, d, "H")), draw(expr(b, d, "H"))], "lazy": lazy}
    if c == "sum":
        return {"op": "sum", "operands": draw(_operands(lambda: sub(kind), n_ops, kind)), "lazy": lazy, "via": draw(st.sampled_from(["fn", "fn", "dunder"]))}
    if c in ("lincomb", "dot"):
        cs = draw(st.lists(REAL if kind == "H" else CPLX, min_size=n_ops, max_size=n_ops))
        return {"op": c, "coeffs": cs, "operands": draw(_operands(lambda: sub(kind), n_ops, kind))}
    if c == "s_prod":
        sc = draw(PHASE if kind == "U" else REAL if kind == "H" else CPLX)
        return {"op": "s_prod", "c": sc, "base": sub(kind), "lazy": lazy, "via": draw(st.sampled_from(["fn", "fn", "dunder"]))}
    if c == "exp":
        if kind == "U":
            sc = {"c": [0.0, draw(REAL)]}
        elif kind == "H":
            sc = draw(REAL)
        else:
            sc = draw(CPLX)
        return {"op": "exp", "base": sub("H"), "c": sc}
    if c == "evolution":
        return {"op": "evolution", "base": sub("H"), "c": draw(REAL)}
    if c == "cob":
        out = {"op": "cob", "compute": sub("U"), "target": sub("U"), "uncompute": None}
        if draw(st.integers(0, 3)) == 0:
            out["uncompute"] = sub("U")
        return out
    raise AssertionError(c)


@st.composite
def _case(draw, tier):
    n = draw(st.integers(1, 5))
    wires = draw(gen.wire_labels(n))
    e = draw(expr(wires, draw(st.integers(1, 4 if tier == "thorough" else 3)), draw(st.sampled_from(["U", "U", "H", "M"]))))
    used = zoo_extra.spec_wires(e)
    extra = draw(st.sampled_from([[], [], ["zz"], [99]]))
    order = list(draw(st.permutations(used + [x for x in extra if x not in used])))
    pool = draw(st.sampled_from([[10, 11, 12, 13, 14, 15], ["p", "q", "r", "s", "t", "u"], None]))
    if pool is None:  # permutation of the used labels
        tgt = list(draw(st.permutations(used)))
    else:
        tgt = list(draw(st.permutations(pool)))[:len(used)]
    return {"expr": e, "order": order, "map": [[a, b] for a, b in zip(used, tgt)]}


def strategy(tier):
    return _case(tier)


def enumerate_cases(tier):
    yield {"coverage": True}
    X0 = {"op": "PauliX", "w": [0]}
    RX = {"op": "RX", "p": [0.7], "w": [0]}
    H2 = {"op": "Hermitian", "p": [{"H": [0.3, -0.2, 0.9, 0.4, 0.1], "n": 1}], "w": [1]}
    fixed = [
        {"op": "pow", "base": {"op": "pow", "base": {"op": "T", "w": [0]}, "z": 2}, "z": 0.5},
        {"op": "adjoint", "base": {"op": "ctrl", "base": {"op": "prod", "operands": [RX, {"op": "RY", "p": [0.1], "w": [0]}]}, "cw": [1]}},
        {"op": "ctrl", "base": {"op": "ctrl", "base": RX, "cw": [1], "cv": [0]}, "cw": [2], "cv": [1]},
        {"op": "exp", "base": {"op": "sum", "operands": [{"op": "prod", "operands": [X0, {"op": "PauliX", "w": [1]}]},
                                                         {"op": "prod", "operands": [{"op": "PauliY", "w": [0]}, {"op": "PauliY", "w": [1]}]}]}, "c": {"c": [0.0, 0.3]}},
        {"op": "cob", "compute": {"op": "QFT", "w": [0, 1]}, "target": {"op": "CRZ", "p": [0.4], "w": [1, 0]}, "uncompute": None},
        {"op": "sum", "operands": [{"op": "s_prod", "c": 0.5, "base": X0}, H2, {"op": "s_prod", "c": -0.5, "base": X0}], "lazy": False},
        {"op": "prod", "operands": [X0, {"op": "PauliZ", "w": [0]}, {"op": "PauliY", "w": [1]}, X0]},
        {"op": "pow", "base": {"op": "s_prod", "c": {"c": [0.0, 1.0]}, "base": {"op": "CNOT", "w": [0, 1]}}, "z": -3},
        {"op": "ctrl", "base": {"op": "GlobalPhase", "p": [0.7], "w": []}, "cw": [0, 1], "cv": [1, 0]},
        {"op": "ctrl", "base": {"op": "adjoint", "base": {"op": "S", "w": [2]}}, "cw": [0], "via": "class"},
    ]
    # same-wire Pauli factors (every ordered pair / some triples) next to a factor without a Pauli representation: the grouping
    # path of Prod.simplify has to multiply them in operand order (XY = iZ, YX = -iZ)
    names = ["PauliX", "PauliY", "PauliZ"]
    nonp = [{"op": "RX", "p": [0.7], "w": [1]}, {"op": "Hadamard", "w": [1]}, {"op": "CNOT", "w": [1, 2]}, {"op": "RY", "p": [0.3], "w": [0]}]
    k = 0
    for a in names:
        for b in names:
            if a == b:
                continue
            A, B = {"op": a, "w": [0]}, {"op": b, "w": [0]}
            for g in nonp:
                k += 1
                shapes = [[A, B, g], [g, A, B], [A, g, B], [A, B, g, B, A], [{"op": "prod", "operands": [A, B]}, g],
                          [A, {"op": "s_prod", "c": -0.5, "base": B}, g], [A, B, {"op": a, "w": [1]}, g, {"op": b, "w": [1]}]]
                fixed.append({"op": "prod", "operands": shapes[k % len(shapes)]})
                fixed.append({"op": "prod", "operands": shapes[(k + 3) % len(shapes)]})
            c = [n for n in names if n not in (a, b)][0]
            fixed.append({"op": "prod", "operands": [A, B, {"op": c, "w": [0]}, nonp[0], B]})
    # same-axis rotations that cancel and are followed by further equal rotations (the merged factor is an Identity in between)
    for r in ("RX", "RY", "RZ"):
        for a in (0.7, -1.3):
            R = lambda x, r=r: {"op": r, "p": [x], "w": [0]}  # noqa: E731
            fixed.append({"op": "prod", "operands": [R(a), R(-a), R(-a)]})
            fixed.append({"op": "prod", "operands": [R(a), R(-a), R(-a), R(-a), {"op": "Hadamard", "w": [0]}]})
            fixed.append({"op": "prod", "operands": [{"op": "Hadamard", "w": [1]}, R(a), R(round(4 * np.pi - a, 12)), R(round(4 * np.pi - a, 12)), R(a)]})
            fixed.append({"op": "prod", "operands": [R(a), {"op": "pow", "base": R(-a), "z": 2}, R(a), R(a), R(a)]})
    for e in fixed:
        used = zoo_extra.spec_wires(e)
        yield {"expr": e, "order": list(reversed(used)) + ["zz"], "map": [[w, f"m{i}"] for i, w in enumerate(used)]}


def _leaf_fallback(s):
    import pennylane as qp

    op = zoo_extra.build(s)
    ws = list(op.wires)
    M = qp.matrix(op, wire_order=ws) if ws else qp.matrix(op)
    return np.asarray(M, dtype=complex), ws


def _stats(s, acc, depth=1):
    acc["depth"] = max(acc["depth"], depth)
    kind = s["op"]
    kids = [s[k] for k in ("base", "compute", "target", "uncompute") if isinstance(s.get(k), dict)] + list(s.get("operands") or [])
    if kind == "pow" and not float(s["z"]).is_integer():
        acc["frac"] = True
    if kids:
        acc["ctors"].add(kind)
        for k in kids:
            _stats(k, acc, depth + 1)
    else:
        acc["leaves"].append(kind)
    return acc


def _close(A, B, tol=None):
    A = np.asarray(A)
    B = np.asarray(B)
    if A.shape != B.shape:
        return False
    scale = max(1.0, float(np.abs(B).max()))
    return bool(np.all(np.abs(A - B) <= (tol or _TOL[0]) * scale))


_TOL = [TOL]  # 1e-6 while checking an expression with a fractional power (scipy's Schur-Pade power is ~1e-8 accurate)


def _qmatrix(op, order):
    import pennylane as qp

    try:
        return np.asarray(qp.matrix(op, wire_order=order), dtype=complex)
    except qp.exceptions.MatrixUndefinedError:
        raise Reject("qp.matrix: no matrix, sparse matrix or decomposition (documented)") from None
    except qp.exceptions.DecompositionUndefinedError:
        raise Reject("qp.matrix: decomposition path undefined for a nested matrix-free operand") from None


def _branch_variant(e, observed, order):
    """If `observed` differs from the reference only by the branch chosen for a fractional power (the value PennyLane's
    pow / eager pow / simplify / Pow.decomposition gives for a pow/adjoint chain containing a fractional exponent is a valid
    non-principal power of the chain's innermost base -- it commutes with it and C^q = A^p for the total exponent p/q -- and
    substituting it reproduces `observed`), return the kind of that innermost base."""
    import itertools

    import pennylane as qp

    chains = opalg.power_chains(e)[:3]
    if not chains:
        return None
    cands, built = [], []
    for root, inner, z in chains:
        try:
            A, aw = opalg.evaluate(inner, _leaf_fallback)
            P, pw = opalg.evaluate(root, _leaf_fallback)
        except opalg.BranchCut:
            return None
        P = sim.embed(P, pw, aw)
        makers = (lambda: zoo_extra.build(root),  # noqa: B023
                  lambda: zoo_extra.build(_eager(root)),  # noqa: B023
                  lambda: qp.simplify(zoo_extra.build(root)),  # noqa: B023
                  lambda: qp.prod(*reversed(zoo_extra.build(root).decomposition())))  # noqa: B023
        opts, every = [], []
        for mk in makers:
            try:
                c = mk()
                C = np.asarray(qp.matrix(c, wire_order=aw) if aw else qp.matrix(c), dtype=complex)
            except Exception:  # noqa: BLE001
                continue
            if not any(np.allclose(C, o, atol=1e-9) for o in every):
                every.append(C)
            if opalg.is_other_branch(C, A, z, P) and not any(np.allclose(C, o, atol=1e-9) for o in opts):
                opts.append(C)
        cands.append(opts)
        built.append(every)
    # Nested chains (a fractional power inside the base of another one, e.g. pow(ctrl(prod(pow(GlobalPhase(4pi), 0.25))), 0.25)): the
    # inner chain's value on PennyLane's branch changes the matrix the outer power is taken of (possibly onto the cut, where no principal
    # value is covered), so PennyLane's values of the outer chain are tested again as powers of that changed base.
    for i, (root_i, inner_i, z_i) in enumerate(chains):
        for j, (root_j, _, _) in enumerate(chains):
            if i == j or not _contains(inner_i, root_j):
                continue
            for cj in list(cands[j]):
                ov = {id(root_j): cj}
                try:
                    A2, _ = opalg.evaluate(inner_i, _leaf_fallback, ov)
                except opalg.BranchCut:
                    continue
                try:
                    P2 = opalg.evaluate(root_i, _leaf_fallback, ov)[0]
                except opalg.BranchCut:
                    P2 = None
                for C in built[i]:
                    ref = P2 if P2 is not None and P2.shape == C.shape else np.full(C.shape, np.nan)
                    if opalg.is_other_branch(C, A2, z_i, ref) and not any(np.allclose(C, o, atol=1e-9) for o in cands[i]):
                        cands[i].append(C)
    for combo in itertools.product(*[[None] + o for o in cands]):
        ov = {id(ch[0]): c for ch, c in zip(chains, combo) if c is not None}
        if not ov:
            continue
        try:
            R2, rw = opalg.evaluate(e, _leaf_fallback, ov)
        except opalg.BranchCut:
            continue
        if _close(observed, sim.embed(R2, rw, order)):
            return next(ch[1]["op"] for ch, c in zip(chains, combo) if c is not None)
    return None


def _contains(x, node):
    """Is `node` (by identity) a sub-expression of the spec x?"""
    if x is node:
        return True
    if not isinstance(x, dict):
        return False
    kids = [x[k] for k in ("base", "compute", "target", "uncompute") if isinstance(x.get(k), dict)] + list(x.get("operands") or [])
    return any(_contains(k, node) for k in kids)


def _eager(s):
    """The power chain with every node eager (lazy=False)."""
    if isinstance(s, dict) and s.get("op") in ("pow", "adjoint"):
        return {**s, "lazy": False, "base": _eager(s["base"])}
    return s


PRUNE_SLACK = 1e-6  # at most ~100 dropped Pauli words of weight <= 1e-8 each


def _pruning_explains(e, observed, R, order, times):
    """Every simplify() of the arithmetic classes drops the Pauli words of an operator's Pauli representation whose coefficient is at most
    1e-8 (PauliSentence.prune(tol=1e-8), documented there), at every nesting level and before like terms are collected: e.g. the three
    cross terms -1e-8 * X of (-0.25 X + 0.0002 I(3) + 0.0 * Hermitian)**3 are dropped one by one, a deviation of 3e-8. Such a deviation is
    not a violation: a small mismatch (<= PRUNE_SLACK, relative to max(1, |R|)) is accepted iff it disappears completely when the expression
    is rebuilt and simplified with that threshold set to 0 (simplify mutates the cached pauli_rep in place, hence the rebuild)."""
    import pennylane as qp
    from pennylane.pauli import PauliSentence

    if not _close(observed, R, PRUNE_SLACK):
        return False
    orig = PauliSentence.prune
    PauliSentence.prune = lambda self, tol=0.0: orig(self, 0.0)
    try:
        S = zoo_extra.build(e)
        for _ in range(times):
            S = qp.simplify(S)
        return _close(_qmatrix(S, order), R)
    except Exception:  # noqa: BLE001
        return False
    finally:
        PauliSentence.prune = orig


def _lincomb_matmul(s):
    """True when the spec has a product written with @ in which at least two operands contain a LinearCombination / dot node."""
    if not isinstance(s, dict):
        return False
    kids = [s[k] for k in ("base", "compute", "target", "uncompute") if isinstance(s.get(k), dict)] + list(s.get("operands") or [])
    if s.get("op") == "prod" and s.get("via") == "dunder":
        def has_lc(x):
            return isinstance(x, dict) and (x.get("op") in ("lincomb", "dot") or any(
                has_lc(k) for k in [x.get(k) for k in ("base", "compute", "target", "uncompute")] + list(x.get("operands") or [])))
        if sum(1 for o in s.get("operands") or [] if has_lc(o)) >= 2:
            return True
    return any(_lincomb_matmul(k) for k in kids)


def _mismatch(clause, e, observed, order, detail, sig, feats):
    base = _branch_variant(e, observed, order) if observed is not None else None
    if base is not None:
        return Viol("fractional-pow-branch", f"stage={clause} {detail}", sig=f"fractional-pow-branch:{base}",
                    features={"fractional_pow_branch": True, "base": base, "stage": clause})
    return Viol(clause, detail, sig=sig, features=feats)


def check(spec):
    import pennylane as qp

    if spec.get("coverage"):
        return Result(False, labels=zoo_extra.coverage_labels())
    e = spec["expr"]
    order = [wire(w) for w in spec["order"]]
    _TOL[0] = 1e-6 if opalg.power_chains(e) else TOL
    before = dict(opalg.FALLBACK_LEAVES)
    try:
        R, rw = opalg.evaluate(e, _leaf_fallback)
    except opalg.BranchCut as b:
        raise Reject(f"fractional power outside the covered range ({b})") from None
    if not np.all(np.isfinite(R)) or np.abs(R).max() > 1e6:
        raise Reject("reference matrix too large / not finite")
    R = sim.embed(R, rw, order)
    acc = _stats(e, {"depth": 0, "ctors": set(), "leaves": [], "frac": False})
    # input-class features (used to bucket root causes and to match known findings on the input class only)
    inter = opalg.interleaved_prod(e, _leaf_fallback)
    gp_in_prod = "GlobalPhase" in acc["leaves"] and "prod" in acc["ctors"]
    frac = acc["frac"]
    sig = "globalphase-in-prod" if gp_in_prod else "interleaved-prod" if inter else ("+".join(sorted(acc["ctors"])) or "leaf")
    feats = {"ctors": sorted(acc["ctors"]), "leaves": sorted(set(acc["leaves"])), "interleaved_prod": inter,
             "globalphase_in_prod": gp_in_prod, "fractional_pow": frac}

    try:
        op = zoo_extra.build(e)
    except ValueError as ex:
        # LinearCombination.__matmul__ refuses another LinearCombination on shared wires with this explicit ValueError (legacy
        # Hamiltonian convention, linear_combination.py); the generator used to count `lc @ lc` (prod via the dunder) as a valid input.
        if "LinearCombinations can only be multiplied together" in str(ex) and _lincomb_matmul(e):
            raise Reject("LinearCombination @ LinearCombination on shared wires (documented ValueError)") from None
        raise
    M = _qmatrix(op, order)
    if not _close(M, R):
        raise _mismatch("matrix", e, M, order, f"expr={e} order={order} built={op!r} diff={maxdiff(M, R)}", sig, feats)

    labels = ["ctor:" + c for c in sorted(acc["ctors"])] + ["type:" + type(op).__name__] + sorted({"leaf:" + n for n in acc["leaves"]})
    labels += ["leafref:" + k for k, v in opalg.FALLBACK_LEAVES.items() if v > before.get(k, 0)]

    # simplify keeps the linear map (twice, too)
    S = qp.simplify(op)
    MS = _qmatrix(S, order) if set(S.wires) <= set(order) else None
    if MS is None or not _close(MS, R):
        if MS is None or not _pruning_explains(e, MS, R, order, 1):
            raise _mismatch("simplify", e, MS, order, f"expr={e} built={op!r} simplified={S!r} diff={None if MS is None else maxdiff(MS, R)}", sig, feats)
        labels.append("simplify:pruned-below-1e-8")
    S2 = qp.simplify(S)
    MS2 = _qmatrix(S2, order)
    if not _close(MS2, R):
        if not _pruning_explains(e, MS2, R, order, 2):
            raise _mismatch("simplify-twice", e, MS2, order, f"expr={e} simplified={S!r} again={S2!r} diff={maxdiff(MS2, R)}", sig, feats)
        labels.append("simplify:pruned-below-1e-8")
    try:
        idem = bool(qp.equal(S, S2))
    except Exception:  # noqa: BLE001
        idem = False
    labels.append("simplify:" + ("idempotent" if idem else "not-idempotent"))
    labels.append("simplify:" + ("changed" if type(S) is not type(op) or S.arithmetic_depth != op.arithmetic_depth else "same-shape"))

    # map_wires changes the map only by the relabelling
    m = {wire(a): wire(b) for a, b in spec["map"]}
    fresh = iter([f"_x{i}" for i in range(len(order))])
    morder = [m[w] if w in m else (w if w not in m.values() else next(fresh)) for w in order]
    try:
        op2 = qp.map_wires(op, m)
    except NotImplementedError as ex:
        # HilbertSchmidt.map_wires (inherited by LocalHilbertSchmidt) is declared unsupported: it only raises NotImplementedError("Mapping
        # the wires of HilbertSchmidt is not implemented."). Relabelling such an expression is outside map_wires' domain (matrix and
        # simplify were compared above).
        if "Mapping the wires of HilbertSchmidt is not implemented" in str(ex) and {"HilbertSchmidt", "LocalHilbertSchmidt"} & set(acc["leaves"]):
            raise Reject("map_wires of (Local)HilbertSchmidt is declared not implemented") from None
        raise
    M2 = _qmatrix(op2, morder)
    if not _close(M2, R):
        raise Viol("map_wires", f"expr={e} map={spec['map']} mapped={op2!r} diff={maxdiff(M2, R)}", sig=sig, features=feats)
    if set(op2.wires) != {m.get(w, w) for w in op.wires}:
        raise Viol("map_wires-wires", f"expr={e} map={spec['map']} wires={list(op2.wires)} expected={[m.get(w, w) for w in op.wires]}", sig=sig, features=feats)
    M3 = _qmatrix(op, order)
    if not _close(M3, R):
        raise Viol("map_wires-mutated-input", f"expr={e} map={spec['map']}", sig=sig, features=feats)
    return Result(acc["depth"] >= 2 and len(acc["ctors"]) >= 2, labels=labels + zoo_extra.coverage_labels())


def selftest():
    sim.selftest()
    opalg.selftest()
