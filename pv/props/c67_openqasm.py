"""C67 — OpenQASM export preserves the circuit; from_qasm3 import matches the source program."""
import math

import numpy as np
from hypothesis import strategies as st

from pv import gen, specs
from pv.cmp import close
from pv.engine import Reject, Result, Viol
from pv.ref import gates as G
from pv.ref import qasm2, sim

ID = "C67"
TECHNIQUE = "hypothesis-generated circuits exported with to_openqasm and re-evaluated by an independent OpenQASM 2 evaluator (openqasm3 parser + qelib1 table); grammar-generated OpenQASM 3 programs imported with from_qasm3 vs a reference interpreter"
RULE = (
    "Export: circuits over every gate in OPENQASM_GATES (read at run time; 1-4 wires, int/str labels, depth<=10, boundary-biased "
    "angles), options wires (None / permutation of the circuit wires / with extra wires), rotations, measure_all, precision in "
    "{None,4..12}, terminal measurements (expval/var/probs/sample of Pauli words needing diagonalising rotations). Oracle: the text "
    "parses with the independent openqasm3 parser; its unitary under the qelib1.inc definitions equals the reference-simulator "
    "unitary of the circuit (+ diagonalising gates when rotations=True) up to a global phase within depth*10^-precision, with wire "
    "w -> q[wires.index(w)]; the measured (qubit, bit) map is q[i]->c[i] for all i (measure_all) or exactly the measured wires. "
    "Import: OpenQASM 3 programs from a small grammar (stdgates calls with constant-expression parameters, ctrl@/negctrl@/inv@/pow(k)@ "
    "modifiers, classical constants, for loops over ranges, if on constants, user gate definitions); oracle: a reference "
    "interpreter of the same subset gives the unitary; the ops queued by from_qasm3 give the same unitary (1e-8, up to phase). "
    "Non-trivial: >=1 parametrised and >=1 two-qubit gate."
)
ASSUMPTIONS = ["Mid-circuit measurements / conditionals are not generated for the export clause.",
               "gphase statements are compared up to global phase only."]
BUDGET = {"quick": {"examples": 700}, "thorough": {"examples": 30000, "shards": 16}}
SHRINK_LISTS = ("ops", "meas", "stmts")


_POOL = None


def _pool():
    global _POOL
    if _POOL is not None:
        return _POOL
    from pennylane.io.to_openqasm import OPENQASM_GATES

    pool = {}
    for name in OPENQASM_GATES:
        if name in gen.ALL_GATES:
            pool[name] = gen.ALL_GATES[name]
    _POOL = (pool, list(OPENQASM_GATES))
    return _POOL


@st.composite
def _export_case(draw):
    pool, names = _pool()
    n = draw(st.integers(1, 4))
    wires = draw(gen.wire_labels(n))
    ops = draw(gen.op_list(wires, pool, 10, p_derive=0.1))
    out = []
    for o in ops:   # derive() may create adjoint(X): keep only Adjoint(S)/Adjoint(T), which are in the table
        if o["op"] == "adjoint" and o["base"]["op"] not in ("S", "T"):
            o = o["base"]
            while o["op"] == "adjoint":
                o = o["base"]
        elif o["op"] == "adjoint" and o["base"]["op"] == "adjoint":
            o = o["base"]["base"]
        out.append(o)
    if draw(st.booleans()):
        out.insert(draw(st.integers(0, len(out))), {"op": "Identity", "p": [], "w": [draw(st.sampled_from(wires))]})
    if draw(st.integers(0, 4)) == 0:
        out.insert(draw(st.integers(0, len(out))), {"op": "GlobalPhase", "p": [draw(gen.angles())], "w": []})
    meas = draw(st.lists(st.one_of(
        gen.pauli_word_obs(wires).map(lambda o: {"mp": "expval", "obs": o}),
        st.integers(1, n).flatmap(lambda k: gen.subset(wires, k)).map(lambda w: {"mp": "probs", "w": w}),
        st.integers(1, n).flatmap(lambda k: gen.subset(wires, k)).map(lambda w: {"mp": "sample", "w": w})), min_size=0, max_size=2))
    # measured wires must be disjoint for diagonalizing gates to be well defined
    seen, meas2 = set(), []
    for m in meas:
        ws = set(map(repr, specs.spec_wires(m)))
        if ws & seen:
            continue
        seen |= ws
        meas2.append(m)
    wmode = draw(st.sampled_from(["none", "none", "perm", "extra"]))
    wopt = None
    if wmode == "perm":
        wopt = list(draw(st.permutations(wires)))
    elif wmode == "extra":
        wopt = list(draw(st.permutations(wires + ["zz9"])))
    return {"kind": "export", "ops": out, "meas": meas2, "wires": wires, "wopt": wopt, "rotations": draw(st.booleans()),
            "measure_all": draw(st.booleans()), "precision": draw(st.sampled_from([None, None, 4, 6, 8, 12]))}


# ---- OpenQASM 3 import grammar ---------------------------------------------------------------
G1 = ["x", "y", "z", "h", "s", "sdg", "t", "tdg", "sx", "id"]
G1P = ["rx", "ry", "rz", "p", "phase"]
G2 = ["cx", "cy", "cz", "ch", "swap"]
G2P = ["crx", "cry", "crz", "cp", "cphase"]
G3 = ["ccx", "cswap"]


@st.composite
def _gate_stmt(draw, nq):
    kind = draw(st.sampled_from(["g1", "g1", "g1p", "g1p", "g2", "g2p", "g3", "u3"]))
    if kind in ("g2", "g2p") and nq < 2 or kind == "g3" and nq < 3:
        kind = "g1p"
    name = draw(st.sampled_from({"g1": G1, "g1p": G1P, "g2": G2, "g2p": G2P, "g3": G3, "u3": ["U", "u3"]}[kind]))
    k = {"g1": 1, "g1p": 1, "g2": 2, "g2p": 2, "g3": 3, "u3": 1}[kind]
    npar = {"g1": 0, "g1p": 1, "g2": 0, "g2p": 1, "g3": 0, "u3": 3}[kind]
    params = [draw(st.one_of(gen.generic_angles().map(lambda x: ("num", x)),
                             st.sampled_from([("pi", 1.0), ("pi", 0.5), ("pi", -0.25), ("var", "theta"), ("var2", "theta")])))
              for _ in range(npar)]
    mods = []
    free = nq - k
    for _ in range(draw(st.integers(0, 2))):
        m = draw(st.sampled_from(["inv", "pow", "ctrl", "negctrl"]))
        if m in ("ctrl", "negctrl"):
            if free < 1:
                continue
            free -= 1
            mods.append((m, 1))
        elif m == "pow":
            mods.append(("pow", draw(st.sampled_from([2, 3, -1, 0]))))
        else:
            mods.append(("inv", None))
    nctrl = sum(1 for m in mods if m[0] in ("ctrl", "negctrl"))
    qs = draw(gen.subset(list(range(nq)), k + nctrl))
    return {"s": "gate", "name": name, "params": params, "mods": mods, "q": qs}


@st.composite
def _import_case(draw):
    nq = draw(st.integers(1, 4))
    theta = draw(gen.generic_angles())
    stmts = []
    for _ in range(draw(st.integers(1, 8))):
        kind = draw(st.sampled_from(["gate"] * 5 + ["for", "if", "custom"]))
        if kind == "gate":
            stmts.append(draw(_gate_stmt(nq)))
        elif kind == "for":
            stmts.append({"s": "for", "n": draw(st.integers(0, 3)), "body": [draw(_gate_stmt(nq)) for _ in range(draw(st.integers(1, 2)))]})
        elif kind == "if":
            stmts.append({"s": "if", "cond": draw(st.booleans()), "body": [draw(_gate_stmt(nq))], "else": [draw(_gate_stmt(nq))] if draw(st.booleans()) else []})
        else:
            stmts.append({"s": "custom", "angle": draw(gen.generic_angles()), "q": draw(gen.subset(list(range(nq)), min(2, nq)))})
    return {"kind": "import", "nq": nq, "theta": theta, "stmts": stmts, "decl": draw(st.sampled_from(["scalar", "scalar", "scalar", "indexed"])),
            "use_wire_map": draw(st.booleans())}


def strategy(tier):
    _pool()   # import pennylane outside the strategies
    return st.one_of(_export_case(), _export_case(), _import_case())


# ---- oracle: export -------------------------------------------------------------------------

def _check_export(spec):
    import pennylane as qp

    tape = specs.build_tape(spec)
    wires = [specs.wire(w) for w in spec["wires"]]
    wopt = [specs.wire(w) for w in spec["wopt"]] if spec["wopt"] else None
    try:
        text = qp.to_openqasm(tape, wires=qp.wires.Wires(wopt) if wopt else None, rotations=spec["rotations"],
                              measure_all=spec["measure_all"], precision=spec["precision"])
    except ValueError as e:
        if "not supported by the QASM serializer" in str(e):
            raise Reject("unsupported op (documented ValueError)") from None
        raise
    order = wopt if wopt else list(tape.wires)
    feats = {"kind": "export", "wires_opt": "given" if wopt else "none", "measure_all": spec["measure_all"]}
    if len(tape.wires) == 0:
        raise Reject("empty circuit")
    try:
        r = qasm2.evaluate(text)
    except Exception as e:  # noqa: BLE001 - the emitted text must be a valid OpenQASM 2 program over qelib1
        if "gphase" in text and "gphase" in str(e):
            raise Reject("gphase is not OpenQASM 2") from None
        raise Viol("emitted-text-invalid", f"{type(e).__name__}: {e}\n{text}", sig="invalid:" + type(e).__name__, features=feats) from None
    if r["n"] != len(order):
        raise Viol("register-size", f"qreg {r['n']} != {len(order)}\n{text}", sig="register", features=feats)
    ops = list(tape.operations)
    if spec["rotations"]:
        ops = ops + list(tape.diagonalizing_gates)
    U = sim.unitary(ops, order)
    depth = max(1, len(ops))
    # `precision` is applied as significant digits (format spec '.{p}'); angles reach 4*pi, i.e. two integer digits
    tol = 1e-8 if spec["precision"] is None else depth * 10.0 ** (-spec["precision"] + 2)
    if not sim.allclose_phase(r["U"], U, tol):
        raise Viol("unitary", f"opts wires={wopt} rot={spec['rotations']} prec={spec['precision']} ops={spec['ops']} meas={spec['meas']}\n{text}",
                   sig="unitary:" + ("wires-given" if wopt else "default"), features=feats)
    got = sorted((q, c) for q, _, c in r["measured"])
    if spec["measure_all"]:
        exp = [(i, i) for i in range(len(order))]
    else:
        mw = []
        for m in tape.measurements:
            for w in m.wires:
                if w not in mw:
                    mw.append(w)
        exp = sorted((order.index(w), i) for i, w in enumerate(mw))
    if got != exp:
        raise Viol("measured-register", f"measured {got} expected {exp}; wires opt={wopt} circuit wires={list(tape.wires)} meas={spec['meas']}\n{text}",
                   sig="measured:" + ("wires-given" if wopt else "default"), features=feats)
    names = {o["op"] for o in spec["ops"]}
    nt = any(gen.ALL_GATES.get(o["op"], (0, 0))[0] > 0 for o in spec["ops"]) and any(len(o.get("w", [])) >= 2 for o in spec["ops"])
    return Result(nt, labels=["export", "prec=" + str(spec["precision"]), "wires=" + ("given" if wopt else "none")] + sorted(names))


# ---- oracle: import -------------------------------------------------------------------------

def _pstr(p, theta):
    k, v = p
    if k == "num":
        return repr(v), v
    if k == "pi":
        return f"({v} * pi)", v * math.pi
    if k == "var":
        return "theta", theta
    return "(theta / 2 + 0.25)", theta / 2 + 0.25


def _std(name, ps):
    t = {"x": G.X, "y": G.Y, "z": G.Z, "h": G.H, "s": G.S, "sdg": G.S.conj().T, "t": G.T, "tdg": G.T.conj().T, "sx": G.SX, "id": G.I2,
         "cx": G.controlled(G.X), "cy": G.controlled(G.Y), "cz": G.controlled(G.Z), "ch": G.controlled(G.H), "swap": G.SWAP,
         "ccx": G.controlled(G.X, 2), "cswap": G.controlled(G.SWAP)}
    if name in t:
        return t[name]
    if name == "rx":
        return G.RX(ps[0])
    if name == "ry":
        return G.RY(ps[0])
    if name == "rz":
        return G.RZ(ps[0])
    if name in ("p", "phase"):
        return G.PhaseShift(ps[0])
    if name == "crx":
        return G.controlled(G.RX(ps[0]))
    if name == "cry":
        return G.controlled(G.RY(ps[0]))
    if name == "crz":
        return G.controlled(G.RZ(ps[0]))
    if name in ("cp", "cphase"):
        return G.controlled(G.PhaseShift(ps[0]))
    if name in ("U", "u3"):
        return G.U3(*ps)
    raise KeyError(name)


_DECL = {"mode": "scalar"}


def _qn(i):
    return f"q{i}" if _DECL["mode"] == "scalar" else f"q[{i}]"


def _text(stmt, theta, indent=""):
    """OpenQASM 3 source lines of one statement."""
    if stmt["s"] == "gate":
        strs = [_pstr(p, theta)[0] for p in stmt["params"]]
        prefix = "".join({"inv": "inv @ ", "pow": f"pow({a}) @ ", "ctrl": "ctrl @ ", "negctrl": "negctrl @ "}[m] for m, a in stmt["mods"])
        args = "(" + ", ".join(strs) + ")" if strs else ""
        qs = ", ".join(_qn(i) for i in stmt["q"])
        return [f"{indent}{prefix}{stmt['name']}{args} {qs};"]
    if stmt["s"] == "for":
        out = [f"{indent}for int i in [0:{stmt['n'] - 1}] {{"]
        for b in stmt["body"]:
            out += _text(b, theta, indent + "  ")
        return out + [indent + "}"]
    if stmt["s"] == "if":
        out = [f"{indent}if (flag == {'true' if stmt['cond'] else 'false'}) {{"]
        for b in stmt["body"]:
            out += _text(b, theta, indent + "  ")
        if stmt["else"]:
            out.append(indent + "} else {")
            for b in stmt["else"]:
                out += _text(b, theta, indent + "  ")
        return out + [indent + "}"]
    qs, a = stmt["q"], stmt["angle"]
    if len(qs) == 2:
        return [f"{indent}mygate2({a!r}) {_qn(qs[0])}, {_qn(qs[1])};"]
    return [f"{indent}mygate1({a!r}) {_qn(qs[0])};"]


_RANGE = {"inclusive": True}


def _apply(stmt, theta, U):
    """Reference semantics of one statement on the unitary tensor U (flag is declared true). OpenQASM 3 ranges
    [a:b] include b (spec: `for uint i in [0:2:20]` visits 0, 2, ..., 20)."""
    if stmt["s"] == "gate":
        vals = [_pstr(p, theta)[1] for p in stmt["params"]]
        M = _std(stmt["name"], vals)
        # modifiers nest: `ctrl @ inv @ g` is ctrl(inv(g)); the innermost (rightmost) is applied first
        for m, a in reversed(stmt["mods"]):
            if m == "inv":
                M = M.conj().T
            elif m == "pow":
                M = np.linalg.matrix_power(M if a >= 0 else M.conj().T, abs(a))
            elif m == "ctrl":
                M = G.controlled(M, 1, [1])
            else:
                M = G.controlled(M, 1, [0])
        return sim.apply(U, M, list(stmt["q"]), batch_axes=1)
    if stmt["s"] == "for":
        for _ in range(max(stmt["n"] - (0 if _RANGE["inclusive"] else 1), 0)):
            for b in stmt["body"]:
                U = _apply(b, theta, U)
        return U
    if stmt["s"] == "if":
        for b in (stmt["body"] if stmt["cond"] else stmt["else"]):
            U = _apply(b, theta, U)
        return U
    qs, a = stmt["q"], stmt["angle"]
    if len(qs) == 2:
        U = sim.apply(U, G.RY(a), [qs[0]], batch_axes=1)
        U = sim.apply(U, G.controlled(G.X), [qs[0], qs[1]], batch_axes=1)
        return sim.apply(U, G.RZ(a / 2), [qs[1]], batch_axes=1)
    U = sim.apply(U, G.H, [qs[0]], batch_axes=1)
    return sim.apply(U, G.RX(a), [qs[0]], batch_axes=1)


def _check_import(spec):
    import pennylane as qp

    nq, theta = spec["nq"], spec["theta"]
    _DECL["mode"] = spec.get("decl", "scalar")
    decl = [f"qubit[{nq}] q;"] if _DECL["mode"] == "indexed" else [f"qubit q{i};" for i in range(nq)]
    lines = ["OPENQASM 3.0;"] + decl + [f"const float theta = {theta!r};", "bool flag = true;",
             "gate mygate1(a) r { h r; rx(a) r; }", "gate mygate2(a) r0, r1 { ry(a) r0; cx r0, r1; rz(a / 2) r1; }"]
    U = np.eye(2**nq, dtype=complex).reshape((2,) * nq + (2**nq,))
    Ux = U
    for stmt in spec["stmts"]:
        lines += _text(stmt, theta)
        _RANGE["inclusive"] = True
        U = _apply(stmt, theta, U)
        _RANGE["inclusive"] = False
        Ux = _apply(stmt, theta, Ux)
    _RANGE["inclusive"] = True
    text = "\n".join(lines) + "\n"
    U = U.reshape(2**nq, 2**nq)
    Ux = Ux.reshape(2**nq, 2**nq)
    has_custom = any(st_["s"] == "custom" for st_ in spec["stmts"])
    feats = {"kind": "import", "decl": _DECL["mode"], "custom_gate": has_custom}
    label = {_qn(i): i for i in range(nq)}
    use_map = _DECL["mode"] == "scalar" and spec.get("use_wire_map", False)
    try:
        with qp.queuing.AnnotatedQueue() as q:
            if use_map:
                qp.from_qasm3(text, wire_map={f"q{i}": ("w", i) if False else f"w{i}" for i in range(nq)})()
                label = {f"w{i}": i for i in range(nq)}
            else:
                qp.from_qasm3(text)()
    except NotImplementedError as e:
        raise Reject("from_qasm3: documented NotImplementedError: " + str(e)[:40]) from None
    ops = [o for o in q.queue if hasattr(o, "wires") and not hasattr(o, "return_type")]
    used = set()
    for o in ops:
        used |= set(o.wires)
    extra = [w for w in used if w not in label]
    if extra:
        raise Viol("import-wires", f"ops on unexpected wires {extra}\n{text}", sig="import-wires:" + _DECL["mode"] + (":custom" if has_custom else ""), features=feats)
    V = sim.unitary(ops, list(label))
    if not sim.allclose_phase(V, U, 1e-8) and sim.allclose_phase(V, Ux, 1e-8):
        raise Viol("for-range-exclusive", f"loop ranges [0:n] are run without their end point (OpenQASM 3 ranges are inclusive)\n{text}",
                   sig="for-range-exclusive", features={**feats, "for_range_exclusive": True})
    if not sim.allclose_phase(V, U, 1e-8):
        raise Viol("import-unitary", f"from_qasm3 ops {[str(o) for o in ops]}\n{text}", sig="import-unitary:" + _first_mod(spec), features=feats)
    nt = any(s["s"] == "gate" and s["params"] for s in spec["stmts"]) and any(s["s"] != "gate" or len(s["q"]) >= 2 for s in spec["stmts"])
    return Result(nt, labels=["import"] + sorted({m[0] for s in spec["stmts"] if s["s"] == "gate" for m in s["mods"]}) +
                  sorted({s["s"] for s in spec["stmts"]}))


def _first_mod(spec):
    for s in spec["stmts"]:
        if s["s"] == "gate" and s["mods"]:
            return s["mods"][0][0]
    return "plain"


def check(spec):
    return _check_export(spec) if spec["kind"] == "export" else _check_import(spec)


def selftest():
    sim.selftest()
    qasm2.selftest()
