"""C08 — qp.is_commuting is sound; exact on Pauli words."""
import math

import numpy as np
from hypothesis import strategies as st

from pv import gen, specs, zoo
from pv.engine import Reject, Result, Viol
from pv.ref import pauli as P
from pv.ref import sim

ID = "C08"
TECHNIQUE = ("hypothesis-generated ordered operator pairs on <= 4 shared wires (all overlap patterns) with a dense commutator oracle on "
             "the independent reference simulator; exhaustive enumeration of all 4^3 x 4^3 Pauli-word pairs against the symplectic rule")
RULE = (
    "Random part: an ordered pair of operators drawn from the operator zoo (named gates, matrix operators, templates with a matrix, "
    "hermitian observables, each possibly under adjoint / pow / ctrl wrappers) or from Pauli arithmetic (Pauli words as Prod, SProd and "
    "Sum with a valid Pauli representation) on a common pool of 2-4 wires (ints / strings / mixed), so that disjoint, equal, "
    "control-on-target, target-on-control and partial overlaps all occur; the second operator is, with p=0.3, derived from the first "
    "(same class new angle, wires permuted / shifted by one, adjoint); angles are generic or exact multiples of pi/4 (values within "
    "1e-3 of such a multiple are snapped to it, so no pair sits at the tolerance of PennyLane's own allclose). Oracle: if "
    "qp.is_commuting(a, b) is True then max|AB - BA| <= 1e-6 on the joint wire set with A, B from the reference gate table / "
    "structural matrix arithmetic (one direction only, as stated); QuantumFunctionError for the documented unsupported classes or "
    "Prod/SProd/Sum without Pauli representation = rejected. Exhaustive part: all 4096 ordered pairs of Pauli words on 3 wires (I "
    "letters dropped, so supports of size 0-3 and every overlap pattern occur), built as Prod / single Paulis / Identity: the answer "
    "must EQUAL the symplectic-product rule in both directions; the same two-sided check is applied to random Pauli-word pairs with "
    "random labels and explicit identity factors. Table sweep: every ordered pair of the 47 fixed-arity gate classes x three "
    "overlap placements (second operator shifted by one wire, on the reversed wires, starting on the first operator's last wire) "
    "with fixed generic angles goes through the same soundness oracle. Non-trivial: the two operators share at least one wire."
)
ASSUMPTIONS = [
    "Documented unsupported operations (PauliRot, QubitDensityMatrix, ApproxTimeEvolution, ArbitraryUnitary, CommutingEvolution, Exp, "
    "channels) raise QuantumFunctionError: rejected, not judged.",
    "Soundness is one-directional for general operators: False for a commuting pair is allowed by the statement.",
    "State preparations and non-unitary templates without a matrix are outside the domain (no matrix to commute).",
]
BUDGET = {"quick": {"examples": 900}, "thorough": {"examples": 400000, "shards": 16}}
SHRINK_LISTS = ("operands",)
TOL = 1e-6
UNSUPPORTED = ("PauliRot", "QubitDensityMatrix", "ApproxTimeEvolution", "ArbitraryUnitary", "CommutingEvolution", "Exp")
LETTERS = {"X": "PauliX", "Y": "PauliY", "Z": "PauliZ", "I": "Identity"}


def snap(x):
    """Angles within 1e-3 of a multiple of pi/4 become that multiple (keeps pairs away from allclose thresholds)."""
    if isinstance(x, bool) or not isinstance(x, (int, float)):
        return x
    k = round(x / (math.pi / 4))
    return k * math.pi / 4 if abs(x - k * math.pi / 4) < 1e-3 else x


def sanitize(s):
    if isinstance(s, dict):
        out = {}
        for k, v in s.items():
            if k == "p" and isinstance(v, list):
                out[k] = [[snap(y) for y in x] if isinstance(x, list) and all(isinstance(y, (int, float)) for y in x) else snap(x) for x in v]
            elif k in ("w", "cw", "ww", "cv", "kw", "z"):
                out[k] = v
            else:
                out[k] = sanitize(v)
        return out
    if isinstance(s, list):
        return [sanitize(x) for x in s]
    return s


def word_spec(word, wires, keep_identity=False):
    """Pauli word string over `wires` -> operator spec."""
    facs = [{"op": LETTERS[c], "p": [], "w": [w]} for c, w in zip(word, wires) if c != "I" or keep_identity]
    if not facs:
        return {"op": "Identity", "p": [], "w": [wires[0]]}
    return facs[0] if len(facs) == 1 else {"op": "prod", "operands": facs}


def pauli_arith(wires):
    k = min(3, len(wires))
    word = st.tuples(st.text("IXYZ", min_size=k, max_size=k), gen.subset(wires, k), st.booleans()).map(lambda t: word_spec(t[0], t[1], t[2]))
    sprod = st.tuples(gen.floats01.filter(lambda c: abs(c) > 0.05), word).map(lambda t: {"op": "s_prod", "c": t[0], "base": t[1]})
    summ = st.lists(st.one_of(word, sprod), min_size=2, max_size=3).map(lambda ts: {"op": "sum", "operands": ts})
    return st.one_of(word, word, sprod, summ)


def one_op(wires):
    return st.one_of(zoo.instance(wires, "unitary"), zoo.instance(wires, "unitary"), zoo.leaf(wires, "unitary", "named"),
                     zoo.leaf(wires, "herm"), pauli_arith(wires))


def derived(a, wires):
    opts = [st.just({"op": "adjoint", "base": a}), st.just(a)]
    if a.get("w") and len(wires) > 1:
        shift = {w: wires[(wires.index(w) + 1) % len(wires)] for w in wires}
        if all(w in shift for w in a["w"]):
            opts.append(st.just({**a, "w": [shift[w] for w in a["w"]]}))
        if len(a["w"]) >= 2:
            opts.append(st.permutations(a["w"]).map(lambda p: {**a, "w": list(p)}))
    if a.get("p") and all(isinstance(x, (int, float)) for x in a["p"]):
        opts.append(st.lists(gen.generic_angles(), min_size=len(a["p"]), max_size=len(a["p"])).map(lambda ps: {**a, "p": ps}))
    return st.one_of(*opts)


@st.composite
def pairs(draw):
    n = draw(st.integers(2, 4))
    wires = draw(gen.wire_labels(n))
    if draw(st.integers(0, 9)) == 0:
        k = min(3, n)
        a = draw(st.tuples(st.text("IXYZ", min_size=k, max_size=k), gen.subset(wires, k), st.booleans()))
        b = draw(st.tuples(st.text("IXYZ", min_size=k, max_size=k), gen.subset(wires, k), st.booleans()))
        return {"kind": "words", "wa": a[0], "wwa": a[1], "ia": a[2], "wb": b[0], "wwb": b[1], "ib": b[2]}
    a = draw(one_op(wires))
    b = draw(derived(a, wires)) if draw(st.floats(0, 1)) < 0.3 else draw(one_op(wires))
    return {"kind": "ops", "a": sanitize(a), "b": sanitize(b), "wires": wires}


def strategy(tier):
    return pairs()


SWEEP_ANGLES = [0.7, 1.9, -1.1]
PLACEMENTS = ("shift", "reverse", "tail") 


def sweep_classes():
    """Fixed-parameter instances of every fixed-arity class of the closed-form gate table."""
    return sorted(gen.ALL_GATES)


def _placed(name, start, reverse=False, pool=(0, 1, 2, 3, 4, 5, 6)):
    npar, k = gen.ALL_GATES[name]
    w = list(pool[start:start + k])
    return {"op": name, "p": SWEEP_ANGLES[:npar], "w": w[::-1] if reverse else w}


def enumerate_cases(tier):
    import itertools

    words = ["".join(t) for t in itertools.product("IXYZ", repeat=3)]
    for wa in words:
        for wb in words:
            yield {"kind": "words", "wa": wa, "wwa": [0, 1, 2], "ia": False, "wb": wb, "wwb": [0, 1, 2], "ib": False}
    # every ordered pair of table classes x overlap placements: b shifted by one wire (partial overlap / control-on-target),
    # b on the reversed wires of a (target-on-control), b starting on a's last wire
    names = sweep_classes()
    for na in names:
        ka = gen.ALL_GATES[na][1]
        a = _placed(na, 0)
        for nb in names:
            for pl in PLACEMENTS:
                if pl == "shift":
                    b = _placed(nb, 1)
                elif pl == "reverse":
                    b = _placed(nb, 0, reverse=True)
                else:
                    b = _placed(nb, ka - 1)
                yield {"kind": "ops", "a": a, "b": b, "wires": [0, 1, 2, 3, 4, 5, 6]}


def _call(a, b):
    import pennylane as qp

    try:
        return qp.is_commuting(a, b)
    except qp.exceptions.QuantumFunctionError as e:
        raise Reject("documented unsupported operation: " + str(e)[:40].split(" currently")[0].split("Operation ")[-1].split(" ")[0]) from None


def check(spec):
    if spec["kind"] == "words":
        a = specs.build_op(word_spec(spec["wa"], spec["wwa"], spec["ia"]))
        b = specs.build_op(word_spec(spec["wb"], spec["wwb"], spec["ib"]))
        got = _call(a, b)
        w1 = {specs.wire(w): c for c, w in zip(spec["wa"], spec["wwa"])}
        w2 = {specs.wire(w): c for c, w in zip(spec["wb"], spec["wwb"])}
        exp = P.commutes(w1, w2)
        if bool(got) != exp:
            raise Viol("pauli-words-not-exact", f"is_commuting({a}, {b}) = {got}, symplectic rule says {exp}", sig="pauli-words",
                       features={"kind": "words", "got": bool(got)})
        shared = any(c != "I" and w2.get(w, "I") != "I" for w, c in w1.items())
        return Result(shared, labels=["pauli-words", "commute" if exp else "anticommute", "overlap" if shared else "disjoint"])
    a = specs.build_op(spec["a"])
    b = specs.build_op(spec["b"])
    got = _call(a, b)
    shared = [w for w in a.wires if w in b.wires]
    na, nb = _top(spec["a"]), _top(spec["b"])
    labels = [na, nb, "overlap" if shared else "disjoint", "says-commute" if got else "says-not"]
    if not got:
        return Result(bool(shared), labels=labels)
    order = list(a.wires) + [w for w in b.wires if w not in a.wires]
    if len(order) > 7:
        raise Reject("too many wires")
    A = sim.embed(sim.op_matrix(a), list(a.wires), order)
    B = sim.embed(sim.op_matrix(b), list(b.wires), order)
    scale = max(1.0, float(np.abs(A).max()) * float(np.abs(B).max()))
    err = float(np.abs(A @ B - B @ A).max()) / scale
    if err > TOL:
        ca, cb = sorted([_leafname(spec["a"]), _leafname(spec["b"])])
        raise Viol("says-commute-but-matrices-do-not", f"is_commuting({a}, {b}) is True but max|AB-BA| = {err:.3g} on wires {order}",
                   sig=f"{ca}|{cb}", features={"a": _leafname(spec["a"]), "b": _leafname(spec["b"]), "pattern": _pattern(a, b)})
    return Result(bool(shared), labels=labels + ["pattern:" + _pattern(a, b)])


def _top(s):
    return s["op"]


def _leafname(s):
    while s.get("base") is not None and s["op"] in ("adjoint", "pow", "ctrl", "s_prod"):
        s = s["base"]
    return s["op"]


def _pattern(a, b):
    sa, sb = set(a.wires), set(b.wires)
    if not sa & sb:
        return "disjoint"
    if sa == sb:
        return "equal-wires" if list(a.wires) == list(b.wires) else "equal-set-permuted"
    if sa < sb or sb < sa:
        return "subset"
    return "partial"


def selftest():
    sim.selftest()
    P.selftest()
    assert P.commutes({0: "X", 1: "Z"}, {0: "Z", 1: "X"}) and not P.commutes({0: "X"}, {0: "Z"})
    assert abs(snap(3.1416) - math.pi) < 1e-15 and snap(0.5) == 0.5
