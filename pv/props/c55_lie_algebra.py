"""C55 — lie_closure / structure_constants / PauliVSpace / Cartan involutions and decompositions."""
import itertools
from fractions import Fraction
from functools import partial

import numpy as np
from hypothesis import strategies as st

from pv.engine import Reject, Result, Viol
from pv.ref import pauli as P

ID = "C55"
TECHNIQUE = "hypothesis-generated Hermitian Pauli-sentence generators vs a brute-force numpy Lie closure, dense commutator/span tests and exact rational rank"
RULE = (
    "1-4 Hermitian generators (real quarter-integer coefficients, 1-3 Pauli words each, planted duplicates / linear "
    "combinations) on n <= 3 qubits (4 in thorough), passed as operators, PauliSentences (pauli=True), PauliWords, or "
    "dense matrices / operators with matrix=True. Oracle: (a) lie_closure output is linearly independent, spans the "
    "generators, is closed under all pairwise commutators (projection residual <= 1e-8) and has the same span as an "
    "independent brute-force closure (all-pairs commutators + Gram-Schmidt in numpy); (b) structure_constants f "
    "(pauli and matrix paths, is_orthogonal only when the Gram matrix is diagonal) reproduces every commutator "
    "[G_a,G_b] = -i sum_c f[c,a,b] G_c and is antisymmetric; (c) PauliVSpace: len == exact rational rank, "
    "is_independent(c) <=> rank grows, for planted dependent / independent candidates; (d) for closures of "
    "Pauli-word generators every Cartan involution (even_odd, concurrence, AI, AII, AIII, BDI, CI, CII, DIII, A, BD, C "
    "with wire / p=q options) gives cartan_decomp (k, m) that partitions g with [k,k]<k, [k,m]<m, [m,m]<k (dense span "
    "tests), check_cartan_decomp agrees with the reference verdict for (k,m) and (m,k); horizontal_cartan_subalgebra "
    "returns a in span(m), Abelian, maximal (commutant of a inside m has dimension |a|), mtilde+a = m, and new_adj are "
    "the structure constants of newg; (e) involution functions evaluated on dense eigen-operators of the documented "
    "theta (incl. p != q) return the documented parity. enumerate_cases: for n = 1..3 every involution is a grading "
    "on all Pauli words (parity of a commutator = product of parities) and agrees with the documented theta in "
    "matrix / PauliSentence / operator form. Non-trivial: closure strictly larger than the generator span."
)
ASSUMPTIONS = [
    "Generators are Hermitian and non-zero (lie_closure keeps only the imaginary part of commutator coefficients).",
    "With matrix=True and operator input the wires are exactly 0..n-1 (asserted by PennyLane); otherwise dense matrices are passed.",
    "cartan_decomp is only applied to bases of Pauli words (documented precondition: every basis element is an "
    "eigen-operator of the involution); horizontal_cartan_subalgebra only with non-empty k and m.",
    "Linear (in)dependence is only tested for exactly dependent or well-separated vectors, not near the tolerance.",
]
BUDGET = {"quick": {"examples": 450}, "thorough": {"examples": 5000, "shards": 16}}
SHRINK_LISTS = ("gens", "cands")
TOL = 1e-8

INVOLUTIONS = ["even_odd", "concurrence", "AI", "AII", "AIII", "BDI", "CI", "CII", "DIII", "A", "BD", "C"]
_q = st.sampled_from([1.0, 1.0, 1.0, -1.0, 0.5, -0.5, 2.0, 0.25, -1.5])


@st.composite
def _word(draw, n, allow_identity=False):
    while True:
        letters = [draw(st.sampled_from(["I", "I", "X", "Y", "Z"])) for _ in range(n)]
        if allow_identity or any(ch != "I" for ch in letters):
            return "".join(letters)


@st.composite
def _case(draw, tier):
    n = draw(st.sampled_from([1, 2, 2, 3, 3, 3] + ([4] if tier == "thorough" else [])))
    words_only = draw(st.booleans())
    ngen = draw(st.integers(1, 4))
    gens = []
    for _ in range(ngen):
        if gens and draw(st.integers(0, 5)) == 0:
            # planted dependent generator: combination of earlier ones
            base = draw(st.sampled_from(gens))
            c = draw(st.sampled_from([1.0, -2.0, 0.5]))
            gens.append([[c * cc, w] for cc, w in base])
            continue
        k = 1 if words_only else draw(st.sampled_from([1, 2, 2, 3]))
        ws = []
        for _ in range(k):
            w = draw(_word(n))
            if w not in [x[1] for x in ws]:
                ws.append([1.0 if words_only else draw(_q), w])
        gens.append(ws)
    cands = []
    for _ in range(draw(st.integers(1, 4))):
        kind = draw(st.sampled_from(["combo", "combo", "fresh"]))
        if kind == "combo":
            cands.append({"combo": [draw(st.sampled_from([0.0, 1.0, -1.0, 0.5, 2.0])) for _ in range(ngen)]})
        else:
            cands.append({"fresh": [[draw(_q), draw(_word(n, allow_identity=True))] for _ in range(draw(st.integers(1, 2)))]})
    return {
        "n": n, "gens": gens, "words_only": words_only,
        "form": draw(st.sampled_from(["op", "ps", "pw", "matrix-op", "matrix-dense"])),
        "inv": draw(st.sampled_from(INVOLUTIONS)),
        "inv_wire": draw(st.sampled_from([None, None, 0, n - 1])),
        "cands": cands,
        "H": [draw(st.integers(-3, 3)) for _ in range(8)],
        "pq": draw(st.sampled_from([None, None, [1, 3], [3, 1], [2, 6], [5, 3], [1, 1]])),
    }


def strategy(tier):
    return _case(tier)


def enumerate_cases(tier):
    for n in (1, 2, 3):
        for name in INVOLUTIONS:
            yield {"grading": n, "inv": name}
    # documented examples: TFIM on 2 qubits, Heisenberg chain on 3, su(4)
    tfim = [[[1.0, "XX"]], [[1.0, "ZI"]], [[1.0, "IZ"]]]
    heis = [[[1.0, "XXI"]], [[1.0, "IXX"]], [[1.0, "YYI"]], [[1.0, "IYY"]], [[1.0, "ZZI"]], [[1.0, "IZZ"]]]
    heis_sum = [[[1.0, "XXI"], [1.0, "YYI"], [1.0, "ZZI"]], [[1.0, "IXX"], [1.0, "IYY"], [1.0, "IZZ"]]]
    for gens, n, wo in ((tfim, 2, True), (heis, 3, True), (heis_sum, 3, False)):
        for form in ("op", "ps", "matrix-op", "matrix-dense"):
            for inv in ("even_odd", "concurrence"):
                yield {"n": n, "gens": gens, "words_only": wo, "form": form, "inv": inv, "inv_wire": None,
                       "cands": [{"combo": [1.0] * len(gens)}], "H": [1, 2, 3, -1, 0, 2, 1, -2], "pq": None}


# ---------------------------------------------------------------- reference helpers
def _herm_vec(M):
    f = np.asarray(M).reshape(-1)
    return np.concatenate([f.real, f.imag])


def _orth_basis(mats, tol=1e-9):
    """Orthonormal real basis (rows) of span{mats} and its dimension."""
    if len(mats) == 0:
        return np.zeros((0, 1))
    V = np.array([_herm_vec(M) for M in mats])
    norms = np.linalg.norm(V, axis=1)
    V = V[norms > 1e-13] / norms[norms > 1e-13, None]
    if len(V) == 0:
        return np.zeros((0, V.shape[1] if V.ndim == 2 else 1))
    _, s, vt = np.linalg.svd(V, full_matrices=False)
    return vt[s > tol * max(1.0, s[0])]


def _kappa(mats):
    """Condition number (largest / smallest singular value) of the normalised basis vectors."""
    V = np.array([_herm_vec(M) for M in mats])
    V = V / np.linalg.norm(V, axis=1)[:, None]
    s = np.linalg.svd(V, compute_uv=False)
    return float(s[0] / s[-1]) if s[-1] > 0 else float("inf")


def _residual(Q, M):
    """Relative distance of M from the span with orthonormal rows Q."""
    v = _herm_vec(M)
    nv = np.linalg.norm(v)
    if nv < 1e-13:
        return 0.0
    v = v / nv
    if len(Q):
        v = v - Q.T @ (Q @ v)
    return float(np.linalg.norm(v))


def _comm(A, B):
    return A @ B - B @ A


def _ref_closure(mats):
    """Brute-force Lie closure of Hermitian matrices G (algebra {iG}): returns orthonormal rows spanning it."""
    D = 2 * mats[0].size
    Q = np.zeros((0, D))
    elems = []

    def try_add(M):
        nonlocal Q
        v = _herm_vec(M)
        nv = np.linalg.norm(v)
        if nv < 1e-12:
            return False
        v = v / nv
        for _ in range(2):
            v = v - Q.T @ (Q @ v) if len(Q) else v
        r = np.linalg.norm(v)
        if r < 1e-7:
            return False
        Q = np.vstack([Q, v / r])
        elems.append(np.asarray(M) / nv)
        return True

    for M in mats:
        try_add(M)
    start = 0
    while start < len(elems):
        end = len(elems)
        for a in range(start, end):
            for b in range(0, end):
                try_add(1j * _comm(elems[a], elems[b]))
        start = end
    return Q


def _rank_exact(rows):
    """Rank of a list of rational vectors by fraction Gaussian elimination."""
    rows = [[Fraction(x).limit_denominator(10**6) for x in r] for r in rows]
    rank = 0
    ncol = len(rows[0]) if rows else 0
    for col in range(ncol):
        piv = next((i for i in range(rank, len(rows)) if rows[i][col] != 0), None)
        if piv is None:
            continue
        rows[rank], rows[piv] = rows[piv], rows[rank]
        for i in range(len(rows)):
            if i != rank and rows[i][col] != 0:
                f = rows[i][col] / rows[rank][col]
                rows[i] = [x - f * y for x, y in zip(rows[i], rows[rank])]
        rank += 1
    return rank


def _terms(gen, n):
    return [(c, {i: ch for i, ch in enumerate(w) if ch != "I"}) for c, w in gen]


def _ps(gen):
    from pennylane.pauli import PauliSentence, PauliWord

    out = PauliSentence()
    for c, w in gen:
        out += c * PauliWord({i: ch for i, ch in enumerate(w) if ch != "I"})
    return out


def _coeff_vec(gen, n):
    """Coefficients over all 4^n words in a fixed order."""
    words = ["".join(t) for t in itertools.product("IXYZ", repeat=n)]
    d = {}
    for c, w in gen:
        d[w] = d.get(w, 0) + c
    return [d.get(w, 0) for w in words]


def _to_mat(x, n):
    import pennylane as qp
    from pennylane.pauli import PauliSentence, PauliWord

    order = list(range(n))
    if isinstance(x, np.ndarray):
        return x
    if isinstance(x, PauliWord):
        return np.asarray(x.to_mat(order), dtype=complex)
    if isinstance(x, PauliSentence):
        return np.asarray(x.to_mat(order), dtype=complex)
    return np.asarray(qp.matrix(x, wire_order=order), dtype=complex)


# ---------------------------------------------------------------- involutions (documented theta on x = iG)
def _theta(name, n, wire=None, p=None, q=None):
    """Returns f(G) -> +1 / -1 / None for the eigenvalue of x = iG under the documented involution."""
    dim = 2**n
    Ym = np.array([[0, -1j], [1j, 0]])
    Zm = np.diag([1.0, -1.0]).astype(complex)

    def on(w, M1):
        return P.kron_all([M1 if k == w else np.eye(2) for k in range(n)])

    if name == "even_odd":
        Yall = P.kron_all([Ym] * n)
        th = lambda x: Yall @ x.conj() @ Yall  # noqa: E731   (AI/AII type, acts on x = iG)
    elif name == "concurrence":
        th = lambda x: -x.T  # noqa: E731
    elif name in ("AI", "CI"):
        th = lambda x: x.conj()  # noqa: E731
    elif name == "AII":
        Y0 = on(0 if wire is None else wire, Ym)
        th = lambda x: Y0 @ x.conj() @ Y0  # noqa: E731
    elif name in ("AIII", "BDI"):
        Ipq = on(0 if wire is None else wire, Zm) if p is None else np.diag([1.0] * p + [-1.0] * q).astype(complex)
        th = lambda x: Ipq @ x @ Ipq  # noqa: E731
    elif name == "CII":
        if p is None:
            K = on(1 if wire is None else wire, Zm)
        else:
            K = np.diag(([1.0] * p + [-1.0] * q) * 2).astype(complex)
        th = lambda x: K @ x @ K  # noqa: E731
    elif name in ("DIII", "A", "BD", "C"):
        Y0 = on(0 if wire is None else wire, Ym)
        th = lambda x: Y0 @ x @ Y0  # noqa: E731
    else:
        raise ValueError(name)
    assert dim
    return th


def _pl_involution(name, n, wire=None, p=None, q=None):
    import pennylane as qp

    L = qp.liealg
    if name == "even_odd":
        return L.even_odd_involution
    if name == "concurrence":
        return L.concurrence_involution
    fn = getattr(L, name)
    if name in ("AI", "CI"):
        return fn
    if name in ("AIII", "BDI", "CII"):
        if p is None:
            p = q = 2 ** (n - 1) if name != "CII" else 2 ** (n - 2)
        return partial(fn, p=p, q=q, wire=wire) if wire is not None else partial(fn, p=p, q=q)
    return partial(fn, wire=wire) if wire is not None else fn


def _eig(th, G):
    x = 1j * G
    y = th(x)
    if np.allclose(y, x, atol=1e-10):
        return True
    if np.allclose(y, -x, atol=1e-10):
        return False
    return None


def _usable(name, n, wire):
    if name == "CII":
        return n >= 2 and (wire is None or wire < n)
    return True


def _call(inv, x, name, kind):
    """Evaluate a PennyLane involution; a crash on a documented input type is reported under a stable bucket."""
    try:
        return bool(inv(x))
    except Exception as e:  # noqa: BLE001
        raise Viol("involution-raises", f"{name} on {kind} input raised {type(e).__name__}: {e}", sig=f"{name}-{kind}-raises",
                   features={"involution": name, "input": kind}) from e


def _check_grading(n, only):
    """Exhaustive over all Pauli words on n qubits: documented parity and the automorphism (grading) property."""
    import pennylane as qp
    from pennylane.pauli import PauliSentence, PauliWord

    order = list(range(n))
    words = ["".join(t) for t in itertools.product("IXYZ", repeat=n)]
    pws = {w: PauliWord({i: ch for i, ch in enumerate(w) if ch != "I"}) for w in words}
    mats = {w: P.word_matrix({i: ch for i, ch in enumerate(w)}, order) for w in words}
    for name in [only]:
        for wire in ([None] if name in ("even_odd", "concurrence", "AI", "CI") else [None] + list(range(n))):
            if not _usable(name, n, wire):
                continue
            th = _theta(name, n, wire)
            inv = _pl_involution(name, n, wire)
            par = {}
            for w in words:
                want = _eig(th, mats[w])
                if want is None:
                    raise Viol("reference-theta", f"{name}: Pauli word {w} is not an eigen-operator")  # harness sanity
                ps = PauliSentence({pws[w]: 1.0})
                got_ps = _call(inv, ps, name, "pauli")
                got_op = _call(inv, ps.operation(wire_order=order), name, "operator")
                got_m = _call(inv, mats[w], name, "matrix")
                if not (got_ps == got_m == got_op == want):
                    raise Viol("involution-parity", f"{name}(wire={wire}) on {w}: ps={got_ps} matrix={got_m} op={got_op}, "
                               f"documented theta gives {want}", sig=name, features={"involution": name})
                par[w] = got_ps
            # theta is an automorphism: parity (as a sign) is multiplicative on commutators
            for a in words:
                for b in words:
                    if not P.commutes(dict(enumerate(a)), dict(enumerate(b))):
                        c = pws[a].commutator(pws[b])
                        (cw, _), = c.items()
                        key = "".join(cw.get(i, "I") for i in range(n))
                        if par[key] != (par[a] == par[b]):
                            raise Viol("involution-automorphism", f"{name}(wire={wire}): parity([{a},{b}]) is not the product", sig=name)
    return Result(True, labels=[f"grading-n={n}-{only}"])


# ---------------------------------------------------------------- main check
def check(spec):
    if "grading" in spec:
        return _check_grading(spec["grading"], spec["inv"])
    import pennylane as qp
    from pennylane.pauli import PauliSentence, PauliVSpace, PauliWord

    n = spec["n"]
    order = list(range(n))
    gens = spec["gens"]
    form = spec["form"]
    if form == "pw" and not all(len(g) == 1 and g[0][0] == 1.0 for g in gens):
        form = "ps"
    Gm = [P.sentence_matrix(_terms(g, n), order) for g in gens]
    used = sorted({i for g in gens for _, w in g for i, ch in enumerate(w) if ch != "I"})
    if form == "matrix-op" and used != list(range(len(used))):
        form = "matrix-dense"
    n_eff = len(used) if form == "matrix-op" else n  # PennyLane infers the register from the operators

    if form == "op":
        inp = [_ps(g).operation() for g in gens]
        kw = {}
    elif form == "ps":
        inp = [_ps(g) for g in gens]
        kw = {"pauli": True}
    elif form == "pw":
        inp = [PauliWord({i: ch for i, ch in enumerate(g[0][1]) if ch != "I"}) for g in gens]
        kw = {"pauli": True}
    elif form == "matrix-op":
        inp = [_ps(g).operation() for g in gens]
        kw = {"matrix": True}
    else:
        inp = [M.copy() for M in Gm]
        kw = {"matrix": True}
    feats = {"form": form, "n": n}

    # ---------- (a) lie_closure
    try:
        dla = qp.lie_closure(inp, **kw)
    except Exception as e:  # noqa: BLE001
        raise Viol("closure-raises", f"lie_closure({form}) raised {type(e).__name__}: {str(e)[:120]}", sig="closure-raises-" + form,
                   features=feats) from e
    if kw.get("matrix"):
        if not isinstance(dla, np.ndarray) or dla.ndim != 3:
            raise Viol("closure-type", f"matrix=True returned {type(dla)}", sig=form)
        Bm = [np.asarray(M) for M in dla]
        if n_eff != n:
            Gref = [P.sentence_matrix(_terms(g, n), list(range(n_eff))) for g in gens]
        else:
            Gref = Gm
    else:
        want_t = PauliSentence if kw.get("pauli") else qp.operation.Operator
        if not all(isinstance(x, want_t) for x in dla):
            raise Viol("closure-type", f"{[type(x).__name__ for x in dla]}", sig=form)
        Bm = [_to_mat(x, n) for x in dla]
        Gref = Gm
    d = len(Bm)
    for M in Bm:
        if not np.allclose(M, M.conj().T, atol=1e-9):
            raise Viol("closure-hermitian", "closure element is not Hermitian", sig=form, features=feats)
    Qb = _orth_basis(Bm, tol=1e-11)
    if len(Qb) != d:
        raise Viol("closure-independent", f"{d} elements returned but rank {len(Qb)}", sig=form, features=feats)
    kappa = _kappa(Bm)
    # span tests lose ~eps*kappa digits for a badly conditioned (non-orthogonal, unnormalised) returned basis
    tol_span = max(TOL, 1e-12 * kappa)
    for gi, M in enumerate(Gref):
        r = _residual(Qb, M)
        if r > tol_span:
            raise Viol("closure-contains-generators", f"generator {gi} not in span (residual {r})", sig=form, features=feats)
    for a in range(d):
        for b in range(a + 1, d):
            r = _residual(Qb, 1j * _comm(Bm[a], Bm[b]))
            if r > tol_span:
                raise Viol("closure-closed", f"[g_{a}, g_{b}] not in span (residual {r}, dim {d})", sig=form, features=feats)
    Qr = _ref_closure(Gref)
    if len(Qr) != d:
        raise Viol("closure-dimension", f"lie_closure dim {d} vs brute-force closure dim {len(Qr)}", sig=form, features=feats)
    for M in Bm:
        r = _residual(Qr, M)
        if r > TOL:
            raise Viol("closure-minimal", f"closure element outside the generated algebra (residual {r})", sig=form, features=feats)
    gen_rank = len(_orth_basis(Gref))

    # ---------- (b) structure constants
    gram = np.array([[np.trace(A @ B).real for B in Bm] for A in Bm])
    orth = bool(np.abs(gram - np.diag(np.diag(gram))).max() < 1e-10) if d else True
    sc_runs = []
    if kw.get("matrix"):
        sc_runs.append(("matrix", dla, {"matrix": True}))
    else:
        if d <= 16:
            sc_runs.append(("pauli" if kw.get("pauli") else "op", dla, {"pauli": bool(kw.get("pauli"))}))
        if form == "op" and used == list(range(len(used))):
            sc_runs.append(("matrix-from-op", dla, {"matrix": True}))
        else:
            sc_runs.append(("matrix-from-dense", [M.copy() for M in Bm], {"matrix": True}))
    for label, g_in, skw in sc_runs if d >= 1 else []:
        for iso in ([False, True] if orth else [False]):
            adj = np.asarray(qp.structure_constants(g_in, is_orthogonal=iso, **skw))
            if adj.shape != (d, d, d):
                raise Viol("structure-shape", f"{adj.shape} for dim {d}", sig=label)
            if not np.allclose(adj, -np.transpose(adj, (0, 2, 1)), atol=1e-9):
                raise Viol("structure-antisymmetry", f"{label} is_orthogonal={iso}", sig=label)
            stack = np.array(Bm)
            gmax = np.array([np.abs(M).max() for M in Bm])
            for a in range(d):
                for b in range(a + 1, d):
                    lhs = _comm(Bm[a], Bm[b])
                    rhs = -1j * np.tensordot(adj[:, a, b], stack, axes=[[0], [0]])
                    scale = max(1.0, np.abs(lhs).max(), float(np.sum(np.abs(adj[:, a, b]) * gmax)))
                    # the non-orthogonal path inverts the Gram matrix: allow eps * cond(Gram) = eps * kappa^2
                    if np.abs(lhs - rhs).max() > (1e-8 + 1e-14 * kappa**2) * scale:
                        raise Viol("structure-constants", f"{label} is_orthogonal={iso}: [G_{a},G_{b}] != -i sum f G_c "
                                   f"(err {np.abs(lhs - rhs).max()}, dim {d})", sig=label, features={"path": label, "is_orthogonal": iso})

    # ---------- (c) PauliVSpace
    vs = PauliVSpace([_ps(g) for g in gens])
    rows = [_coeff_vec(g, n) for g in gens]
    rk = _rank_exact([list(r) for r in rows])
    if len(vs) != rk:
        raise Viol("vspace-rank", f"PauliVSpace has {len(vs)} basis elements, exact rank {rk}")
    for cand in spec["cands"]:
        if "combo" in cand:
            cg = []
            for c, g in zip(cand["combo"], gens):
                cg += [[c * cc, w] for cc, w in g]
        else:
            cg = cand["fresh"]
        vec = _coeff_vec(cg, n)
        if not any(vec):
            continue
        want = _rank_exact([list(r) for r in rows] + [vec]) > rk
        cps = _ps(cg)
        cps.prune(tol=1e-12)
        got = bool(vs.is_independent(cps))
        if got != want:
            raise Viol("vspace-is_independent", f"candidate {cg}: is_independent={got}, exact rank test says {want}")
        vs2 = PauliVSpace([_ps(g) for g in gens])
        vs2.add(cps)
        if len(vs2) != rk + int(want):
            raise Viol("vspace-add", f"add changed the dimension to {len(vs2)}, expected {rk + int(want)}")
        if not want and not (vs2 == vs):
            raise Viol("vspace-eq", "spaces with equal span compare unequal")

    # ---------- (e) involutions on dense eigen-operators of the documented theta
    name, wire = spec["inv"], spec["inv_wire"]
    pq = spec["pq"] if name in ("AIII", "BDI", "CII") else None
    inv_labels = []
    if pq is not None:
        p, q = pq
        dim = (p + q) * (2 if name == "CII" else 1)
        nn = int(round(np.log2(dim)))
        ok_dim = 2**nn == dim and nn >= 1
        wire_e = None
    else:
        p = q = None
        nn, ok_dim, wire_e = n, True, wire
    if ok_dim and _usable(name, nn, wire_e):
        dim = 2**nn
        h = spec["H"]
        R = np.array([[((h[(i + j) % 8] * (i + 1) + h[(i * j) % 8]) % 7) - 3 for j in range(dim)] for i in range(dim)], dtype=float)
        S = np.array([[((h[(i + 2 * j) % 8] * (j + 2)) % 5) - 2 for j in range(dim)] for i in range(dim)], dtype=float)
        Hm = (R + R.T) + 1j * (S - S.T)
        th = _theta(name, nn, wire_e, p, q)
        inv = _pl_involution(name, nn, wire_e, p, q)
        x = 1j * Hm
        for sign in (+1, -1):
            xs = (x + sign * th(x)) / 2
            Gs = xs / 1j
            if np.abs(Gs).max() < 1e-9:
                continue
            if _eig(th, Gs) is not (sign == 1):
                raise Viol("reference-theta", f"{name}: projection is not an eigen-operator")  # harness sanity
            got = _call(inv, np.array(Gs), name, "matrix")
            if got != (sign == 1):
                raise Viol("involution-matrix", f"{name}(p={p}, q={q}, wire={wire_e}) on a dense {'+' if sign == 1 else '-'}1 "
                           f"eigen-operator returned {got}", sig=name, features={"involution": name})
        inv_labels.append("inv-dense-" + name + ("-pq" if pq else ""))

    # ---------- (d) Cartan decomposition of Pauli-word algebras
    cartan = False
    all_words = all(len(g) == 1 for g in gens)
    if all_words and _usable(name, n, wire) and n_eff == n and d >= 1:
        th = _theta(name, n, wire)
        inv = _pl_involution(name, n, wire)
        g_list = list(dla) if not kw.get("matrix") else [np.asarray(M) for M in dla]
        k, m = qp.liealg.cartan_decomp(g_list, lambda x: _call(inv, x, name, "matrix" if isinstance(x, np.ndarray) else "pauli"))
        if len(k) + len(m) != d:
            raise Viol("cartan-partition", f"|k|+|m| = {len(k) + len(m)} != {d}", sig=name)
        km, mm = [_to_mat(x, n) for x in k], [_to_mat(x, n) for x in m]
        for M in km:
            if _eig(th, M) is not True:
                raise Viol("cartan-eigenspace", f"{name}: element of k is not in the +1 eigenspace of the documented theta", sig=name)
        for M in mm:
            if _eig(th, M) is not False:
                raise Viol("cartan-eigenspace", f"{name}: element of m is not in the -1 eigenspace of the documented theta", sig=name)
        Qk, Qm = _orth_basis(km), _orth_basis(mm)
        if len(_orth_basis(km + mm)) != d:
            raise Viol("cartan-partition", "k + m does not span g", sig=name)

        def sub(xs, ys, Q):
            return all(_residual(Q, 1j * _comm(a, b)) <= TOL for a in xs for b in ys)

        verdict = sub(km, km, Qk) and sub(km, mm, Qm) and sub(mm, mm, Qk)
        if not verdict:
            raise Viol("cartan-commutation", f"{name}(wire={wire}): [k,k]<k, [k,m]<m, [m,m]<k violated (|k|={len(k)}, |m|={len(m)})",
                       sig=name, features={"involution": name})
        if len(k) and len(m):
            got = bool(qp.liealg.check_cartan_decomp(k, m, verbose=False))
            if got is not True:
                raise Viol("check_cartan_decomp", f"valid decomposition rejected ({name})", sig=name)
            swapped = sub(mm, mm, Qm) and sub(mm, km, Qk) and sub(km, km, Qm)
            got = bool(qp.liealg.check_cartan_decomp(m, k, verbose=False))
            if got != swapped:
                raise Viol("check_cartan_decomp", f"(m,k) swapped: returned {got}, reference verdict {swapped} ({name})", sig=name)
            # horizontal Cartan subalgebra (inputs: PauliSentences or matrices)
            if kw.get("matrix"):
                k_in, m_in = np.array(km), np.array(mm)
            else:
                k_in = [x if isinstance(x, PauliSentence) else x.pauli_rep for x in k]
                m_in = [x if isinstance(x, PauliSentence) else x.pauli_rep for x in m]
            if d <= 16 or kw.get("matrix"):
                start = spec["H"][0] % len(m)
                newg, k2, mt, a, new_adj = qp.liealg.horizontal_cartan_subalgebra(k_in, m_in, start_idx=start)
                am, mtm, ngm = [_to_mat(x, n) for x in a], [_to_mat(x, n) for x in mt], [_to_mat(x, n) for x in newg]
                if len(am) < 1:
                    raise Viol("csa-empty", "no Cartan subalgebra element returned", sig=name)
                for x in am:
                    if _residual(Qm, x) > TOL:
                        raise Viol("csa-in-m", "CSA element outside span(m)", sig=name)
                for x, y in itertools.combinations(am, 2):
                    if np.abs(_comm(x, y)).max() > 1e-7:
                        raise Viol("csa-abelian", "CSA elements do not commute", sig=name)
                if len(_orth_basis(am)) != len(am):
                    raise Viol("csa-independent", "CSA elements are linearly dependent", sig=name)
                if len(_orth_basis(am + mtm)) != len(mm) or len(am) + len(mtm) != len(mm):
                    raise Viol("csa-complement", f"|a|+|mtilde| = {len(am)}+{len(mtm)} vs |m| = {len(mm)}", sig=name)
                # maximality: the commutant of a inside m is a itself
                mbasis = mm
                rows_c = []
                for x in am:
                    rows_c.append(np.array([_herm_vec(1j * _comm(y, x)) for y in mbasis]).T)  # D x |m|
                Cmat = np.vstack(rows_c)
                s = np.linalg.svd(Cmat, compute_uv=False)
                null_dim = len(mbasis) - int(np.sum(s > 1e-8 * max(1.0, s[0] if len(s) else 1.0)))
                if null_dim != len(am):
                    raise Viol("csa-maximal", f"commutant of a in m has dimension {null_dim}, |a| = {len(am)}", sig=name,
                               features={"involution": name})
                new_adj = np.asarray(new_adj)
                dn = len(ngm)
                if dn != d or new_adj.shape != (d, d, d):
                    raise Viol("csa-newg", f"|newg| = {dn}, adj {new_adj.shape}, dim g = {d}", sig=name)
                stack = np.array(ngm)
                for x in range(d):
                    for y in range(x + 1, d):
                        lhs = _comm(ngm[x], ngm[y])
                        rhs = -1j * np.tensordot(new_adj[:, x, y], stack, axes=[[0], [0]])
                        if np.abs(lhs - rhs).max() > 1e-6 * max(1.0, np.abs(lhs).max()):
                            raise Viol("csa-new-adj", f"new_adj does not reproduce [newg_{x}, newg_{y}] (err {np.abs(lhs - rhs).max()})", sig=name)
                cartan = True
                inv_labels.append("csa")
        inv_labels.append("cartan-" + name)

    labs = [f"n={n}", "form=" + form, f"dim={'1-3' if d <= 3 else '4-10' if d <= 10 else '11-30' if d <= 30 else '31+'}",
            "orthogonal" if orth else "non-orthogonal"] + inv_labels
    if gen_rank < len(gens):
        labs.append("dependent-generators")
    return Result(nontrivial=d > gen_rank or cartan, labels=labs)


def selftest():
    P.selftest()
    X = P.word_matrix({0: "X"}, [0])
    Z = P.word_matrix({0: "Z"}, [0])
    assert len(_ref_closure([X, Z])) == 3 and len(_ref_closure([X])) == 1
    XX, ZI, IZ = (P.word_matrix(dict(enumerate(w)), [0, 1]) for w in ("XX", "ZI", "IZ"))
    assert len(_ref_closure([XX, ZI, IZ])) == 6
    assert _rank_exact([[1, 2], [2, 4], [0, 1]]) == 2
    # documented examples: even_odd(X0 Y1) False, concurrence(X0 Y1) True
    XY = P.word_matrix({0: "X", 1: "Y"}, [0, 1])
    assert _eig(_theta("even_odd", 2), XY) is False and _eig(_theta("concurrence", 2), XY) is True
    assert _eig(_theta("even_odd", 1), X) is True
