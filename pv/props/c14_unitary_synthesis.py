"""C14 — unitary synthesis (one-, two-, multi-qubit decompositions and the QubitUnitary rules) reproduces any unitary."""
import itertools
import math

import numpy as np
from hypothesis import strategies as st

from pv import gen, specs
from pv.cmp import is_unitary
from pv.engine import Reject, Result, Viol
from pv.ref import gates as G
from pv.ref import sim

ID = "C14"
TECHNIQUE = ("Haar + structured / near-degenerate unitaries (Weyl-chamber class boundaries, Cliffords, permutations, "
             "block structures) through every synthesis entry point, re-multiplied on an independent simulator")
RULE = (
    "Input U on n in {1,2,3,4} wires (int/str/mixed labels, random order): Haar (QR of a seeded Ginibre matrix) or structured - "
    "1q: named gates / all 24 Cliffords / axis rotations and Euler products at gimbal-lock angles, each optionally perturbed by "
    "eps in {1e-12,1e-9,1e-6}; 2q: K1.exp(i(aXX+bYY+cZZ)).K2 with (a,b,c) = k.pi/4 + generic offsets (constructed exactly in the "
    "0/1/2/3-CNOT class, incl. SWAP, iSWAP, degenerate a=b=c) or at eps in {1e-12,1e-9,1e-6,1e-4} from such a point, named 2q "
    "gates on both wire orders, controlled-U, diagonal, all 24 basis permutations, all 16 Pauli pairs, random Clifford circuits; "
    "n>=2 multi: identity, Pauli strings, local products, I(x)V, V(x)I, controlled-V, (degenerate) diagonals, permutations, real "
    "orthogonal, QFT, multi-controlled X, each optionally times exp(i.eps.H). All inputs are re-unitarised (polar) and multiplied "
    "by a global phase (so det != 1, det = -1 occur). Entry points: one_qubit_decomposition (rotations in rot/ZYZ/XYX/XZX/ZXZ, "
    "return_global_phase both ways), two_qubit_decomposition, multi_qubit_decomposition, every applicable registered QubitUnitary "
    "rule, QubitUnitary.decomposition(). Oracle: product of the returned gates on pv.ref.sim (own SelectPauliRot matrix) equals U "
    "entrywise at 1e-7 (1e-6 for two-qubit inputs perturbed off a CNOT-class boundary) - exactly when a GlobalPhase is part of the contract, up to a phase for return_global_phase=False; gate "
    "names follow the requested convention, GlobalPhase last; two-qubit output uses only 1q gates + <= 3 CNOTs and, for inputs "
    "constructed exactly in a k-CNOT class, exactly k; multi-qubit output is 4 (n-1)-qubit unitaries + 3 multiplexers (Z,Y,Z) with "
    "unitary blocks; the input array is not modified. Non-trivial: U is not a multiple of the identity."
)
ASSUMPTIONS = [
    "Numpy inputs only (no autograd/jax/torch tensors, no broadcasting, no sparse matrices): the documented argument is 'a 2^n x 2^n unitary matrix'.",
    "Two-qubit inputs placed next to a CNOT-class boundary (perturbed structured inputs) are compared at 1e-6 instead of 1e-7: the "
    "class test uses atol 1e-7 on tr(gamma) (code comment: accommodates matrices given to 8 decimals), which by design costs up to "
    "~5e-7 in the reproduced matrix; all other inputs are compared at 1e-7.",
    "The optimal CNOT count is asserted only for inputs constructed exactly inside a class (docstring: 'first determines the required number of CNOTs').",
    "Adjoint/Pow/Controlled(QubitUnitary) rules and the recursive expansion to elementary gates belong to C10 / C12.",
]
BUDGET = {"quick": {"examples": 1500}, "thorough": {"examples": 60000, "shards": 16}}
TOL = 1e-7
TOL_NEAR = 1e-6
PI4 = math.pi / 4
CONVS = ["rot", "ZYZ", "XYX", "XZX", "ZXZ"]
SEQ = {"ZYZ": ["RZ", "RY", "RZ"], "XYX": ["RX", "RY", "RX"], "XZX": ["RX", "RZ", "RX"], "ZXZ": ["RZ", "RX", "RZ"]}
RULE_FOR = {"rot": "rot", "ZYZ": "zyz", "XYX": "xyx", "XZX": "xzx", "ZXZ": "zxz"}
DIRS = [(1.0, 0.5, 1 / 3), (1.0, 0.0, 0.0), (0.0, 0.0, 1.0), (1.0, 1.0, 1.0), (0.0, 1.0, -1.0), (0.3, -1.0, 0.0)]
NAMED1 = ["I", "X", "Y", "Z", "H", "S", "T", "SX"]
NAMED2 = ["CNOT", "CZ", "CY", "CH", "SWAP", "ISWAP", "SISWAP", "ECR"]
PARAM2 = ["CRX", "CRY", "CRZ", "ControlledPhaseShift", "IsingXX", "IsingYY", "IsingZZ", "IsingXY", "PSWAP", "SingleExcitation",
          "SingleExcitationPlus", "FermionicSWAP", "CPhaseShift00"]
MULTI_F = ["haar", "I", "pauli", "local", "kronI", "kronV", "ctrl", "diag", "diagdeg", "perm", "real", "qft", "mcx", "xv"]


# ---------------------------------------------------------------------------------------------
# input construction (numpy only, from the spec)
# ---------------------------------------------------------------------------------------------

def _haar(seed, d):
    rng = np.random.default_rng(int(seed))
    A = rng.normal(size=(d, d)) + 1j * rng.normal(size=(d, d))
    Q, R = np.linalg.qr(A)
    return Q * (np.diag(R) / np.abs(np.diag(R)))


def _herm(seed, d):
    rng = np.random.default_rng(int(seed) + 77)
    A = rng.normal(size=(d, d)) + 1j * rng.normal(size=(d, d))
    H = (A + A.conj().T) / 2
    return H / np.linalg.norm(H, 2)


def _expi(H):
    """exp(iH) for Hermitian H."""
    w, V = np.linalg.eigh(H)
    return (V * np.exp(1j * w)) @ V.conj().T


def _polar(U):
    u, _, vh = np.linalg.svd(U)
    return u @ vh


def _cliffords1():
    """The 24 single-qubit Cliffords (up to phase) as words over H, S."""
    seen, out, frontier = [], [], [("", np.eye(2, dtype=complex))]
    while frontier:
        nxt = []
        for word, M in frontier:
            if any(sim.allclose_phase(M, N, 1e-9) for N in seen):
                continue
            seen.append(M)
            out.append(word)
            nxt += [(word + "H", G.H @ M), (word + "S", G.S @ M)]
        frontier = nxt
    return out


def _word(word):
    M = np.eye(2, dtype=complex)
    for c in word:
        M = {"H": G.H, "S": G.S}[c] @ M
    return M


def _named1(name):
    return {"I": np.eye(2, dtype=complex), "X": G.X, "Y": G.Y, "Z": G.Z, "H": G.H, "S": G.S, "T": G.T, "SX": G.SX}[name]


def _weyl(abc):
    H = abc[0] * np.kron(G.X, G.X) + abc[1] * np.kron(G.Y, G.Y) + abc[2] * np.kron(G.Z, G.Z)
    return _expi(H)


def _weyl_class(coords):
    """Minimal CNOT count of exp(i(aXX+bYY+cZZ)) for coordinates k*pi/4 + x with x == 0 or generic."""
    zero = sum(1 for k, x in coords if x == 0 and k % 2 == 0)
    quarter = sum(1 for k, x in coords if x == 0 and k % 2 == 1)
    if zero == 3:
        return 0
    if zero == 2 and quarter == 1:
        return 1
    if zero >= 1:
        return 2
    return 3


def _local(seed):
    return np.eye(4, dtype=complex) if seed is None else np.kron(_haar(seed, 2), _haar(int(seed) + 1, 2))


def build_U(u, n):
    """-> (U, meta) with meta = {"family", "cls" (exact CNOT class or None), "near" (eps or 0)}."""
    d = 2**n
    f = u["f"]
    meta = {"family": f, "cls": None, "near": 0}
    eps = u.get("eps", 0) or 0
    if f == "haar":
        U = _haar(u["seed"], d)
    elif f == "named1":
        U = _named1(u["name"])
    elif f == "cliff1":
        U = _word(u["word"])
    elif f == "axis":
        U = {"X": G.RX, "Y": G.RY, "Z": G.RZ}[u["axis"]](u["ang"])
    elif f == "euler":
        a, b, c = u["ang"]
        r = {"X": G.RX, "Y": G.RY, "Z": G.RZ}
        s = u["conv"]
        U = r[s[2]](c) @ r[s[1]](b) @ r[s[0]](a)
    elif f == "weyl":
        coords = [(k, x) for k, x in u["abc"]]
        abc = [k * PI4 + x for k, x in coords]
        if eps:
            abc = [v + eps * dv for v, dv in zip(abc, DIRS[u["dir"]])]
            meta["near"] = eps
            meta["near_cls"] = _weyl_class(coords)
        else:
            meta["cls"] = _weyl_class(coords)
        U = _local(u.get("k1")) @ _weyl(abc) @ _local(u.get("k2"))
        eps = 0
    elif f == "named2":
        U = G.matrix(u["name"], u.get("p", []), 2)
        for a in u.get("p", []):  # bucket label only: parameter within 1e-2 of (but not on) a multiple of pi/2
            dist = abs(a / (math.pi / 2) - round(a / (math.pi / 2))) * (math.pi / 2)
            if 0 < dist < 1e-2:
                meta["near"] = dist
        if u.get("flip"):
            U = G.SWAP @ U @ G.SWAP
    elif f == "ctrl2":
        V = _haar(u["seed"], 2) if u.get("seed") is not None else _named1(u["name"])
        U = G.controlled(V, 1, [u.get("cv", 1)])
    elif f == "perm2":
        U = np.eye(4, dtype=complex)[list(u["perm"])]
    elif f == "pauli2":
        U = np.kron(G.PAULI[u["word"][0]], G.PAULI[u["word"][1]])
    elif f == "cliff2":
        rng = np.random.default_rng(int(u["seed"]))
        U = np.eye(4, dtype=complex)
        gens = [np.kron(G.H, G.I2), np.kron(G.I2, G.H), np.kron(G.S, G.I2), np.kron(G.I2, G.S), G.FIXED["CNOT"], G.SWAP @ G.FIXED["CNOT"] @ G.SWAP]
        for i in rng.integers(0, len(gens), size=int(u["len"])):
            U = gens[i] @ U
    elif f == "I":
        U = np.eye(d, dtype=complex)
    elif f == "pauli":
        U = G.pauli_word("".join("IXYZ"[i] for i in u["word"][:n]))
    elif f == "local":
        U = np.eye(1, dtype=complex)
        for i in range(n):
            U = np.kron(U, _haar(int(u["seed"]) + i, 2))
    elif f == "kronI":
        U = np.kron(np.eye(2), _haar(u["seed"], d // 2))
    elif f == "kronV":
        U = np.kron(_haar(u["seed"], d // 2), np.eye(2))
    elif f == "xv":
        U = np.kron(G.H if int(u["seed"]) % 2 else G.X, _haar(u["seed"], d // 2))
    elif f == "ctrl":
        U = np.eye(d, dtype=complex)
        U[d // 2:, d // 2:] = _haar(u["seed"], d // 2)
    elif f == "diag":
        rng = np.random.default_rng(int(u["seed"]))
        U = np.diag(np.exp(1j * rng.uniform(0, 2 * np.pi, d)))
    elif f == "diagdeg":
        rng = np.random.default_rng(int(u["seed"]))
        vals = rng.choice(np.array([0.0, np.pi / 2, np.pi, 0.7]), size=d)
        U = np.diag(np.exp(1j * vals))
    elif f == "perm":
        rng = np.random.default_rng(int(u["seed"]))
        U = np.eye(d, dtype=complex)[rng.permutation(d)]
    elif f == "real":
        rng = np.random.default_rng(int(u["seed"]))
        U = np.linalg.qr(rng.normal(size=(d, d)))[0].astype(complex)
    elif f == "qft":
        j = np.arange(d)
        U = np.exp(2j * np.pi * np.outer(j, j) / d) / np.sqrt(d)
    elif f == "mcx":
        U = G.controlled(G.X, n - 1, None)
    else:
        raise ValueError(f)
    U = np.asarray(U, dtype=complex)
    if eps:
        U = U @ _expi(eps * _herm(u.get("pseed", 0), d))
        meta["near"] = eps
    U = _polar(U) * np.exp(1j * float(u.get("gph", 0.0)))
    return U, meta


# ---------------------------------------------------------------------------------------------
# generator
# ---------------------------------------------------------------------------------------------

SEEDS = st.integers(0, 2**31 - 1)
EPS1 = st.sampled_from([0, 0, 0, 1e-12, 1e-9, 1e-6])
EPS2 = st.sampled_from([0, 0, 0, 0, 1e-12, 1e-9, 1e-6, 1e-5, 1e-4])
GPH = st.one_of(st.just(0.0), st.sampled_from([math.pi, math.pi / 2, -math.pi / 4, 1e-9, 2 * math.pi]),
                st.floats(-3.1, 3.1).map(lambda x: round(x, 5)))
OFFS = st.sampled_from([0.0, 0.0, 0.0, 0.3, 0.3, -0.3, 0.2, 0.6, 0.47, -0.2])  # 0 = exactly on the lattice; repeats give a=b(=c)


@st.composite
def _u1(draw):
    f = draw(st.sampled_from(["haar", "haar", "named1", "cliff1", "axis", "euler"]))
    u = {"f": f, "gph": draw(GPH)}
    if f == "haar":
        u["seed"] = draw(SEEDS)
        return u
    if f == "named1":
        u["name"] = draw(st.sampled_from(NAMED1))
    elif f == "cliff1":
        u["word"] = draw(st.sampled_from(_CLIFF))
    elif f == "axis":
        u["axis"] = draw(st.sampled_from("XYZ"))
        u["ang"] = draw(gen.angles())
    else:
        u["conv"] = draw(st.sampled_from(["ZYZ", "XYX", "XZX", "ZXZ"]))
        u["ang"] = [draw(gen.angles(special=0.5)) for _ in range(3)]
    u["eps"] = draw(EPS1)
    u["pseed"] = draw(st.integers(0, 50))
    return u


@st.composite
def _u2(draw):
    f = draw(st.sampled_from(["haar", "weyl", "weyl", "weyl", "named2", "param2", "ctrl2", "diag", "cliff2", "perm2", "pauli2"]))
    u = {"f": f, "gph": draw(GPH)}
    if f == "haar":
        u["seed"] = draw(SEEDS)
    elif f == "weyl":
        u["abc"] = [[draw(st.integers(-2, 4)), draw(OFFS)] for _ in range(3)]
        u["k1"] = draw(st.one_of(st.none(), SEEDS))
        u["k2"] = draw(st.one_of(st.none(), SEEDS))
        u["eps"] = draw(st.sampled_from([0, 0, 0, 0, 1e-12, 1e-9, 1e-6, 1e-4]))
        u["dir"] = draw(st.integers(0, len(DIRS) - 1))
    elif f == "named2":
        u["name"] = draw(st.sampled_from(NAMED2))
        u["flip"] = draw(st.booleans())
        u["eps"] = draw(EPS2)
    elif f == "param2":
        u["f"] = "named2"
        u["name"] = draw(st.sampled_from(PARAM2))
        u["p"] = [draw(gen.angles())]
        u["flip"] = draw(st.booleans())
    elif f == "ctrl2":
        u["cv"] = draw(st.integers(0, 1))
        if draw(st.booleans()):
            u["seed"] = draw(SEEDS)
        else:
            u["name"] = draw(st.sampled_from(NAMED1))
        u["eps"] = draw(EPS2)
    elif f == "diag":
        u["seed"] = draw(SEEDS)
    elif f == "cliff2":
        u["seed"] = draw(SEEDS)
        u["len"] = draw(st.integers(1, 12))
    elif f == "perm2":
        u["perm"] = list(draw(st.permutations(range(4))))
        u["eps"] = draw(EPS2)
    else:
        u["word"] = draw(st.text("IXYZ", min_size=2, max_size=2))
        u["eps"] = draw(EPS2)
    u["pseed"] = draw(st.integers(0, 50))
    return u


@st.composite
def _um(draw):
    f = draw(st.sampled_from(MULTI_F))
    u = {"f": f, "gph": draw(GPH), "seed": draw(SEEDS), "eps": draw(st.sampled_from([0, 0, 1e-14, 1e-12, 1e-9, 1e-6, 1e-4])),
         "pseed": draw(st.integers(0, 50))}
    if f == "pauli":
        u["word"] = draw(st.lists(st.integers(0, 3), min_size=4, max_size=4))
    return u


@st.composite
def _case(draw, tier):
    kind = draw(st.sampled_from(["one"] * 3 + ["two"] * 5 + ["multi"] * 2))
    if kind == "one":
        n = 1
        u = draw(_u1())
    elif kind == "two":
        n = 2
        u = draw(_u2())
    else:
        n = draw(st.sampled_from([2, 3, 3, 3, 4] if tier == "quick" else [2, 3, 3, 4, 4]))
        u = draw(_um())
    spec = {"kind": kind, "n": n, "U": u, "wires": draw(gen.wire_labels(n)), "via": draw(st.sampled_from(["fn", "fn", "rule", "op"]))}
    if kind == "one":
        spec["rot"] = draw(st.sampled_from(CONVS))
        spec["gphase"] = draw(st.booleans())
        spec["wire_as_list"] = draw(st.booleans())
    return spec


def strategy(tier):
    return _case(tier)


def enumerate_cases(tier):
    """Finite sub-domains in full: 24 Cliffords x 5 conventions x phase flag; 24 basis permutations and 16 Pauli pairs (2q)."""
    for word in _CLIFF:
        for rot in CONVS:
            for gp in (True, False):
                yield {"kind": "one", "n": 1, "U": {"f": "cliff1", "word": word, "gph": 0.0}, "wires": [0], "via": "fn", "rot": rot,
                       "gphase": gp, "wire_as_list": False}
    for perm in itertools.permutations(range(4)):
        yield {"kind": "two", "n": 2, "U": {"f": "perm2", "perm": list(perm), "gph": 0.0}, "wires": ["a", "b"], "via": "fn"}
    for a, b in itertools.product("IXYZ", repeat=2):
        yield {"kind": "two", "n": 2, "U": {"f": "pauli2", "word": a + b, "gph": 0.0}, "wires": [1, 0], "via": "rule"}


_CLIFF = _cliffords1()


# ---------------------------------------------------------------------------------------------
# oracle
# ---------------------------------------------------------------------------------------------

class QubitUnitary:  # noqa: D101  (duck-typed stand-in understood by pv.ref.sim.op_matrix)
    def __init__(self, M, wires):
        self.data = [np.asarray(M, dtype=complex)]
        self.wires = list(wires)
        self.hyperparameters = {}


def _select_pauli_rot(op):
    """sum_i |i><i| (x) R_P(alpha_i) on control_wires + [target_wire] (docstring definition)."""
    hp = op.arguments
    cw = list(hp["control_wires"])
    tw = list(hp["target_wire"])
    ang = np.asarray(op.data[0], dtype=float).reshape(-1)
    if len(tw) != 1 or len(ang) != 2 ** len(cw):
        raise Viol("multi-structure", f"SelectPauliRot angles {len(ang)} controls {cw} target {tw}", sig="multi")
    rot = {"X": G.RX, "Y": G.RY, "Z": G.RZ}[hp["rot_axis"]]
    M = np.zeros((2 * len(ang),) * 2, dtype=complex)
    for i, a in enumerate(ang):
        M[2 * i:2 * i + 2, 2 * i:2 * i + 2] = rot(a)
    return QubitUnitary(M, cw + tw)


def product(ops, order):
    return sim.unitary([_select_pauli_rot(o) if type(o).__name__ == "SelectPauliRot" else o for o in ops], order)


def _run(spec, U, wires):
    """Call the entry point; returns (ops, exact: bool, label)."""
    import pennylane as qp
    from pv.ref import rules as R

    kind, via, n = spec["kind"], spec["via"], spec["n"]
    W = qp.wires.Wires(wires)
    if via == "rule" and not (kind == "multi" and n == 2):
        want = RULE_FOR[spec["rot"]] if kind == "one" else {"two": "two_qubit_decomp_rule", "multi": "multi_qubit_decomp_rule"}[kind]
        op = qp.QubitUnitary(U, wires=W)
        params, args, kwargs = R.call_convention(op)
        rules = [r for r in qp.list_decomps(qp.QubitUnitary) if r.name == want]
        if len(rules) != 1:
            raise Reject(f"rule {want} not registered")
        if not rules[0].is_applicable(**params):
            raise Viol("rule-not-applicable", f"{want} on {n} wires", sig=want)
        with qp.queuing.AnnotatedQueue() as q:
            rules[0](*args, **kwargs)
        return list(q.queue), True, "rule:" + want
    if via == "op" and not (kind == "multi" and n == 2):
        op = qp.QubitUnitary(U, wires=W)
        if not op.has_decomposition:
            raise Viol("no-decomposition", f"QubitUnitary on {n} wires has_decomposition is False", sig="op")
        return list(op.decomposition()), True, "op.decomposition"
    if kind == "one":
        w = [wires[0]] if spec.get("wire_as_list") else wires[0]
        ops = qp.ops.one_qubit_decomposition(U, w, rotations=spec["rot"], return_global_phase=spec["gphase"])
        return list(ops), bool(spec["gphase"]), "one_qubit_decomposition"
    if kind == "two":
        return list(qp.ops.two_qubit_decomposition(U, wires=wires)), True, "two_qubit_decomposition"
    return list(qp.ops.multi_qubit_decomposition(U, wires)), True, "multi_qubit_decomposition"


_E = np.array([[1, 1j, 0, 0], [0, 0, 1j, 1], [0, 0, 1j, -1], [1, -1j, 0, 0]]) / np.sqrt(2)


def _trace_gamma(U):
    """tr[(E^dag U E)(E^dag U E)^T] for U normalised to SU(4) (defined up to sign): the Shende-Bullock-Markov invariant."""
    W = U / np.linalg.det(U) ** 0.25
    m = _E.conj().T @ W @ _E
    return complex(np.trace(m @ m.T))


def _near_boundary(U):
    """Label (computed from U alone): U is close to, but not on, the 0-CNOT class (|tr| -> 4) or the tr-real surface (<= 2 CNOTs)."""
    t = _trace_gamma(U)
    return bool(1e-12 < 4 - abs(t) < 1e-4 or 1e-12 < abs(t.imag) < 1e-6)


def check(spec):
    kind, n = spec["kind"], spec["n"]
    wires = [specs.wire(w) for w in spec["wires"]]
    U, meta = build_U(spec["U"], n)
    if kind == "two" and not meta["near"] and _near_boundary(U):
        meta["near"] = True
        meta["cls"] = None
    if not is_unitary(U, 1e-12):
        raise Reject("constructed input not unitary to 1e-12")
    U_in = U.copy()
    ops, exact, entry = _run(spec, U_in, wires)
    feats = {"kind": kind, "family": meta["family"], "entry": entry}
    if meta["near"]:
        feats["near_cls"] = meta.get("near_cls")
        feats["eps"] = meta["near"] if meta["near"] is not True else None
    sig = f"{kind}:{meta['family']}"
    names = [type(o).__name__ for o in ops]
    if not np.array_equal(U_in, U):
        raise Viol("input-mutated", f"{entry} changed its input matrix by {np.abs(U_in - U).max():.2e}", sig=kind, features=feats)
    for o in ops:
        if not set(o.wires) <= set(wires):
            raise Viol("foreign-wire", f"{entry}: {o} outside {wires}", sig=kind, features=feats)

    # --- structure clauses ---
    labels = [kind, f"{kind}:{meta['family']}", entry]
    if kind == "one":
        body = names[:-1] if names and names[-1] == "GlobalPhase" else names
        if "GlobalPhase" in body:
            raise Viol("phase-not-last", f"{entry} rot={spec['rot']}: {names}", sig=spec["rot"], features=feats)
        if entry == "one_qubit_decomposition":
            if spec["gphase"] != (bool(names) and names[-1] == "GlobalPhase"):
                raise Viol("phase-flag", f"return_global_phase={spec['gphase']} but ops {names}", sig=spec["rot"], features=feats)
        if entry != "op.decomposition":
            ok = body == SEQ[spec["rot"]] if spec["rot"] in SEQ else body in (["Rot"], ["RZ"])
            if not ok:
                raise Viol("convention", f"rotations={spec['rot']} gave {names}", sig=spec["rot"], features=feats)
        labels += [f"rot={spec['rot']}", f"gphase={spec.get('gphase')}"]
    elif kind == "two":
        ncx = names.count("CNOT")
        feats.update(perturbed=bool(meta["near"]), path=ncx)
        sig = f"two:{'perturbed' if meta['near'] else 'exact'}:{ncx}-cnot-path"
        bad = [str(o) for o in ops if type(o).__name__ != "CNOT" and len(o.wires) > 1]
        if bad:
            raise Viol("two-qubit-non-cnot", f"{entry}: {bad}", sig=sig, features=feats)
        if ncx > 3:
            raise Viol("cnot-count", f"{ncx} CNOTs", sig=sig, features=feats)
        labels.append(f"cnots={ncx}")
        if meta["cls"] is not None:
            labels.append(f"exact-class={meta['cls']}")
            if ncx > meta["cls"]:
                raise Viol("cnot-count-not-minimal", f"input built in the {meta['cls']}-CNOT class (abc={spec['U'].get('abc')}) got {ncx} CNOTs",
                           sig=f"class{meta['cls']}", features=feats)
        if meta["near"]:
            labels.append(f"near-class{meta.get('near_cls', '?')}:eps={meta['near']}" if meta["near"] is not True else "near-boundary-by-invariant")
    else:
        want = ["QubitUnitary", "SelectPauliRot"] * 3 + ["QubitUnitary"]
        if names != want:
            raise Viol("multi-structure", f"{entry}: {names}", sig="multi", features=feats)
        axes = [o.arguments["rot_axis"] for o in ops if type(o).__name__ == "SelectPauliRot"]
        sizes = {len(o.wires) for o in ops if type(o).__name__ == "QubitUnitary"}
        if axes != ["Z", "Y", "Z"] or sizes != {n - 1}:
            raise Viol("multi-structure", f"{entry}: axes {axes}, unitary sizes {sizes}", sig="multi", features=feats)
        labels.append(f"n={n}")
        if meta["near"]:
            labels.append(f"perturbed:eps={meta['near']}")

    # --- the matrix ---
    # inputs placed next to a CNOT-class boundary: the class test has a deliberate atol of 1e-7 on tr(gamma) (code comment: inputs given
    # to 8 decimals), which by design costs up to ~5e-7 in the reproduced matrix; only larger errors are accuracy failures
    tol = TOL_NEAR if (kind == "two" and meta["near"]) else TOL
    V = product(ops, wires)
    if exact:
        err = float(np.abs(V - U).max())
        if not err <= tol:
            raise Viol("matrix-mismatch", f"{entry} max|V-U|={err:.3e} (tol {tol}) spec={spec['U']} ops={names}", sig=sig, features=feats)
    else:
        if not sim.allclose_phase(V, U, tol):
            raise Viol("matrix-mismatch-up-to-phase", f"{entry} rot={spec['rot']} spec={spec['U']} ops={[str(o) for o in ops]}", sig=sig, features=feats)
    for o in ops:
        if type(o).__name__ == "QubitUnitary" and not is_unitary(np.asarray(o.data[0]), 2 * tol):
            raise Viol("non-unitary-block", f"{entry}: emitted QubitUnitary on {list(o.wires)} is not unitary to {2 * tol}", sig=sig, features=feats)
    nontrivial = not np.allclose(U, U[0, 0] * np.eye(2**n), atol=1e-9)
    return Result(nontrivial, labels)


def selftest():
    sim.selftest()
    assert len(_CLIFF) == 24
    # Weyl-class rule against the Shende-Bullock-Markov trace criterion evaluated directly
    E = _E
    for coords in itertools.product([(0, 0.0), (1, 0.0), (2, 0.0), (0, 0.3), (1, 0.2), (3, 0.0)], repeat=3):
        W = _weyl([k * PI4 + x for k, x in coords])
        W = W / np.linalg.det(W) ** 0.25
        m = E.conj().T @ W @ E
        g = m @ m.T
        tr = np.trace(g)
        if abs(abs(tr) - 4) < 1e-9 and abs(tr.imag) < 1e-9:
            c = 0
        elif abs(tr) < 1e-9 and np.allclose(g @ g, -np.eye(4), atol=1e-9):
            c = 1
        elif abs(tr.imag) < 1e-9:
            c = 2
        else:
            c = 3
        assert c == _weyl_class(list(coords)), (coords, c, _weyl_class(list(coords)))
    op = type("SelectPauliRot", (), {})()
    op.arguments = {"control_wires": [0], "target_wire": [1], "rot_axis": "Y"}
    op.data = [np.array([0.3, 0.7])]
    M = _select_pauli_rot(op).data[0]
    assert np.allclose(M[:2, :2], G.RY(0.3)) and np.allclose(M[2:, 2:], G.RY(0.7)) and np.allclose(M[:2, 2:], 0)
