"""C19 — transpile respects the coupling map and preserves results up to the measurement wire permutation it applies."""
import numpy as np

from pv import gen, specs
from pv.engine import Reject, Result, Viol
from pv.ref import mexec, rgen, sim

ID = "C19"
TECHNIQUE = ("generated circuits x generated connected coupling graphs (line/ring/star/tree/random, extra nodes, several input "
             "formats, with/without device); structural edge check + reference execution of the transpiled tape with the "
             "returned post-processing against the reference result of the input")
RULE = (
    "Circuit of 0-10 one- and two-qubit gates (named gates, QubitUnitary, GlobalPhase, 2-wire QFT template, adjoints; 3% a "
    "3-qubit gate) on 2-6 wires with int/str/mixed labels; coupling graph on the circuit's wires plus 0-2 spare nodes, built "
    "connected (line, ring, star, random tree, random tree + extra edges) and passed as edge list / dict of lists / nx.Graph, "
    "edge orientation random; measurements 1-4 of expval/var (Pauli, Hadamard, Hermitian on 1-2 wires, Projector, s_prod, Sum; "
    "Prod/LinearCombination must be refused), probs/sample/counts on explicit wires, and with a device also wire-less "
    "probs()/sample() and state (default.qubit) / state as density matrix (default.mixed). Oracle: (1) every operator of the "
    "output acts on <= 2 wires and every 2-wire operator acts on an edge of the coupling graph in either orientation; (2) the "
    "output tape run on the reference executor (wire order = device wires or graph nodes; sample/counts from injected uniforms) "
    "followed by the returned post-processing equals the reference result of the input tape in structure and value (1e-8): "
    "i.e. the circuit is unchanged up to exactly the wire permutation applied to the measurements; (3) only wires of the "
    "coupling graph are used. ValueError (wires missing from the map) / NotImplementedError (documented restrictions) = "
    "rejected. Non-trivial: >= 1 two-qubit gate of the input is not on an edge (a SWAP route is needed)."
)
ASSUMPTIONS = [
    "Without `device`, wire-less measurements (state, probs(), sample()) cannot be remapped by transpile and are not generated; through a QNode the device is always supplied.",
    "Sum observables (qp.sum) are accepted by transpile's check (only LinearCombination and Prod are refused) and are therefore part of the domain.",
    "default.mixed: qp.state() is documented to return the density matrix, so the expected value of a state measurement there is |psi><psi| on the device wires.",
]
BUDGET = {"quick": {"examples": 1800}, "thorough": {"examples": 60000, "shards": 16}}
SHRINK_LISTS = ("ops", "meas")


# ------------------------------------------------------------------------------------------------ generators

def _graph(R, nodes):
    n = len(nodes)
    kind = R.choice(["line", "ring", "star", "tree", "random", "random"])
    perm = list(nodes)
    R.shuffle(perm)
    edges = []
    if kind in ("line", "ring"):
        edges = [[perm[i], perm[i + 1]] for i in range(n - 1)]
        if kind == "ring" and n > 2:
            edges.append([perm[-1], perm[0]])
    elif kind == "star":
        edges = [[perm[0], perm[i]] for i in range(1, n)]
    else:
        for i in range(1, n):
            edges.append([perm[R.randint(0, i - 1)], perm[i]])
        if kind == "random":
            for _ in range(R.randint(0, n)):
                a, b = R.sample(perm, 2)
                if [a, b] not in edges and [b, a] not in edges:
                    edges.append([a, b])
    edges = [e if R.random() < 0.5 else e[::-1] for e in edges]
    R.shuffle(edges)
    return kind, edges


def _obs1(R, ws):
    r = R.random()
    w = R.choice(ws)
    if r < 0.55:
        return {"op": R.choice(["PauliX", "PauliY", "PauliZ", "Hadamard"]), "w": [w]}
    if r < 0.8:
        sub = rgen.subset(R, ws, 1, 2)
        return {"op": "Hermitian", "p": [{"H": [round(R.uniform(-1, 1), 4) for _ in range(5)], "n": len(sub)}], "w": sub}
    if r < 0.9:
        sub = rgen.subset(R, ws, 1, 2)
        return {"op": "Projector", "p": [[R.randint(0, 1) for _ in sub]], "w": sub}
    return {"op": "Identity", "w": [w]}


def _obs(R, ws):
    r = R.random()
    if r < 0.7:
        return _obs1(R, ws)
    if r < 0.8:
        return {"op": "s_prod", "c": round(R.uniform(-2, 2), 3), "base": _obs1(R, ws)}
    if r < 0.93:
        return {"op": "sum", "operands": [_obs1(R, ws) for _ in range(R.randint(2, 3))]}
    if r < 0.95 and len(ws) >= 2:
        a, b = R.sample(ws, 2)
        return {"op": "prod", "operands": [{"op": "PauliX", "w": [a]}, {"op": "PauliZ", "w": [b]}]}
    if r < 0.98:
        return _obs1(R, ws)
    return {"op": "lincomb", "coeffs": [0.5, -1.0], "operands": [{"op": "PauliX", "w": [R.choice(ws)]}, {"op": "PauliZ", "w": [R.choice(ws)]}]}


def make_case(R):
    n = R.randint(2, 6)
    ws = rgen.wire_labels(R, n)
    spare = R.randint(0, 2) if n <= 5 else 0
    pool = [w for w in R.choice(gen.WIRE_POOLS) + ["s1", "s2", 11] if w not in ws]
    nodes = ws + pool[:spare]
    kind, edges = _graph(R, nodes)
    ops = []
    pool12 = {**gen.GATES1, **gen.GATES2}
    for _ in range(R.randint(0, 10)):
        r = R.random()
        if ops and r < 0.08:
            ops.append({"op": "adjoint", "base": R.choice(ops)})
        elif r < 0.14:
            sub = rgen.subset(R, ws, 1, 2)
            ops.append({"op": "QubitUnitary", "p": [{"U": [round(R.uniform(-1, 1), 4) for _ in range(6)], "n": len(sub)}], "w": sub})
        elif r < 0.18:
            ops.append({"op": "GlobalPhase", "p": [rgen.angle(R)], "w": [R.choice(ws)]})
        elif r < 0.24:
            ops.append({"op": "QFT", "p": [], "w": R.sample(ws, 2)})
        elif r < 0.245 and n >= 3:
            ops.append(rgen.gate(R, ws, gen.GATES3))
        elif r < 0.7:
            ops.append(rgen.gate(R, ws, gen.GATES2))
        else:
            ops.append(rgen.gate(R, ws, pool12))
    device = R.choice([None, None, "default.qubit", "default.qubit", "default.mixed"])
    dev_wires = None
    if device:
        dev_wires = list(nodes)
        R.shuffle(dev_wires)
    shot_ok = R.random() < 0.3
    ms = []
    for _ in range(R.randint(1, 4)):
        r = R.random()
        if shot_ok and r < 0.4:
            k = R.random()
            if k < 0.4:
                ms.append({"mp": "sample", "w": rgen.subset(R, ws)})
            elif k < 0.6:
                ms.append({"mp": "sample", "obs": {"op": R.choice(["PauliX", "PauliY", "PauliZ"]), "w": [R.choice(ws)]}})
            elif k < 0.85:
                ms.append({"mp": "counts", "w": rgen.subset(R, ws), "all_outcomes": R.random() < 0.5})
            elif device:
                ms.append({"mp": "sample", "w": None})
            else:
                ms.append({"mp": "sample", "w": rgen.subset(R, ws)})
        elif r < 0.55:
            ms.append({"mp": "expval", "obs": _obs(R, ws)})
        elif r < 0.7:
            ms.append({"mp": "var", "obs": _obs(R, ws)})
        elif r < 0.9 or not device:
            ms.append({"mp": "probs", "w": rgen.subset(R, ws)})
        elif r < 0.95:
            ms.append({"mp": "probs", "w": None})
        else:
            ms.append({"mp": "state"})
    shots = R.randint(1, 5) if any(m["mp"] in ("sample", "counts") for m in ms) else R.choice([None, None, 3])
    return {"wires": ws, "nodes": nodes, "edges": edges, "graph": kind, "fmt": R.choice(["edges", "edges", "dict", "nx"]),
            "ops": ops, "meas": ms, "shots": shots, "device": device, "dev_wires": dev_wires,
            "u": [round(R.uniform(0.002, 0.998), 5) for _ in range(6)]}


def strategy(tier):
    return rgen.seeded(make_case)


def enumerate_cases(tier):
    """The docstring example and a long-distance CNOT on a line, each with and without a device."""
    cn = lambda a, b: {"op": "CNOT", "p": [], "w": [a, b]}
    doc = {"wires": [0, 1, 2, 3], "nodes": [0, 1, 2, 3], "edges": [[0, 1], [1, 3], [3, 2], [2, 0]], "graph": "ring", "fmt": "edges",
           "ops": [{"op": "RX", "p": [0.4], "w": [0]}, {"op": "RY", "p": [1.2], "w": [2]}, cn(0, 1), cn(2, 3), cn(1, 3), cn(1, 2), cn(2, 3), cn(0, 3)],
           "meas": [{"mp": "probs", "w": [0, 1, 2, 3]}], "shots": None, "u": []}
    line = {"wires": ["a", "b", "c", "d"], "nodes": ["a", "b", "c", "d"], "edges": [["a", "b"], ["b", "c"], ["c", "d"]], "graph": "line", "fmt": "edges",
            "ops": [{"op": "RX", "p": [0.4], "w": ["a"]}, {"op": "RY", "p": [1.2], "w": ["d"]}, cn("a", "d"), cn("d", "b"), {"op": "RZ", "p": [0.3], "w": ["d"]}],
            "meas": [{"mp": "expval", "obs": {"op": "PauliZ", "w": ["d"]}}, {"mp": "probs", "w": ["b", "a"]}], "shots": None, "u": []}
    for base in (doc, line):
        yield {**base, "device": None, "dev_wires": None}
        yield {**base, "device": "default.qubit", "dev_wires": list(reversed(base["nodes"]))}
        yield {**base, "device": "default.qubit", "dev_wires": list(base["nodes"]), "meas": base["meas"] + [{"mp": "state"}]}


# ------------------------------------------------------------------------------------------------ check

_build_meas = rgen.build_meas


def _on_edge(a, b, edges):
    return (a, b) in edges or (b, a) in edges


def check(spec):
    import networkx as nx
    import pennylane as qp

    if not spec["meas"]:
        raise Reject("no measurements")
    W = specs.wire
    nodes = [W(w) for w in spec["nodes"]]
    edges = {(W(a), W(b)) for a, b in spec["edges"]}
    order = [W(w) for w in (spec["dev_wires"] or spec["nodes"])]
    ops = [specs.build_op(o) for o in spec["ops"]]
    meas = [_build_meas(m) for m in spec["meas"]]
    tape = qp.tape.QuantumScript(ops, meas, shots=spec["shots"])
    mixed = spec["device"] == "default.mixed"
    # ---- reference result of the input
    psi = sim.run_ops(tape.operations, order)
    try:
        expected = mexec.exec_tape(tape, order, spec["u"], strict=True, states=psi)
    except mexec.NearThreshold:
        raise Reject("injected uniform too close to a CDF jump") from None
    if mixed and any(m["mp"] == "state" for m in spec["meas"]):
        rho = np.outer(psi, psi.conj())
        if len(meas) == 1:
            expected = rho
        else:
            expected = tuple(rho if m["mp"] == "state" else e for m, e in zip(spec["meas"], expected))
    # ---- transform
    elist = [(W(a), W(b)) for a, b in spec["edges"]]
    if spec["fmt"] == "edges":
        cmap = elist
    elif spec["fmt"] == "nx":
        cmap = nx.Graph(elist)
    else:
        cmap = {}
        for a, b in elist:
            cmap.setdefault(a, []).append(b)
            cmap.setdefault(b, [])
    kw = {}
    if spec["device"]:
        kw["device"] = qp.device(spec["device"], wires=order)
    tape_in = qp.tape.QuantumScript([specs.build_op(o) for o in spec["ops"]], [_build_meas(m) for m in spec["meas"]], shots=spec["shots"])
    try:
        tapes, fn = qp.transforms.transpile(tape_in, coupling_map=cmap, **kw)
    except NotImplementedError:
        raise Reject("documented restriction (Prod/LinearCombination measurement or gate on > 2 wires)") from None
    except ValueError as e:
        if "Not all wires present" in str(e):
            raise Reject("wires missing from the coupling map (documented)") from None
        raise
    if len(tapes) != 1:
        raise Viol("fanout", f"{len(tapes)} tapes", sig="fanout")
    out = tapes[0]
    feats = {"graph": spec["graph"], "device": spec["device"], "fmt": spec["fmt"]}
    for op in out.operations:
        for w in op.wires:
            if w not in nodes:
                raise Viol("foreign-wire", f"{op} uses wire {w!r} outside the coupling map", sig="foreign-wire", features=feats)
        if len(op.wires) > 2:
            raise Viol("connectivity", f"{op} acts on more than two wires", sig="wide-gate", features=feats)
        if len(op.wires) == 2 and not _on_edge(op.wires[0], op.wires[1], edges):
            raise Viol("connectivity", f"{op} is not on an edge of {sorted(map(str, edges))}", sig="off-edge:" + op.name, features=feats)
    for m in out.measurements:
        for w in m.wires:
            if w not in nodes:
                raise Viol("foreign-wire", f"{m} uses wire {w!r} outside the coupling map", sig="foreign-wire", features=feats)
    res = mexec.exec_tape(out, order, spec["u"])
    got = fn((res,))
    diff = mexec.same(got, expected, 1e-8)
    if diff:
        pos = None
        if len(meas) > 1:
            try:
                pos = next(i for i in range(len(meas)) if mexec.same(got[i], expected[i], 1e-8))
            except (StopIteration, TypeError, IndexError):
                pos = None
        else:
            pos = 0
        mp = spec["meas"][pos]["mp"] if pos is not None else None
        wl = pos is not None and spec["meas"][pos].get("obs") is None and spec["meas"][pos].get("w") is None
        raise Viol("result-changed", f"{diff}; edges={spec['edges']} ops={spec['ops']} meas={spec['meas']} device={spec['device']} "
                                     f"out_ops={[str(o) for o in out.operations]} out_meas={[str(m) for m in out.measurements]}",
                   sig=f"result:{mp}{':wireless' if wl and mp != 'state' else ''}:{spec['device'] or 'nodev'}", features={**feats, "mp": mp})
    off = sum(1 for op in tape.operations if len(op.wires) == 2 and not _on_edge(op.wires[0], op.wires[1], edges))
    n_swaps = sum(1 for op in out.operations if op.name == "SWAP") - sum(1 for op in tape.operations if op.name == "SWAP")
    labels = [f"graph:{spec['graph']}", f"device:{spec['device']}", f"fmt:{spec['fmt']}", f"offedge:{min(off, 3)}{'+' if off >= 3 else ''}",
              f"swaps:{'0' if n_swaps <= 0 else '1-2' if n_swaps <= 2 else '3+'}", f"spare:{len(nodes) - len(spec['wires'])}"]
    labels += sorted({"mp:" + m["mp"] + (":wireless" if m.get("obs") is None and m.get("w") is None and m["mp"] != "state" else "") for m in spec["meas"]})
    return Result(off >= 1, labels)


def selftest():
    mexec.selftest()
