"""C65 — executor backends behave like call / map / itertools.starmap, whatever the completion order."""
import gc
import itertools

from hypothesis import strategies as st

from pv.engine import Reject, Result, Viol
from pv.ref import c65_funcs as F

ID = "C65"
TECHNIQUE = ("hypothesis-generated call histories (submit/map/starmap, picklable recording functions, per-item delays that "
             "permute completion order) on every native backend x worker count x persist, vs the built-in call/map/starmap semantics")
RULE = (
    "Case = one executor: backend in {serial, cf_threadpool, cf_procpool, mp_pool}, max_workers 1-16 (serial 1), persist F/T, "
    "plain or context-manager use, direct methods or the functor dispatch executor('map', ...), and 1-5 calls. Functions are "
    "module-level g1(x), g2(x,y), g3(x,y,z), g1k(x, offset=0), g2k(x, y, scale=1, tag='t') that sleep (first_arg % 4) * 2 ms and "
    "return a tuple recording every argument received (12 ms steps and a warm-up map on process pools); argument lists are empty / single / up to 9 items of small ints (so the "
    "drawn first arguments fix the completion order). Oracle (expected values are written down by `mirror`, never by calling "
    "through an executor): submit(f,*a,**k) == f(*a,**k); starmap(f, tuples, **k) == list(itertools.starmap(partial(f,**k), "
    "tuples)); map: multi-parameter f: map(f,*iterables,**k) == list(map(partial(f,**k), *iterables)), single-parameter f: "
    "map(f,*items) == [f(x) for x in items] (the convention pinned by the repository's tests); results in submission order. "
    "Unequal lengths (documented precondition violation): an exception or an aligned truncated result is accepted, a misaligned "
    "result is a violation. Non-trivial: a map/starmap call with >= 3 items on >= 2 workers whose simulated completion order "
    "(greedy schedule of the drawn delays) differs from submission order."
)
ASSUMPTIONS = [
    "Keyword arguments are part of the contract: RemoteExec.map documents 'kwargs are assumed as broadcastable to each function "
    "call', RemoteExec.__call__ documents kwargs as 'the keyword arguments to pass to fn' for every dispatch, and "
    "pennylane.concurrency documents the uniform signatures submit(fn,*args,**kwargs) / starmap(fn,args,**kwargs). Violations "
    "that need kwargs carry their own sig (<backend>/<api>+kw) so they can be triaged separately.",
    "Completion order is steered by sleeps, not observed: a loaded machine may occasionally run a case in submission order.",
    "Process backends cannot run inside the engine's daemonic shard workers, so the thorough tier uses one shard.",
]
BUDGET = {"quick": {"examples": 320}, "thorough": {"examples": 4000, "shards": 1, "budget_s": 3000}}
SHRINK_LISTS = ("calls", "items", "tuples")

BACKENDS = ["serial", "cf_threadpool", "cf_procpool", "mp_pool"]
PROCESS = {"cf_procpool", "mp_pool"}


# ------------------------------------------------------------------------------------------------ strategy

small = st.integers(0, 63)


def kwargs_for(name, p=0.3):
    defaults = F.SIG[name][1]
    if not defaults:
        return st.just({})
    vals = {"offset": st.integers(-3, 3), "scale": st.integers(2, 5), "tag": st.sampled_from(["a", "b"])}
    some = st.fixed_dictionaries({}, optional={k: vals[k] for k in defaults})
    return st.one_of(st.just({}), st.just({}), some) if p < 0.5 else some


def call_st(max_items, small=small):
    def for_fn(name):
        npos = F.SIG[name][0]
        n_items = st.one_of(st.sampled_from([0, 1]), st.integers(2, max_items), st.integers(3, max_items))
        submit = st.fixed_dictionaries({"api": st.just("submit"), "fn": st.just(name),
                                        "args": st.lists(small, min_size=npos, max_size=npos), "kwargs": kwargs_for(name)})
        tuples = n_items.flatmap(lambda k: st.lists(st.lists(small, min_size=npos, max_size=npos), min_size=k, max_size=k))
        starmap = st.fixed_dictionaries({"api": st.just("starmap"), "fn": st.just(name), "tuples": tuples,
                                         "kwargs": kwargs_for(name), "seq": st.sampled_from(["list", "tuple"])})
        if npos == 1 and not F.SIG[name][1]:
            # single-parameter function: map(f, *items)
            mp = st.fixed_dictionaries({"api": st.just("map"), "fn": st.just(name), "items": n_items.flatmap(
                lambda k: st.lists(small, min_size=k, max_size=k)), "kwargs": st.just({})})
        else:
            even = n_items.flatmap(lambda k: st.lists(st.lists(small, min_size=k, max_size=k), min_size=npos, max_size=npos))
            uneven = st.lists(st.lists(small, min_size=0, max_size=max_items), min_size=npos, max_size=npos)
            its = st.one_of(even, even, even, even, even, uneven) if npos > 1 else even
            mp = st.fixed_dictionaries({"api": st.just("map"), "fn": st.just(name), "iterables": its,
                                        "kwargs": kwargs_for(name), "seq": st.sampled_from(["list", "tuple"])})
        return st.one_of(submit, mp, mp, starmap, starmap)

    return st.sampled_from(["g1", "g2", "g2", "g3", "g1k", "g2k", "g2k"]).flatmap(for_fn)


@st.composite
def case(draw, tier):
    backend = draw(st.sampled_from(["serial"] * 16 + ["cf_threadpool"] * 62 + ["cf_procpool"] + ["mp_pool"])
                    if tier == "quick" else st.sampled_from(["serial"] * 3 + ["cf_threadpool"] * 13 + ["cf_procpool"] * 2 + ["mp_pool"] * 2))
    if backend == "serial":
        workers = draw(st.sampled_from([1, 1, None]))
    elif backend in PROCESS:
        workers = draw(st.sampled_from([1, 2, 2, 3, 4, 4, 8, 16] if tier == "thorough" else [1, 2, 2, 3, 3, 4, 6, 16]))
    else:
        workers = draw(st.sampled_from([1, 2, 2, 3, 4, 5, 8, 16]))
    persist = draw(st.booleans()) if backend not in PROCESS else draw(st.sampled_from([True, True, True, False]))
    n_calls = draw(st.integers(1, 5 if (backend not in PROCESS or persist) else 2))
    calls = draw(st.lists(call_st(9, st.integers(64, 127) if backend in PROCESS else small), min_size=n_calls, max_size=n_calls))
    return {"backend": backend, "workers": workers, "persist": persist, "ctx": draw(st.booleans()),
            "via_call": draw(st.sampled_from([False, False, True])), "calls": calls}


def strategy(tier):
    return case(tier)


def enumerate_cases(tier):
    # one fixed history per backend (incl. the process backends whatever the random draw was)
    calls = calls0 = [
        {"api": "submit", "fn": "g2", "args": [2, 3], "kwargs": {}},
        {"api": "map", "fn": "g1", "items": [7, 0, 5, 1, 6, 2], "kwargs": {}},
        {"api": "map", "fn": "g2", "iterables": [[7, 6, 5, 0, 1], [1, 2, 3, 4, 5]], "kwargs": {}, "seq": "list"},
        {"api": "starmap", "fn": "g3", "tuples": [[7, 1, 1], [0, 2, 2], [6, 3, 3], [1, 4, 4]], "kwargs": {}, "seq": "list"},
        {"api": "map", "fn": "g2", "iterables": [[], []], "kwargs": {}, "seq": "list"},
        {"api": "starmap", "fn": "g1", "tuples": [[3], [0], [1], [2]], "kwargs": {}, "seq": "tuple"},
    ]
    def slow(cs):
        import json
        return json.loads(json.dumps(cs), parse_int=lambda t: int(t) + 64)

    for b in BACKENDS:
        if b in PROCESS:
            calls = slow(calls0)
        for w in ([1] if b == "serial" else [3] if b in PROCESS else [1, 3]):
            yield {"backend": b, "workers": w, "persist": True, "ctx": False, "via_call": False, "calls": calls}
        # the documented keyword-argument forms, once per backend
        yield {"backend": b, "workers": 1 if b == "serial" else 2, "persist": True, "ctx": True, "via_call": False, "calls": [
            {"api": "map", "fn": "g2k", "iterables": [[3, 0, 1], [4, 5, 6]], "kwargs": {"scale": 3}, "seq": "tuple"},
            {"api": "map", "fn": "g1k", "iterables": [[3, 0, 1, 2]], "kwargs": {"offset": 2}, "seq": "list"},
            {"api": "starmap", "fn": "g2k", "tuples": [[3, 1], [0, 2], [1, 3]], "kwargs": {"tag": "b"}, "seq": "list"},
            {"api": "submit", "fn": "g2k", "args": [2, 3], "kwargs": {"scale": 4}},
        ]}


# ------------------------------------------------------------------------------------------------ oracle

def completion_permuted(first_args, workers):
    """Greedy schedule: worker takes the next task when free; True if tasks finish in another order than submitted."""
    if workers is None or workers < 2 or len(first_args) < 3:
        return False
    free = [0.0] * workers
    finish = []
    for i, a in enumerate(first_args):
        w = min(range(workers), key=lambda j: free[j])
        free[w] += F.delay_class(a) + 0.01
        finish.append((free[w], i))
    order = [i for _, i in sorted(finish)]
    return order != sorted(order)


def seq(x, kind):
    return tuple(x) if kind == "tuple" else list(x)


def expected_and_thunk(ex, c, via_call):
    """Returns (expected | None, thunk, first_args, aligned_prefix_ok) for one call."""
    name = c["fn"]
    f = F.FUNCS[name]
    kw = dict(c.get("kwargs") or {})
    api = c["api"]

    def invoke(*a, **k):
        if via_call:
            return ex(api, f, *a, **k)
        return getattr(ex, api)(f, *a, **k)

    if api == "submit":
        return F.mirror(name, *c["args"], **kw), (lambda: invoke(*c["args"], **kw)), [], False
    if api == "starmap":
        tuples = [tuple(t) for t in c["tuples"]]
        exp = [F.mirror(name, *t, **kw) for t in tuples]   # == list(itertools.starmap(partial(f, **kw), tuples))
        return exp, (lambda: invoke(seq(tuples, c["seq"]), **kw)), [t[0] for t in tuples], False
    if "items" in c:
        items = list(c["items"])
        return [F.mirror(name, x) for x in items], (lambda: invoke(*items)), items, False
    its = [seq(i, c["seq"]) for i in c["iterables"]]
    uneven = len({len(i) for i in its}) > 1
    exp = [F.mirror(name, *a, **kw) for a in zip(*its)]     # == list(map(partial(f, **kw), *its)) (truncating zip)
    return exp, (lambda: invoke(*its, **kw)), list(its[0]), uneven


def kill_children():
    import multiprocessing as mp
    import time

    kids = mp.active_children()
    if not kids:
        return 0
    for _ in range(40):
        if not mp.active_children():
            return 0
        time.sleep(0.05)
    left = mp.active_children()
    for k in left:
        k.terminate()
    for k in left:
        k.join(2)
    return len(left)


def check(spec):
    from pennylane.concurrency.executors import create_executor

    backend = spec["backend"]
    kwargs = {"persist": spec["persist"]}
    if spec["workers"] is not None:
        kwargs["max_workers"] = spec["workers"]
    labels = [backend, f"{backend}:workers={spec['workers']}", f"persist={spec['persist']}"]
    nontrivial = False
    ex = create_executor(backend, **kwargs)
    try:
        if spec["workers"] is not None and ex.size != spec["workers"]:
            raise Viol("size", f"{backend}: size {ex.size} != max_workers {spec['workers']}", sig=backend + "/size")
        if ex.persist != spec["persist"]:
            raise Viol("persist", f"{backend}: persist {ex.persist}", sig=backend + "/persist")
        target = ex.__enter__() if spec["ctx"] else ex
        try:
            if target is not ex:
                raise Viol("context-manager", "__enter__ did not return the executor", sig=backend + "/ctx")
            if backend in PROCESS and spec["persist"]:
                # warm-up: give every worker process time to come up, otherwise the first one alive runs all tasks in order
                k = min(2 * (ex.size or 1), 12)
                warm = ex.map(F.g1, *([67] * k))
                if warm != [F.mirror("g1", 67)] * k:
                    raise Viol("map-values", f"warm-up map on {backend} returned {warm!r}", sig=backend + "/map")
            for ci, c in enumerate(spec["calls"]):
                exp, thunk, firsts, uneven = expected_and_thunk(ex, c, spec["via_call"])
                api = c["api"]
                has_kw = bool(c.get("kwargs"))
                sig = f"{backend}/{api}" + ("+kw" if has_kw else "") + ("/single-param" if c["fn"] == "g1" and api == "starmap" else "")
                feats = {"backend": backend, "api": api, "kwargs": has_kw, "fn": c["fn"]}
                what = f"call {ci} {api}({c['fn']}, {c.get('args', c.get('tuples', c.get('items', c.get('iterables'))))}, **{c.get('kwargs')})" \
                       f" on {backend}(max_workers={spec['workers']}, persist={spec['persist']})"
                try:
                    got = thunk()
                except Viol:
                    raise
                except Exception as e:  # noqa: BLE001
                    if uneven:
                        labels.append(f"{api}:uneven:exception")
                        continue
                    raise Viol("exception", f"{what}: {type(e).__name__}: {str(e)[:200]}", sig=f"{sig}/{type(e).__name__}",
                               features={**feats, "exc": type(e).__name__}) from None
                if api == "submit":
                    if got != exp:
                        raise Viol("submit", f"{what}: {got!r} != {exp!r}", sig=sig, features=feats)
                    labels.append("submit" + ("+kw" if has_kw else ""))
                    continue
                if not isinstance(got, list):
                    got = list(got)
                if uneven:
                    if len(got) > len(exp) or got != exp[:len(got)]:
                        raise Viol("misaligned", f"{what}: unequal lengths gave {got!r}", sig=sig + "/uneven", features=feats)
                    labels.append(f"{api}:uneven:truncated")
                    continue
                if got != exp:
                    kind = "order" if sorted(map(repr, got)) == sorted(map(repr, exp)) else "values"
                    raise Viol(f"{api}-{kind}", f"{what}: {got!r} != {exp!r}", sig=sig, features=feats)
                labels.append(api + ("+kw" if has_kw else ""))
                labels.append(f"{api}:items={'0' if not exp else '1' if len(exp) == 1 else '2+'}")
                if completion_permuted(firsts, ex.size):
                    nontrivial = True
                    labels.append(f"{backend}:permuted-completion")
        finally:
            if spec["ctx"]:
                ex.__exit__(None, None, None)
    finally:
        try:
            ex.shutdown()
        finally:
            del ex
            if backend in PROCESS:
                gc.collect()
                left = kill_children()
                if left:
                    labels.append("leftover-workers-terminated")
    return Result(nontrivial, sorted(set(labels)))


def selftest():
    assert completion_permuted([7, 0, 0], 2) and not completion_permuted([0, 1, 2], 2) and not completion_permuted([7, 0, 0], 1)
    assert F.mirror("g2k", 1, 2, tag="b") == ("g2k", 1, 2, ("scale", 1), ("tag", "b"))
    assert list(itertools.starmap(F.g2, [(8, 1), (16, 2)])) == [F.mirror("g2", 8, 1), F.mirror("g2", 16, 2)]
    assert list(map(F.g1k, [8, 16])) == [F.mirror("g1k", 8), F.mirror("g1k", 16)]
