"""C45 — Wires behave as an ordered set of labels (ordered-set list model)."""
from hypothesis import strategies as st

from pv.engine import Reject, Result, Viol

ID = "C45"
TECHNIQUE = "hypothesis-generated overlapping label lists (int/str/tuple) vs an ordered-set model on Python lists"
RULE = (
    "Specs: three label lists over a small pool of ints, strings and tuples (so overlaps, duplicates, mixed types and "
    "the empty list are frequent), container kind (list/tuple/Wires/single label), index lists, an injective wire "
    "map (optionally with a dropped key or a collision). Oracle: Python-list ordered-set model: duplicates => "
    "WireError; | & - ^ and named methods (also reflected, also with raw-list operand) compared as sets and "
    "duplicate-free; all_wires/shared_wires/unique_wires/+ in documented first-occurrence order, sort=True sorted by "
    "value (all ints) or str; index/indices/map/subset(periodic)/slicing/iteration/len/in vs list indexing; "
    "== and hash order-sensitive; contains_wires; select_random. Non-trivial: a and b overlap, are unequal and "
    "neither is empty."
)
ASSUMPTIONS = [
    "Labels are ints, strings and tuples only (bool/float collide with ints by hash, documented).",
    "Binary set operators are compared as sets: neither docstrings nor the property promise an order.",
    "subset() is only called with in-range indices (or any integer when periodic_boundary=True on non-empty wires).",
]
BUDGET = {"quick": {"examples": 5000}, "thorough": {"examples": 500000, "shards": 16}}
SHRINK_LISTS = ("a", "b", "c", "idx", "pidx")

POOL = [0, 1, 2, 3, 4, 5, -1, 17, "a", "b", "aux", "ab", "0", "1", [0, 1], [1, 0], ["a", 0], [0], [0, 1, 2]]
NEW = [0, 1, 2, 10, 11, 12, 13, "a", "x", "y", "zz", [0, 1], [9, 9], ["x"], 3, 4, "b", 20, 21]


def strategy(tier):
    mx = 6 if tier == "quick" else 9
    lab = st.sampled_from(POOL)
    lst = st.lists(lab, min_size=0, max_size=mx)
    uniq = st.lists(lab, min_size=0, max_size=mx, unique_by=repr)
    return st.fixed_dictionaries({
        "a": st.one_of(uniq, uniq, lst),
        "b": st.one_of(uniq, uniq, lst),
        "c": uniq,
        "kind": st.sampled_from(["list", "tuple", "wires", "list"]),
        "idx": st.lists(st.integers(0, 40), max_size=6),
        "pidx": st.lists(st.integers(-30, 30), max_size=6),
        "perm": st.permutations(list(range(len(NEW)))),
        "mapmode": st.sampled_from(["ok", "ok", "ok", "missing", "collide"]),
        "k": st.integers(0, 8),
        "seed": st.integers(0, 5),
    })


def lab(x):
    return tuple(lab(y) for y in x) if isinstance(x, list) else x


def dedupe(L):
    out = []
    for x in L:
        if x not in out:
            out.append(x)
    return out


def _same_label(x, y):
    return type(x) is type(y) and x == y


def _eq_list(got, exp):
    return len(got) == len(exp) and all(_same_label(g, e) for g, e in zip(got, exp))


def check(spec):
    from pennylane.exceptions import WireError
    from pennylane.wires import Wires

    ra, rb, rc = ([lab(x) for x in spec[k]] for k in ("a", "b", "c"))
    kind = spec["kind"]

    def container(L):
        if kind == "tuple":
            return tuple(L)
        if kind == "wires":
            return Wires(list(L))
        return list(L)

    labels = [kind]
    # --- duplicates are rejected -------------------------------------------------------------
    for name, raw in (("a", ra), ("b", rb)):
        if len(dedupe(raw)) != len(raw):
            labels.append("duplicate-input")
            for ctor in (list, tuple):
                try:
                    w = Wires(ctor(raw))
                except WireError:
                    continue
                raise Viol("duplicates-rejected", f"Wires({ctor(raw)!r}) accepted -> {w!r}")
    a, b, c = dedupe(ra), dedupe(rb), rc
    wa, wb, wc = Wires(container(a)), Wires(container(b)), Wires(container(c))

    # --- basic sequence protocol -------------------------------------------------------------
    for w, L, nm in ((wa, a, "a"), (wb, b, "b"), (wc, c, "c")):
        if not _eq_list(list(w), L) or not _eq_list(w.tolist(), L) or not _eq_list(list(w.labels), L):
            raise Viol("iteration", f"{nm}: {list(w)} vs {L}")
        if len(w) != len(L):
            raise Viol("len", f"{nm}: {len(w)} vs {len(L)}")
        if w.toset() != set(L):
            raise Viol("toset", f"{nm}")
        for i, x in enumerate(L):
            if not _same_label(w[i], x) or not _same_label(w[i - len(L)], x):
                raise Viol("getitem", f"{nm}[{i}] = {w[i]!r} vs {x!r}")
            if w.index(x) != i or w.index(Wires([x])) != i:
                raise Viol("index", f"{nm}.index({x!r}) = {w.index(x)} vs {i}")
        for x in (lab(p) for p in POOL):
            if (x in w) != (x in L):
                raise Viol("contains", f"{x!r} in {nm}: {x in w}")
            if x not in L:
                try:
                    r = w.index(x)
                except WireError:
                    pass
                else:
                    raise Viol("index-missing", f"{nm}.index({x!r}) returned {r} for absent label")
        if Wires(w) != w or not _eq_list(list(Wires(w)), L):
            raise Viol("rewrap", f"Wires(Wires({L})) differs")
        back = Wires._unflatten(*w._flatten())
        if back != w or not isinstance(back, Wires):
            raise Viol("pytree", f"{nm}: flatten/unflatten gives {back!r}")
    # single-label construction
    for x in a[:2]:
        if not isinstance(x, tuple):
            if not _eq_list(list(Wires(x)), [x]):
                raise Viol("single-label", f"Wires({x!r}) = {Wires(x)!r}")
    # slicing
    k = spec["k"]
    for sl in (slice(None, k), slice(k, None), slice(None, None, -1), slice(0, None, 2)):
        got = wa[sl]
        if not isinstance(got, Wires) or not _eq_list(list(got), a[sl]):
            raise Viol("slice", f"a[{sl}] = {got!r} vs {a[sl]}")

    # --- equality / hash respect order -------------------------------------------------------
    for (w1, L1), (w2, L2) in (((wa, a), (wb, b)), ((wa, a), (wc, c)), ((wb, b), (wc, c))):
        exp = _eq_list(L1, L2)
        if (w1 == w2) != exp or (w1 != w2) == exp:
            raise Viol("eq-order", f"{L1} == {L2}: {w1 == w2}, expected {exp}")
        if exp and hash(w1) != hash(w2):
            raise Viol("hash", f"equal wires {L1} with different hashes")
    if hash(Wires(list(a))) != hash(wa) or Wires(tuple(a)) != wa:
        raise Viol("hash", "rebuild from identical labels differs")
    if len(a) >= 2:
        rev = Wires(a[::-1])
        if rev == wa:
            raise Viol("eq-order", f"{a} equals its reverse")
        if set(rev) != set(wa):
            raise Viol("toset", "reverse has other labels")
        labels.append("reversed-unequal")

    # --- set algebra (compared as sets, result must be duplicate free) ------------------------
    sa, sb = set(a), set(b)
    ops = {
        "union": (sa | sb, lambda x, y: x | y, "union"),
        "intersection": (sa & sb, lambda x, y: x & y, "intersection"),
        "difference": (sa - sb, lambda x, y: x - y, "difference"),
        "symmetric_difference": (sa ^ sb, lambda x, y: x ^ y, "symmetric_difference"),
    }
    for nm, (exp, op, meth) in ops.items():
        cands = {
            "op": lambda: op(wa, wb),
            "method": lambda: getattr(wa, meth)(wb),
            "op-raw-right": lambda: op(wa, list(b)),
            "method-raw": lambda: getattr(wa, meth)(tuple(b)),
            "op-raw-left": lambda: op(list(a), wb),
        }
        for how, f in cands.items():
            got = f()
            if not isinstance(got, Wires):
                raise Viol("set-" + nm, f"{how}: result type {type(got).__name__}", sig="set-" + nm)
            gl = list(got)
            if len(gl) != len(set(gl)) or set(gl) != exp or not all(any(_same_label(g, e) for e in exp) for g in gl):
                raise Viol("set-" + nm, f"{how}: {a} {nm} {b} = {gl}, expected set {sorted(exp, key=repr)}",
                           sig="set-" + nm)
    # reflected difference is not symmetric: list - Wires
    got = list(b) - wa
    if set(got) != sb - sa or len(got) != len(sb - sa):
        raise Viol("set-rdifference", f"{b} - Wires({a}) = {list(got)}")
    # raw operand with duplicates is rejected like the constructor does
    if a:
        try:
            r = wb | (list(a) + [a[0]])
        except WireError:
            pass
        else:
            raise Viol("duplicates-rejected", f"union with duplicated operand accepted -> {r!r}")
    # contains_wires
    if wa.contains_wires(wb) != sb.issubset(sa) or wb.contains_wires(wa) != sa.issubset(sb):
        raise Viol("contains_wires", f"{a} contains {b}: {wa.contains_wires(wb)}")
    if not wa.contains_wires(wa & wb) or not (wa | wb).contains_wires(wa):
        raise Viol("contains_wires", "intersection not contained / union does not contain")

    # --- ordered helpers ---------------------------------------------------------------------
    for lists, ws in (((a, b), (wa, wb)), ((a, b, c), (wa, wb, wc)), ((c, a, b), (wc, wa, wb)), ((a,), (wa,)),
                      ((b, a, a), (wb, wa, wa))):
        flat = [x for L in lists for x in L]
        exp_all = dedupe(flat)
        got = Wires.all_wires(list(ws))
        if not isinstance(got, Wires) or not _eq_list(list(got), exp_all):
            raise Viol("all_wires", f"{lists}: {list(got)} vs {exp_all}")
        got = Wires.all_wires(list(ws), sort=True)
        gl = list(got)
        if set(gl) != set(exp_all) or len(gl) != len(exp_all):
            raise Viol("all_wires-sort", f"{lists}: {gl} has other labels than {exp_all}")
        if all(isinstance(x, int) for x in exp_all):
            if gl != sorted(exp_all):
                raise Viol("all_wires-sort", f"{lists}: {gl} not sorted by value")
        elif [str(x) for x in gl] != sorted(str(x) for x in exp_all):
            raise Viol("all_wires-sort", f"{lists}: {gl} not sorted by str")
        exp_sh = [x for x in lists[0] if all(x in L for L in lists)]
        got = Wires.shared_wires(list(ws))
        if not isinstance(got, Wires) or not _eq_list(list(got), exp_sh):
            raise Viol("shared_wires", f"{lists}: {list(got)} vs {exp_sh}")
        exp_un = [x for x in flat if sum(x in L for L in lists) == 1]
        got = Wires.unique_wires(list(ws))
        if not isinstance(got, Wires) or not _eq_list(list(got), exp_un):
            raise Viol("unique_wires", f"{lists}: {list(got)} vs {exp_un}")
    for how, got in (("w+w", wa + wb), ("w+list", wa + list(b)), ("list+w", list(a) + wb)):
        if not isinstance(got, Wires) or not _eq_list(list(got), dedupe(a + b)):
            raise Viol("add", f"{how}: {a}+{b} = {list(got)} vs {dedupe(a + b)}")
    if b and not isinstance(b[0], tuple):
        got = wa + b[0]
        if not _eq_list(list(got), dedupe(a + [b[0]])):
            raise Viol("add", f"{a} + {b[0]!r} = {list(got)}")

    # --- indices ------------------------------------------------------------------------------
    deferred = None
    common = [x for x in b if x in a]
    exp_idx = [a.index(x) for x in common]
    for how, arg in (("wires", Wires(common)), ("list", list(common))):
        got = wa.indices(arg)
        if list(got) != exp_idx:
            raise Viol("indices", f"{how}: {a}.indices({common}) = {got} vs {exp_idx}")
    for x in a:
        if isinstance(x, int) and wa.indices(x) != [a.index(x)]:
            raise Viol("indices", f"single int label {x}: {wa.indices(x)}")
    for x in a:
        if isinstance(x, str):
            # documented argument type "str": a string is one wire label (as everywhere in Wires)
            # (deferred to the end of check() so that it cannot mask the remaining clauses)
            feats = {"kind": "indices-str", "multichar": len(x) > 1}
            try:
                got = wa.indices(x)
            except WireError as e:
                deferred = deferred or Viol("indices-str-label", f"Wires({a}).indices({x!r}) raised WireError: {e}",
                                            sig="indices-str", features=feats)
                continue
            if got != [a.index(x)]:
                deferred = deferred or Viol("indices-str-label", f"Wires({a}).indices({x!r}) = {got} vs "
                                            f"{[a.index(x)]}", sig="indices-str", features=feats)
    missing = [x for x in b if x not in a]
    if missing:
        try:
            r = wa.indices(list(b))
        except WireError:
            pass
        else:
            raise Viol("index-missing", f"{a}.indices({b}) = {r} although {missing} are absent")

    # --- subset ---------------------------------------------------------------------------------
    n = len(a)
    if n:
        idx = [i % n for i in spec["idx"]]
        got = wa.subset(idx) if len(set(idx)) == len(idx) else None
        if got is not None and (not isinstance(got, Wires) or not _eq_list(list(got), [a[i] for i in idx])):
            raise Viol("subset", f"{a}.subset({idx}) = {list(got)}")
        i0 = spec["k"] % n
        if not _eq_list(list(wa.subset(i0)), [a[i0]]):
            raise Viol("subset", f"{a}.subset({i0}) = {list(wa.subset(i0))}")
        for src in (spec["pidx"], spec["idx"]):
            pidx = dedupe_mod(src, n)
            got = wa.subset(pidx, periodic_boundary=True)
            if not _eq_list(list(got), [a[i % n] for i in pidx]):
                raise Viol("subset-periodic", f"{a}.subset({pidx}, periodic) = {list(got)}")
            for i in pidx[:2]:
                if wa.subset(i, periodic_boundary=True) != wa.subset(i % n):
                    raise Viol("subset-periodic", f"subset({i}) != subset({i % n}) for n={n}")
        if any(abs(i) >= n for i in spec["pidx"]):
            labels.append("periodic-wraps")
    elif list(wa.subset([])) != []:
        raise Viol("subset", "empty subset of empty wires")

    # --- select_random ---------------------------------------------------------------------------
    m = spec["k"]
    if m <= n:
        r1, r2 = wa.select_random(m, seed=spec["seed"]), wa.select_random(m, seed=spec["seed"])
        l1 = list(r1)
        if len(l1) != m or len(set(l1)) != m or not set(l1) <= sa or r1 != r2:
            raise Viol("select_random", f"{a}.select_random({m}) = {l1}")
    else:
        try:
            r = wa.select_random(m, seed=0)
        except WireError:
            pass
        else:
            raise Viol("select_random", f"sampling {m} of {n} wires returned {r!r}")

    # --- map ----------------------------------------------------------------------------------------
    keys = dedupe(a + b + c)
    vals = [lab(NEW[i]) for i in spec["perm"]][: len(keys)]
    wire_map = dict(zip(keys, vals))
    mode = spec["mapmode"]
    if mode == "missing" and a:
        drop = a[spec["k"] % n]
        del wire_map[drop]
        try:
            r = wa.map(wire_map)
        except WireError:
            labels.append("map-missing-key")
        else:
            raise Viol("map-missing", f"{a}.map without key {drop!r} returned {r!r}")
    elif mode == "collide" and n >= 2:
        wire_map[a[spec["k"] % n]] = wire_map[a[(spec["k"] + 1) % n]]
        try:
            r = wa.map(wire_map)
        except WireError:
            labels.append("map-collision")
        else:
            raise Viol("map-collision", f"{a}.map with non-unique values returned {r!r} (duplicates)")
    else:
        for w, L in ((wa, a), (wb, b)):
            got = w.map(wire_map)
            if not isinstance(got, Wires) or not _eq_list(list(got), [wire_map[x] for x in L]):
                raise Viol("map", f"{L}.map({wire_map}) = {list(got)}")
            inv = {v: k_ for k_, v in wire_map.items()}
            if got.map(inv) != w:
                raise Viol("map-roundtrip", f"{L} -> {list(got)} -> {list(got.map(inv))}")
        # map commutes with the ordered helpers
        if Wires.all_wires([wa, wb]).map(wire_map) != Wires.all_wires([wa.map(wire_map), wb.map(wire_map)]):
            raise Viol("map", "map does not commute with all_wires")

    overlap = bool(sa & sb)
    types = {type(x).__name__ for x in a + b}
    if overlap:
        labels.append("overlap")
    if len(types) >= 2:
        labels.append("mixed-types")
    if not a or not b:
        labels.append("has-empty")
    if sa == sb and a != b:
        labels.append("same-set-other-order")
    nontrivial = overlap and a != b and bool(a) and bool(b)
    if deferred is not None:
        raise deferred
    return Result(nontrivial=nontrivial, labels=labels)


def dedupe_mod(idx, n):
    """keep indices whose residues mod n are pairwise distinct (subset of an ordered set has unique labels)"""
    out, seen = [], set()
    for i in idx:
        if i % n not in seen:
            seen.add(i % n)
            out.append(i)
    return out


def selftest():
    assert dedupe([1, "1", 1, (0, 1), (0, 1)]) == [1, "1", (0, 1)]
    assert lab([0, [1, 2]]) == (0, (1, 2))
    assert dedupe_mod([5, 1, 7, 0], 5) == [5, 1, 7]
