"""C40 — circuit parameter bookkeeping: get_parameters / trainable_params / par_info / bind_new_parameters /
copies / decompose keep a consistent picture of the parameters (histories against a list model)."""
import copy

import numpy as np
from hypothesis import strategies as st

from pv import gen, specs
from pv.engine import Reject, Result, Viol

ID = "C40"
TECHNIQUE = ("hypothesis-generated circuits (plain, symbolic, composite, matrix- and array-valued parameters, parametrised "
             "observables, templates) with random copy/bind/set-trainable/relabel histories checked against a flat-list model; "
             "decomposition trainability by perturbation-traced dependence")
RULE = (
    "Circuit: 1-6 operations from a zoo (named gates, QubitUnitary, adjoint/pow/ctrl/prod/s_prod/exp wrappers, AngleEmbedding, "
    "StronglyEntanglingLayers, ApproxTimeEvolution, TrotterProduct, evolve) + 1-2 measurements (Pauli, Hermitian, s_prod/sum, "
    "LinearCombination, probs) on int/str wires, as QuantumScript or QuantumTape, random trainable subset (list/set/dups/unsorted). "
    "History of <= 8 steps: copy (shallow/deep/copy.copy/with shots or trainable update), bind_new_parameters on a random index "
    "subset (sorted or shuffled order), bind of the current values, trainable_params setter, map_to_standard_wires, out-of-range "
    "trainable index. Model: flat value list P (built from the spec where the data layout is documented, else read once) and "
    "sorted index set T. After every step for every tape created so far: get_parameters(trainable_only=False) == P, "
    "get_parameters() == P[T], trainable_params == T, num_params, data, operations_only slice, par_info[i] points at the object and "
    "slot holding P[i] in order of appearance, get_operation; bind(current) gives a qp.equal circuit; bind(new) changes exactly the "
    "addressed entries; shallow copies share operator objects, deep ones do not; earlier tapes never change. Final (scalar-angle "
    "circuits): qp.transforms.decompose with autograd tensors — every output parameter that depends (traced by perturbing each "
    "input) on a trainable input is flagged requires_grad, and operators without trainable inputs yield no flagged parameter. Non-trivial: >= 3 parameters with a proper, non-contiguous trainable subset or a "
    "multi-parameter / nested operator addressed by bind."
)
ASSUMPTIONS = [
    "bind_new_parameters indices address the full parameter list (as every caller in pennylane/gradients does) and params[k] belongs to indices[k].",
    "Trainability after decomposition is carried by the requires_grad flag of autograd tensors, which is what the gradient "
    "transforms read back with qp.math.get_trainable_indices.",
]
BUDGET = {"quick": {"examples": 700}, "thorough": {"examples": 30000, "shards": 16}}
SHRINK_LISTS = ("ops", "meas", "steps")

SCALAR_GATES = {k: v for k, v in gen.ALL_GATES.items() if v[0] >= 1}
FIXED = {k: v for k, v in gen.ALL_GATES.items() if v[0] == 0 and v[1] <= 2}
ANG = gen.generic_angles()
FL = st.floats(0.1, 0.9).map(lambda x: round(x, 4))


# ---------------------------------------------------------------------------------------------
# strategies
# ---------------------------------------------------------------------------------------------

def _scalar_gate(wires):
    return gen.gate(wires, SCALAR_GATES, ANG)


def _pauli_sum(wires, draw):
    n = draw(st.integers(1, 3))
    terms = []
    for _ in range(n):
        terms.append({"op": "s_prod", "c": draw(FL), "base": draw(gen.pauli_word_obs(wires, 2))})
    return terms


@st.composite
def operation(draw, wires, scalar_only):
    r = draw(st.integers(0, 99))
    nw = len(wires)
    if r < 35:
        return draw(_scalar_gate(wires))
    if r < 42:
        return draw(gen.gate(wires, FIXED, ANG))
    if r < 50:
        return {"op": "adjoint", "base": draw(_scalar_gate(wires))}
    if r < 56:
        return {"op": "pow", "base": draw(_scalar_gate(wires)), "z": draw(st.sampled_from([2, 3, 0.5, -1]))}
    if r < 66 and nw >= 2:
        k = draw(st.integers(1, min(2, nw - 1)))
        ws = draw(gen.subset(wires, nw))
        base = draw(gen.gate(ws[k:], {n: v for n, v in SCALAR_GATES.items() if v[1] <= nw - k}, ANG))
        return {"op": "ctrl", "base": base, "cw": ws[:k], "cv": draw(st.lists(st.integers(0, 1), min_size=k, max_size=k))}
    if r < 74:
        return {"op": "prod", "operands": [draw(_scalar_gate(wires)) for _ in range(draw(st.integers(2, 3)))]}
    if scalar_only:
        return draw(_scalar_gate(wires))
    if r < 79:
        return {"op": "s_prod", "c": draw(FL), "base": draw(_scalar_gate(wires))}
    if r < 83:
        return {"op": "exp", "c": draw(FL), "base": draw(_scalar_gate(wires))}
    if r < 88:
        k = draw(st.integers(1, min(2, nw)))
        ws = draw(gen.subset(wires, k))
        return {"op": "QubitUnitary", "p": [{"U": draw(gen.float_list(6)), "n": k}], "w": ws}
    if r < 91:
        k = draw(st.integers(1, nw))
        return {"op": "AngleEmbedding", "p": [[draw(ANG) for _ in range(k)]], "w": draw(gen.subset(wires, k)),
                "kw": {"rotation": draw(st.sampled_from(["X", "Y", "Z"]))}}
    if r < 94:
        k = draw(st.integers(1, min(3, nw)))
        w = [[[draw(ANG) for _ in range(3)] for _ in range(k)] for _ in range(draw(st.integers(1, 2)))]
        return {"op": "StronglyEntanglingLayers", "p": [w], "w": draw(gen.subset(wires, k))}
    kind = draw(st.sampled_from(["ApproxTimeEvolution", "TrotterProduct", "evolve"]))
    return {"op": "tmpl", "kind": kind, "terms": _pauli_sum(wires, draw) + (_pauli_sum(wires, draw) if kind != "evolve" else []),
            "t": draw(FL), "n": draw(st.integers(1, 2)), "order": draw(st.sampled_from([1, 2]))}


@st.composite
def measurement(draw, wires, scalar_only):
    r = draw(st.integers(0, 99))
    if r < 25:
        return {"mp": draw(st.sampled_from(["expval", "var"])), "obs": draw(gen.pauli_word_obs(wires))}
    if r < 35:
        return {"mp": "probs", "w": draw(gen.subset(wires, draw(st.integers(1, len(wires)))))}
    if r < 55:
        terms = _pauli_sum(wires, draw)
        return {"mp": "expval", "obs": terms[0] if len(terms) == 1 else {"op": "sum", "operands": terms}}
    if r < 75:
        terms = _pauli_sum(wires, draw)
        operands = [t["base"] for t in terms]
        if not scalar_only and draw(st.booleans()):
            pos = draw(st.integers(0, len(operands) - 1))
            operands[pos] = {"op": "Hermitian", "p": [{"H": draw(gen.float_list(5)), "n": 1}], "w": [draw(st.sampled_from(wires))]}
        return {"mp": "expval", "obs": {"op": "lincomb", "coeffs": [t["c"] for t in terms], "operands": operands}}
    if scalar_only:
        return {"mp": "expval", "obs": draw(gen.pauli_word_obs(wires))}
    k = draw(st.integers(1, min(2, len(wires))))
    herm = {"op": "Hermitian", "p": [{"H": draw(gen.float_list(5)), "n": k}], "w": draw(gen.subset(wires, k))}
    if r < 90:
        return {"mp": draw(st.sampled_from(["expval", "var"])), "obs": herm}
    return {"mp": "expval", "obs": {"op": "s_prod", "c": draw(FL), "base": herm}}


REF = st.integers(0, 40)


@st.composite
def step(draw):
    r = draw(st.integers(0, 99))
    if r < 12:
        return {"s": "copy", "deep": draw(st.booleans())}
    if r < 16:
        return {"s": "copy_py"}
    if r < 22:
        return {"s": "copy_update", "what": draw(st.sampled_from(["shots", "trainable"])), "idx": draw(st.lists(REF, max_size=4))}
    if r < 52:
        n = draw(st.integers(1, 4))
        return {"s": "bind", "idx": draw(st.lists(REF, min_size=n, max_size=n)), "vals": [draw(ANG) for _ in range(n)],
                "order": draw(st.sampled_from(["sorted", "sorted", "sorted", "sorted", "given"]))}
    if r < 60:
        return {"s": "bind_same"}
    if r < 90:
        return {"s": "trainable", "idx": draw(st.lists(REF, max_size=5)), "as": draw(st.sampled_from(["list", "set", "dups", "reversed"]))}
    if r < 96:
        return {"s": "std_wires"}
    return {"s": "bad_trainable", "which": draw(st.sampled_from(["n", "n", "negative"]))}


@st.composite
def case(draw, tier):
    nw = draw(st.integers(1, 4))
    wires = draw(gen.wire_labels(nw))
    scalar_only = draw(st.integers(0, 2)) == 0
    ops = [draw(operation(wires, scalar_only)) for _ in range(draw(st.integers(1, 6 if tier == "quick" else 10)))]
    meas = [draw(measurement(wires, scalar_only)) for _ in range(draw(st.integers(1, 2)))]
    return {"ops": ops, "meas": meas, "cls": draw(st.sampled_from(["script", "script", "tape"])),
            "trainable": draw(st.one_of(st.none(), st.lists(REF, max_size=5))),
            "steps": draw(st.lists(step(), min_size=1, max_size=8 if tier == "quick" else 14)),
            "decomp": draw(st.sampled_from(["A", "B", "C"])) if scalar_only else None,
            "wires": wires}


def strategy(tier):
    return case(tier)


# ---------------------------------------------------------------------------------------------
# builders and the independent data-layout model
# ---------------------------------------------------------------------------------------------

def build(qp, s):
    if s.get("op") == "tmpl":
        H = qp.ops.LinearCombination([t["c"] for t in s["terms"]], [specs.build_op(t["base"]) for t in s["terms"]])
        if s["kind"] == "ApproxTimeEvolution":
            return qp.ApproxTimeEvolution(H, s["t"], s["n"])
        if s["kind"] == "TrotterProduct":
            return qp.TrotterProduct(H, s["t"], n=s["n"], order=s["order"])
        return qp.evolve(H, s["t"])
    return specs.build_op(s)


def layout(s):
    """Expected flat parameter values of an operator spec, from the documented constructor arguments, or None if the
    data layout of that class is not documented (then only layout-independent laws are checked)."""
    k = s["op"]
    if k in ("adjoint", "pow", "ctrl"):
        return layout(s["base"])
    if k in ("s_prod", "exp"):
        b = layout(s["base"])
        return None if b is None else [specs.param(s["c"])] + b
    if k in ("prod", "sum"):
        parts = [layout(o) for o in s["operands"]]
        return None if any(p is None for p in parts) else [x for p in parts for x in p]
    if k in ("lincomb", "tmpl"):
        return None
    return [specs.param(p) for p in s.get("p", [])]


def same(a, b):
    a, b = np.asarray(a), np.asarray(b)
    return a.shape == b.shape and bool(np.all(a == b))


def same_list(A, B):
    return len(A) == len(B) and all(same(a, b) for a, b in zip(A, B))


def short(P):
    return [np.asarray(p).tolist() if np.ndim(p) == 0 else f"array{np.shape(p)}" for p in P]


def pick_indices(refs, n):
    out = []
    for r in refs:
        if n:
            i = r % n
            if i not in out:
                out.append(i)
    return out


# ---------------------------------------------------------------------------------------------

def verify(qp, tape, P, T, what):
    """All read-only bookkeeping views of `tape` against the model (P: all values, T: sorted trainable indices)."""
    allp = tape.get_parameters(trainable_only=False)
    if not same_list(allp, P):
        raise Viol("all-parameters", f"{what}: get_parameters(trainable_only=False)={short(allp)} model {short(P)}", sig=what.split("#")[0].split(":")[0])
    if not same_list(tape.data, P):
        raise Viol("data", f"{what}: tape.data differs from the parameter list")
    if list(tape.trainable_params) != T:
        raise Viol("trainable-params", f"{what}: trainable_params={list(tape.trainable_params)} model {T}", sig=what.split("#")[0].split(":")[0])
    if tape.num_params != len(T):
        raise Viol("num-params", f"{what}: {tape.num_params} != {len(T)}")
    tp = tape.get_parameters()
    if not same_list(tp, [P[i] for i in T]):
        raise Viol("trainable-slice", f"{what}: get_parameters()={short(tp)} model {short([P[i] for i in T])}")
    info = tape.par_info
    if len(info) != len(P):
        raise Viol("par-info", f"{what}: {len(info)} entries for {len(P)} parameters")
    n_ops = len(tape.operations)
    prev = (-1, -1)
    for i, d in enumerate(info):
        obj = tape[d["op_idx"]]
        holder = obj if d["op_idx"] < n_ops else obj.obs
        if d["op"] is not holder:
            raise Viol("par-info", f"{what}: par_info[{i}]['op'] is not the object at position {d['op_idx']}")
        if not same(holder.data[d["p_idx"]], P[i]):
            raise Viol("par-info", f"{what}: par_info[{i}] points at value {holder.data[d['p_idx']]} but parameter {i} is {P[i]}")
        if (d["op_idx"], d["p_idx"]) <= prev:
            raise Viol("par-info", f"{what}: entries not in order of appearance at {i}")
        prev = (d["op_idx"], d["p_idx"])
    n_op_params = sum(len(op.data) for op in tape.operations)
    oo = tape.get_parameters(operations_only=True)
    if not same_list(oo, [P[i] for i in T if i < n_op_params]):
        raise Viol("operations-only", f"{what}: {short(oo)} vs model {short([P[i] for i in T if i < n_op_params])}")
    for j, i in enumerate(T):
        op, oi, pi = tape.get_operation(j)
        d = info[i]
        if op is not d["op"] or (oi, pi) != (d["op_idx"], d["p_idx"]):
            raise Viol("get-operation", f"{what}: get_operation({j}) -> ({oi},{pi}) but trainable parameter {i} lives at ({d['op_idx']},{d['p_idx']})")


def circuits_equal(qp, a, b):
    return (len(a.operations) == len(b.operations) and len(a.measurements) == len(b.measurements)
            and all(qp.equal(x, y) for x, y in zip(a.operations, b.operations))
            and all(qp.equal(x, y) for x, y in zip(a.measurements, b.measurements)) and a.shots == b.shots)


def do_bind(tape, vals, idx):
    """tape.bind_new_parameters; the crash on qp.evolve with a parametrised base gets its own bucket/feature."""
    try:
        return tape.bind_new_parameters(vals, idx)
    except IndexError as exc:
        hit = [op for op in tape.operations if type(op).__name__ == "Evolution" and len(op.base.data) > 0]
        touched = {tape.par_info[i]["op_idx"] for i in idx}
        if hit and any(tape.operations[k] in hit for k in touched if k < len(tape.operations)):
            raise Viol("unexpected-exception", f"bind_new_parameters on {hit[0]} (Evolution whose base has parameters {hit[0].base.data}) raised "
                       f"IndexError: {exc}", sig="IndexError@bind_new_parameters.py:evolve-parametrised-base",
                       features={"evolve_param_base": True, "exc": "IndexError"}) from None
        raise


def new_value(qp, tape, i, v, old):
    """A valid replacement for parameter i with the same shape/kind as the old value."""
    if np.ndim(old) == 0:
        return v
    name = type(tape.par_info[i]["op"]).__name__
    shp = np.shape(old)
    if name in ("QubitUnitary", "ControlledQubitUnitary") and len(shp) == 2:
        return specs.unitary_from_floats([v, 0.3, -0.2, 0.7 * v], int(np.log2(shp[0])))
    if name == "Hermitian" and len(shp) == 2:
        return specs.hermitian_from_floats([v, 0.3, -0.2, 0.7 * v], int(np.log2(shp[0])))
    return np.asarray(old) * 0 + v + 0.01 * np.arange(int(np.prod(shp))).reshape(shp)


def check(spec):  # noqa: C901
    import pennylane as qp

    ops = [build(qp, o) for o in spec["ops"]]
    meas = [specs.build_meas(m) for m in spec["meas"]]
    cls = qp.tape.QuantumScript if spec["cls"] == "script" else qp.tape.QuantumTape
    tape = cls(ops, meas, shots=None)
    # ---- model
    parts = [layout(o) for o in spec["ops"]] + [layout(m["obs"]) if m.get("obs") else [] for m in spec["meas"]]
    known = all(p is not None for p in parts)
    if known:
        P = [x for p in parts for x in p]
        got = tape.get_parameters(trainable_only=False)
        if not same_list(got, P):
            raise Viol("parameter-order", f"parameters {short(got)} but the operators were built from {short(P)} in this order")
    else:
        P = list(tape.get_parameters(trainable_only=False))
    n = len(P)
    if n == 0:
        raise Reject("circuit without parameters")
    T = list(range(n))
    if spec["trainable"] is not None:
        T = sorted(pick_indices(spec["trainable"], n))
        tape.trainable_params = list(T)
    book = [[tape, list(P), list(T)]]   # every tape ever created with its model

    def entry(t):
        for e in book:
            if e[0] is t:
                return e
        book.append([t, None, None])
        return book[-1]

    labels = ["layout-known" if known else "layout-law-only", spec["cls"]]
    nested_bind = False
    verify(qp, tape, P, T, "initial")
    cur = tape
    for si, s in enumerate(spec["steps"]):
        what = f"{s['s']}#{si}"
        kind = s["s"]
        P, T = list(entry(cur)[1]), list(entry(cur)[2])
        if kind in ("copy", "copy_py"):
            deep = kind == "copy_py" or s["deep"]
            new = copy.copy(cur) if kind == "copy_py" else cur.copy(copy_operations=s["deep"])
            if new is cur:
                raise Viol("copy-identity", f"{what}: copy returned the same object")
            for a, b in zip(cur.operations, new.operations):
                if deep and a is b:
                    raise Viol("copy-depth", f"{what}: copy_operations=True shares operator {a}")
                if not deep and a is not b:
                    raise Viol("copy-depth", f"{what}: shallow copy does not reference the original operator {a}")
            e = entry(new)
            e[1], e[2] = list(P), list(T)
            cur = new
        elif kind == "copy_update":
            if s["what"] == "shots":
                new = cur.copy(shots=100)
                if new.shots.total_shots != 100 or cur.shots.total_shots is not None:
                    raise Viol("copy-update", f"{what}: shots not updated on the copy only")
                e = entry(new)
                e[1], e[2] = list(P), list(T)
                # keep working on the analytic tape (shots are irrelevant for parameters); the copy stays in the book
            else:
                newT = sorted(pick_indices(s["idx"], n))
                new = cur.copy(trainable_params=list(newT))
                e = entry(new)
                e[1], e[2] = list(P), list(newT)
                cur = new
        elif kind == "bind":
            idx = pick_indices(s["idx"], n)
            vals = [new_value(qp, cur, i, v, P[i]) for i, v in zip(idx, s["vals"])]
            if s["order"] == "sorted":
                pairs = sorted(zip(idx, range(len(idx))))
                idx = [p[0] for p in pairs]
                vals = [vals[p[1]] for p in pairs]
            unsorted = idx != sorted(idx)
            try:
                new = do_bind(cur, vals, idx)
            except Viol:
                raise
            except Exception as exc:  # noqa: BLE001
                if not unsorted:
                    raise
                # with shuffled indices a shape-matched value can reach the wrong operator: same root cause as `bind-new`
                raise Viol("bind-new", f"{what}: bind_new_parameters({short(vals)}, {idx}) on {short(P)} raised {type(exc).__name__}: {exc}",
                           sig="unsorted-indices", features={"unsorted_indices": True}) from None
            newP = list(P)
            for i, v in zip(idx, vals):
                newP[i] = v
            e = entry(new)
            e[1], e[2] = newP, list(T)
            if type(new) is not type(cur):
                raise Viol("bind-class", f"{what}: {type(cur).__name__} -> {type(new).__name__}")
            got = new.get_parameters(trainable_only=False)
            if not same_list(got, newP):
                raise Viol("bind-new", f"{what}: bind_new_parameters({short(vals)}, {idx}) on {short(P)} gave {short(got)}, expected {short(newP)}",
                           sig="unsorted-indices" if unsorted else "bind", features={"unsorted_indices": unsorted})
            for i in idx:
                if len(cur.par_info[i]["op"].data) > 1 or type(cur.par_info[i]["op"]).__name__ in (
                        "Prod", "Sum", "SProd", "Exp", "LinearCombination", "ControlledOp", "ControlledOp2", "Adjoint2", "AdjointOperation", "Pow2", "PowOperation"):
                    nested_bind = True
            cur = new
            labels.append("bind-unsorted" if unsorted else "bind")
        elif kind == "bind_same":
            new = do_bind(cur, list(P), list(range(n)))
            if not circuits_equal(qp, new, cur):
                raise Viol("bind-current", f"{what}: binding the current parameters does not reproduce an equal circuit")
            e = entry(new)
            e[1], e[2] = list(P), list(T)
            cur = new
        elif kind == "trainable":
            idx = pick_indices(s["idx"], n)
            arg = {"list": list(idx), "set": set(idx), "dups": list(idx) + list(idx[:2]), "reversed": list(reversed(sorted(idx)))}[s["as"]]
            cur.trainable_params = arg
            entry(cur)[2] = sorted(idx)
        elif kind == "std_wires":
            new = cur.map_to_standard_wires()
            if new is not cur:
                e = entry(new)
                e[1], e[2] = list(P), list(T)
                labels.append("relabelled")
            cur = new
        elif kind == "bad_trainable":
            bad = [n] if s["which"] == "n" else [-1]
            try:
                cur.trainable_params = bad
            except ValueError:
                pass
            else:
                cur.trainable_params = list(T)
                raise Viol("trainable-bounds", f"{what}: trainable_params={bad} accepted on a circuit with {n} parameters (valid indices 0..{n - 1})",
                           sig=s["which"])
        # every tape created so far must still agree with its model (independence of copies)
        for k, (t, Pk, Tk) in enumerate(book):
            verify(qp, t, Pk, Tk, what if t is cur else f"earlier-tape-after-{what}")
    P, T = entry(cur)[1], entry(cur)[2]
    if spec.get("decomp") and all(np.ndim(p) == 0 for p in P):
        labels += decomp_clause(qp, cur, P, T, spec["decomp"])
    proper = 0 < len(T) < n and any(b - a > 1 for a, b in zip(T, T[1:]))
    if proper:
        labels.append("trainable-noncontiguous")
    if nested_bind:
        labels.append("bind-nested")
    return Result((n >= 3 and proper) or nested_bind, labels)


GATE_SETS = {"A": {"RX", "RY", "RZ", "CNOT", "GlobalPhase"}, "B": {"Rot", "CNOT", "GlobalPhase", "PhaseShift"},
             "C": {"RZ", "RY", "CZ", "Hadamard", "GlobalPhase", "CNOT"}}


def decomp_clause(qp, tape, P, T, gs):
    from pennylane import numpy as pnp

    n = len(P)

    def run(values):
        t = tape.bind_new_parameters([pnp.array(float(v), requires_grad=(i in T)) for i, v in enumerate(values)], list(range(n)))
        try:
            (out,), _ = qp.transforms.decompose(t, gate_set=GATE_SETS[gs])
        except (qp.exceptions.DecompositionUndefinedError, RecursionError):
            raise Reject("gate set cannot express the circuit (documented)") from None
        return out

    base = run(P)
    sig0 = [(type(o).__name__, tuple(o.wires)) for o in base.operations]
    bp = base.get_parameters(trainable_only=False)
    flagged = {j for j, p in enumerate(bp) if qp.math.requires_grad(p)}
    dep = [set() for _ in bp]
    for k in range(n):
        vals = list(P)
        vals[k] = float(P[k]) + 0.173
        out = run(vals)
        if [(type(o).__name__, tuple(o.wires)) for o in out.operations] != sig0:
            raise Reject("decomposition structure depends on the parameter value")
        for j, (a, b) in enumerate(zip(bp, out.get_parameters(trainable_only=False))):
            if abs(float(a) - float(b)) > 1e-9:
                dep[j].add(k)
    for j, d in enumerate(dep):
        if d & set(T) and j not in flagged:
            raise Viol("decompose-trainable-lost", f"output parameter {j} of {base.par_info[j]['op']} depends on trainable input(s) {sorted(d & set(T))} "
                       f"but is not marked trainable", sig=type(base.par_info[j]["op"]).__name__)
    # reverse direction: operators none of whose parameters is trainable cannot produce trainable parameters
    # (a constant derived from a trainable angle may formally inherit its flag, so this is checked per source operator)
    has_trainable = set()
    for i in T:
        has_trainable.add(tape.par_info[i]["op_idx"])
    t_in = tape.bind_new_parameters([pnp.array(float(v), requires_grad=(i in T)) for i, v in enumerate(P)], list(range(n)))
    frozen = [op for k, op in enumerate(t_in.operations) if k not in has_trainable]
    if frozen:
        (out,), _ = qp.transforms.decompose(qp.tape.QuantumScript(frozen, []), gate_set=GATE_SETS[gs])
        for j, p in enumerate(out.get_parameters(trainable_only=False)):
            if qp.math.requires_grad(p):
                raise Viol("decompose-trainable-spurious", f"parameter {j} of {out.par_info[j]['op']} is marked trainable although it stems from "
                           f"operators without trainable parameters: {frozen}", sig=type(out.par_info[j]["op"]).__name__)
    changed = len(base.operations) != len(tape.operations)
    return ["decompose:" + ("expanded" if changed else "unchanged")]
