"""C47 — pennylane.estimator: gate counts compose additively, repetition multiplies, wire bookkeeping never
goes negative and accounts for every allocation."""
from collections import Counter

from hypothesis import strategies as st

from pv.engine import Reject, Result, Viol

ID = "C47"
TECHNIQUE = ("hypothesis-generated workflows over generated custom ResourceOperator trees (GateCount/Allocate/Deallocate "
             "decompositions), library resource operators and symbolic wrappers vs a direct recursive count over the spec and a "
             "literal replay of the allocation stream; WireResourceManager histories vs an integer model")
RULE = (
    "Mode tree: 1-4 custom resource operators U_i whose resource_decomp (generated) lists counted gates (library ops X, T, "
    "Toffoli, RX, QFT(n), SemiAdder(n), MultiControlledX(n,z), CRY, ... or U_j, j>i, counts 1-4), Allocate(n) and Deallocate(n) "
    "(never freeing more than the decomposition allocated so far); workflow queue of 1-6 items: U_i or library ops, labelled or "
    "unlabelled wires, repeated k times, wrapped in Adjoint / Controlled(n,z) / Pow(k), Prod with counts, ChangeOpBasis; gate set "
    "default / default+QFT / rotations; pre-allocated zeroed/any_state wires. Oracle: gate_counts of the workflow == multiset sum "
    "over the spec tree (adjoint/controlled pushed to the leaves, 2z X for zero-controls, k-fold for Pow/Prod/repetition) with leaf "
    "values taken from estimate() of the single library operator; estimate(A;B) == estimate(A) + estimate(B); estimate(k*op) == "
    "k x estimate(op); Resources.add_series/add_parallel/multiply_series/multiply_parallel follow the documented rules; algo_wires "
    "== distinct labels + widest unlabelled operator; zeroed, any_state >= 0, total_wires == sum; when the literally replayed "
    "allocation stream is well-formed: no error, any_state == initial + net allocation and zeroed + any_state >= peak simultaneous "
    "allocation; a tight budget at least as large as all allocations never raises. Mode wm: WireResourceManager(zeroed, any, "
    "algo, tight) under random grab_zeroed/free_wires/algo_wires histories vs the documented transitions and ValueErrors (state "
    "unchanged after a rejected call). Non-trivial: >= 2 different operators one of which allocates (tree) / a history with a "
    "pool overflow or a rejected call (wm)."
)
ASSUMPTIONS = [
    "Only the default symbolic decompositions are modelled for the generated custom operators; library operators enter through "
    "their own single-operator estimate (additivity is the property, not the individual decompositions).",
    "Wire clauses are asserted only when the sequential replay of the allocation stream never frees more than is allocated "
    "(the adjoint of an operator that leaves dirty wires is otherwise ill-formed and may raise the documented ValueError).",
]
BUDGET = {"quick": {"examples": 1200}, "thorough": {"examples": 30000, "shards": 16}}
SHRINK_LISTS = ("queue", "body", "steps", "items")

GATE_SETS = {
    "default": None,
    "with_qft": {"Toffoli", "T", "CNOT", "X", "Y", "Z", "S", "Hadamard", "QFT"},
    "rot": {"Toffoli", "T", "CNOT", "X", "Y", "Z", "S", "Hadamard", "RX", "RY", "RZ"},
}
LEAVES = [{"g": "X"}, {"g": "T"}, {"g": "Hadamard"}, {"g": "CNOT"}, {"g": "Toffoli"}, {"g": "S"}, {"g": "Z"}, {"g": "Y"}, {"g": "RX"},
          {"g": "RZ"}, {"g": "CRY"}, {"g": "SWAP"}, {"g": "CZ"}, {"g": "CCZ"}, {"g": "TemporaryAND"},
          {"g": "QFT", "n": 2}, {"g": "QFT", "n": 3}, {"g": "SemiAdder", "n": 3}, {"g": "SemiAdder", "n": 4},
          {"g": "MultiControlledX", "n": 3, "z": 1}, {"g": "MultiControlledX", "n": 4, "z": 0}, {"g": "MultiRZ", "n": 3},
          {"g": "PhaseShift"}, {"g": "ControlledPhaseShift"}, {"g": "Rot"}, {"g": "CSWAP"}]


# ---------------------------------------------------------------------------------------------
# strategies
# ---------------------------------------------------------------------------------------------

@st.composite
def body(draw, i, ndefs):
    out = []
    held = 0
    for _ in range(draw(st.integers(1, 5))):
        r = draw(st.integers(0, 9))
        if r < 2:
            n = draw(st.integers(1, 3))
            out.append({"a": "alloc", "n": n})
            held += n
        elif r < 4 and held > 0:
            n = draw(st.integers(1, held))
            out.append({"a": "free", "n": n})
            held -= n
        elif r < 7 and i + 1 < ndefs:
            out.append({"a": "gate", "g": {"u": draw(st.integers(i + 1, ndefs - 1))}, "c": draw(st.integers(1, 4))})
        else:
            out.append({"a": "gate", "g": draw(st.sampled_from(LEAVES)), "c": draw(st.integers(1, 4))})
    if held and draw(st.integers(0, 2)) > 0:
        out.append({"a": "free", "n": held})   # most decompositions clean up after themselves
    return out


@st.composite
def item(draw, ndefs, nested=True):
    base = draw(st.one_of(st.integers(0, ndefs - 1).map(lambda j: {"u": j}), st.sampled_from(LEAVES))) if ndefs else draw(st.sampled_from(LEAVES))
    wrap = draw(st.sampled_from([None, None, None, "adj", "ctrl", "pow", "powpow"]))
    if wrap == "powpow" and "u" not in base:
        wrap = "pow"   # library leaves have their own power rules (X**2 = I); nested powers are asserted for user ops
    it = {"q": "op", "g": base, "k2": draw(st.sampled_from([2, 3, 3, 4])), "wrap": wrap, "n": draw(st.integers(1, 3)), "z": draw(st.integers(0, 1)), "k": draw(st.integers(1, 4)),
          "wires": draw(st.sampled_from([None, None, "a", "b"])), "rep": draw(st.sampled_from([1, 1, 1, 2, 3]))}
    if nested and draw(st.integers(0, 9)) == 0:
        return {"q": "prod", "items": [[draw(item(ndefs, False)), draw(st.integers(1, 3))] for _ in range(draw(st.integers(1, 3)))], "rep": 1}
    if nested and draw(st.integers(0, 12)) == 0:
        return {"q": "cob", "compute": dict(draw(item(ndefs, False)), wrap=None), "target": draw(item(ndefs, False)), "rep": 1}
    return it


@st.composite
def tree_case(draw):
    ndefs = draw(st.integers(1, 4))
    defs = [{"nw": draw(st.integers(1, 4)), "body": draw(body(i, ndefs))} for i in range(ndefs)]
    return {"mode": "tree", "defs": defs, "queue": draw(st.lists(item(ndefs), min_size=1, max_size=6)),
            "gate_set": draw(st.sampled_from(["default", "default", "with_qft", "rot"])),
            "zeroed": draw(st.sampled_from([0, 0, 1, 3, 10])), "any": draw(st.sampled_from([0, 0, 0, 2])),
            "cut": draw(st.integers(0, 6))}


@st.composite
def wm_case(draw):
    steps = draw(st.lists(st.one_of(
        st.tuples(st.just("grab"), st.integers(0, 6)), st.tuples(st.just("grab"), st.integers(0, 6)),
        st.tuples(st.just("free"), st.integers(0, 6)), st.tuples(st.just("algo"), st.integers(0, 5))).map(list), min_size=1, max_size=12))
    return {"mode": "wm", "zeroed": draw(st.integers(0, 5)), "any": draw(st.integers(0, 4)), "algo": draw(st.integers(0, 4)),
            "tight": draw(st.booleans()), "steps": steps}


def strategy(tier):
    return st.one_of(tree_case(), tree_case(), tree_case(), wm_case())


# ---------------------------------------------------------------------------------------------
# real objects
# ---------------------------------------------------------------------------------------------

def leaf_op(qre, g, wires=None):
    name = g["g"]
    cls = getattr(qre, name)
    kw = {} if wires is None else {"wires": wires}
    if name in ("QFT", "MultiRZ"):
        return cls(g["n"], **kw)
    if name == "SemiAdder":
        return cls(g["n"], **kw)
    if name == "MultiControlledX":
        return cls(g["n"], g["z"], **kw)
    return cls(**kw)


LEAF_WIRES = {"X": 1, "T": 1, "Hadamard": 1, "CNOT": 2, "Toffoli": 3, "S": 1, "Z": 1, "Y": 1, "RX": 1, "RZ": 1, "CRY": 2, "SWAP": 2, "CZ": 2,
              "CCZ": 3, "TemporaryAND": 3, "PhaseShift": 1, "ControlledPhaseShift": 2, "Rot": 1, "CSWAP": 3}


def make_classes(qre, defs):
    classes = [None] * len(defs)

    def build(i):
        d = defs[i]

        def resource_rep(cls):
            return qre.CompressedResourceOp(cls, d["nw"], {})

        def resource_decomp(cls):
            out = []
            for a in d["body"]:
                if a["a"] == "alloc":
                    out.append(qre.Allocate(a["n"]))
                elif a["a"] == "free":
                    out.append(qre.Deallocate(a["n"]))
                elif "u" in a["g"]:
                    out.append(qre.GateCount(classes[a["g"]["u"]].resource_rep(), a["c"]))
                else:
                    with _no_queue():
                        rep = leaf_op(qre, a["g"]).resource_rep_from_op()
                    out.append(qre.GateCount(rep, a["c"]))
            return out

        return type(f"U{i}", (qre.ResourceOperator,), {
            "num_wires": d["nw"], "resource_params": property(lambda self: {}),
            "resource_rep": classmethod(resource_rep), "resource_decomp": classmethod(resource_decomp)})

    for i in reversed(range(len(defs))):
        classes[i] = build(i)
    return classes


def _no_queue():
    from pennylane.queuing import QueuingManager

    return QueuingManager.stop_recording()


def make_item(qre, classes, it):
    """Instantiate one queue item (inside an active queue: wrappers dequeue their operands)."""
    if it["q"] == "prod":
        return qre.Prod(tuple((make_item(qre, classes, sub), c) for sub, c in it["items"]))
    if it["q"] == "cob":
        return qre.ChangeOpBasis(make_item(qre, classes, it["compute"]), make_item(qre, classes, it["target"]))
    wires = None
    g = it["g"]
    nw = classes[g["u"]].num_wires if "u" in g else None
    if it["wires"] is not None and it["wrap"] is None:
        if nw is None:
            with _no_queue():
                nw = leaf_op(qre, g).num_wires
        wires = [f"{it['wires']}{j}" for j in range(nw)]
    base = classes[g["u"]](wires=wires) if "u" in g else leaf_op(qre, g, wires)
    if it["wrap"] == "adj":
        return qre.Adjoint(base)
    if it["wrap"] == "ctrl":
        return qre.Controlled(base, it["n"], it["z"])
    if it["wrap"] == "pow":
        return qre.Pow(base, it["k"])
    if it["wrap"] == "powpow":
        return qre.Pow(qre.Pow(base, it["k"]), it["k2"])   # (U**k)**k2 = U**(k*k2)
    return base


# ---------------------------------------------------------------------------------------------
# oracle: counts by recursion over the spec, allocation stream by literal replay
# ---------------------------------------------------------------------------------------------

class Oracle:
    def __init__(self, qre, spec, classes):
        self.qre, self.spec, self.classes = qre, spec, classes
        self.gs = GATE_SETS[spec["gate_set"]]
        self.cache = {}
        self.alloc_ops = set()

    def single(self, g, mode):
        """gate_counts of one (possibly wrapped) library operator, from its own estimate."""
        key = (repr(sorted(g.items())), mode)
        if key not in self.cache:
            qre = self.qre
            with _no_queue():
                op = leaf_op(qre, g)
                if mode == "adj":
                    op = qre.Adjoint(op)
                elif isinstance(mode, tuple) and mode[0] == "ctrl":
                    op = qre.Controlled(op, mode[1], mode[2])
                elif isinstance(mode, tuple) and mode[0] == "pow":
                    op = qre.Pow(op, mode[1])
            res = estimate(qre, op, self.gs)
            self.cache[key] = (Counter({k: v for k, v in res.gate_counts.items() if v}), res)
        return self.cache[key]

    def counts(self, g, mode):
        if "u" not in g:
            return self.single(g, mode)[0]
        if isinstance(mode, tuple) and mode[0] == "pow":
            return _scale(self.counts(g, None), mode[1])
        out = Counter()
        if isinstance(mode, tuple) and mode[0] == "ctrl" and mode[2]:
            out["X"] += 2 * mode[2]
        child_mode = ("ctrl", mode[1], 0) if isinstance(mode, tuple) else mode
        for a in self.spec["defs"][g["u"]]["body"]:
            if a["a"] == "gate":
                out.update(_scale(self.counts(a["g"], child_mode), a["c"]))
        return out

    def item_counts(self, it):
        if it["q"] == "prod":
            out = Counter()
            for sub, c in it["items"]:
                out.update(_scale(self.item_counts(sub), c))
            return out
        if it["q"] == "cob":
            out = Counter(self.item_counts(it["compute"]))
            out.update(self.item_counts(it["target"]))
            out.update(self.item_counts_adj(it["compute"]))
            return out
        return self.counts(it["g"], self.mode_of(it))

    @staticmethod
    def mode_of(it):
        return {None: None, "adj": "adj", "ctrl": ("ctrl", it["n"], it["z"]), "pow": ("pow", it["k"]),
                "powpow": ("pow", it["k"] * it.get("k2", 1))}[it["wrap"]]

    def item_counts_adj(self, it):
        """Counts of Adjoint(item) for an unwrapped or wrapped simple item (used by ChangeOpBasis)."""
        if it["q"] != "op" or it["wrap"] is not None:
            raise Reject("ChangeOpBasis with a wrapped compute operator is not modelled")
        return self.counts(it["g"], "adj")

    # ---- allocation stream (sequential semantics) -------------------------------------------------
    def stream(self, g, mode, emit):
        if "u" not in g:
            return
        reps = mode[1] if isinstance(mode, tuple) and mode[0] == "pow" else 1
        inner = None if isinstance(mode, tuple) and mode[0] == "pow" else mode
        acts = self.spec["defs"][g["u"]]["body"]
        for _ in range(reps):
            seq = list(reversed(acts)) if inner == "adj" else acts
            for a in seq:
                if a["a"] == "gate":
                    for _ in range(a["c"]):
                        self.stream(a["g"], inner, emit)
                else:
                    alloc = (a["a"] == "alloc") != (inner == "adj")
                    emit(a["n"] if alloc else -a["n"])

    def item_stream(self, it, emit):
        if it["q"] == "prod":
            for sub, c in it["items"]:
                for _ in range(c):
                    self.item_stream(sub, emit)
        elif it["q"] == "cob":
            self.item_stream(it["compute"], emit)
            self.item_stream(it["target"], emit)
            adj = dict(it["compute"])
            adj["wrap"] = "adj"
            self.item_stream(adj, emit)
        else:
            self.stream(it["g"], self.mode_of(it), emit)


def _scale(c, k):
    return Counter({n: v * k for n, v in c.items()})


def estimate(qre, wf, gs, **kw):
    import pennylane as qp

    try:
        out = qre.estimate(wf, gate_set=gs, **kw)
        return out() if callable(out) and not isinstance(out, qre.Resources) else out
    except qp.exceptions.ResourcesUndefinedError:
        raise Reject("operator has no decomposition into this gate set (documented)") from None


def uses_library_allocation(oracle, spec):
    """True when some library operator in the workflow allocates wires itself (then only inequalities are asserted)."""
    for (_, _), (_, res) in oracle.cache.items():
        if res.zeroed_wires or res.any_state_wires:
            return True
    return False


def check_tree(qre, spec):  # noqa: C901
    classes = make_classes(qre, spec["defs"])
    gs = GATE_SETS[spec["gate_set"]]
    queue = [it for it in spec["queue"] for _ in range(it.get("rep", 1))]
    made = []

    def circuit(items):
        def f():
            for it in items:
                made.append(make_item(qre, classes, it))
        return f

    oracle = Oracle(qre, spec, classes)
    expected = Counter()
    for it in queue:
        expected.update(oracle.item_counts(it))
    expected = Counter({k: v for k, v in expected.items() if v})
    # allocation stream
    events = []
    for it in queue:
        oracle.item_stream(it, events.append)
    cur = spec["any"]
    peak = cur
    well_formed = True
    total_alloc = 0
    for e in events:
        cur += e
        total_alloc += max(e, 0)
        peak = max(peak, cur)
        if cur < 0:
            well_formed = False
            break
    lib_alloc_possible = True
    try:
        res = estimate(qre, circuit(queue), gs, zeroed_wires=spec["zeroed"], any_state_wires=spec["any"])
    except ValueError as e:
        if "Freeing more wires than available" in str(e):
            if well_formed and not any(it.get("wrap") == "adj" or it["q"] == "cob" for it in queue):
                raise Viol("wire-underflow", f"well-formed allocation stream {events[:30]} raised: {e}") from None
            raise Reject("ill-formed adjoint allocation stream (documented ValueError)") from None
        raise
    got = Counter({k: v for k, v in res.gate_counts.items() if v})
    if got != expected:
        diff = {k: (got.get(k, 0), expected.get(k, 0)) for k in set(got) | set(expected) if got.get(k, 0) != expected.get(k, 0)}
        raise Viol("additivity", f"workflow gate counts differ from the sum over its parts: (got, expected) {diff}", sig="tree-sum")
    if sum(res.gate_types.values()) != sum(expected.values()) or res.total_gates != sum(expected.values()):
        raise Viol("total-gates", f"{res.total_gates} vs {sum(expected.values())}")
    # split: estimate(A;B) = estimate(A) + estimate(B)
    cut = spec["cut"] % (len(queue) + 1)
    def part(items):
        # the parts run without the pre-allocated any_state wires; an adjoint that frees them is then ill-formed on its own
        try:
            return estimate(qre, circuit(items), gs, any_state_wires=spec["any"])
        except ValueError as e:
            if "Freeing more wires than available" in str(e):
                return None
            raise

    ra, rb = part(queue[:cut]), part(queue[cut:])
    if ra is not None and rb is not None:
        both = Counter(ra.gate_counts) + Counter(rb.gate_counts)
        if Counter({k: v for k, v in both.items() if v}) != got:
            raise Viol("additivity", f"estimate(A;B) != estimate(A)+estimate(B) at cut {cut}", sig="split")
    # ---- wires
    if res.zeroed_wires < 0 or res.any_state_wires < 0 or res.algo_wires < 0:
        raise Viol("negative-wires", f"zeroed={res.zeroed_wires} any={res.any_state_wires} algo={res.algo_wires}")
    if res.total_wires != res.zeroed_wires + res.any_state_wires + res.algo_wires:
        raise Viol("total-wires", "total_wires is not the sum of its parts")
    labels_seen, widest = [], 0
    first_n = made[:len(queue)]
    for op in first_n:
        if getattr(op, "wires", None):
            for w in op.wires:
                if w not in labels_seen:
                    labels_seen.append(w)
        elif op.num_wires:
            widest = max(widest, op.num_wires)
    if res.algo_wires != len(labels_seen) + widest:
        raise Viol("algo-wires", f"algo_wires={res.algo_wires}, workflow has {len(labels_seen)} labelled wires and widest unlabelled operator {widest}")
    if res.zeroed_wires + res.any_state_wires < spec["zeroed"] + spec["any"]:
        raise Viol("wire-pool-shrunk", f"pre-allocated {spec['zeroed']}+{spec['any']} wires, reported {res.zeroed_wires}+{res.any_state_wires}")
    lib = uses_library_allocation(oracle, spec)
    if well_formed:
        if res.zeroed_wires + res.any_state_wires < peak:
            raise Viol("peak-allocation", f"allocation stream {events[:30]} holds {peak} wires at its peak, reported zeroed+any_state="
                       f"{res.zeroed_wires}+{res.any_state_wires}", sig="peak")
        if not lib and res.any_state_wires != cur:
            raise Viol("any-state-net", f"net unfreed allocation is {cur} (stream {events[:30]}, initial {spec['any']}), reported any_state={res.any_state_wires}",
                       sig="net")
        if not lib:
            # a tight budget that covers every allocation can never be exceeded
            try:
                rt = qre.estimate(circuit(queue), gate_set=gs, zeroed_wires=total_alloc + spec["zeroed"], any_state_wires=spec["any"], tight_wires_budget=True)()
            except ValueError as e:
                raise Viol("tight-budget", f"budget {total_alloc + spec['zeroed']} >= all allocations {events[:30]} but: {e}") from None
            if rt.zeroed_wires + rt.any_state_wires != total_alloc + spec["zeroed"] + spec["any"] or rt.zeroed_wires < 0:
                raise Viol("tight-budget", f"tight pool changed size: {rt.zeroed_wires}+{rt.any_state_wires} vs {total_alloc + spec['zeroed'] + spec['any']}")
    # ---- k * op and Resources algebra on the two halves
    it0 = queue[0]
    if it0["q"] == "op":
        with _no_queue():
            op = make_item(qre, classes, dict(it0, wires=None))
        k = it0["k"]
        try:
            rk = estimate(qre, k * op, gs, any_state_wires=spec["any"] * k + 50)
        except ValueError as e:
            if "Freeing more wires than available" not in str(e):
                raise
            rk = None
        if rk is not None and Counter({a: b for a, b in rk.gate_counts.items() if b}) != _scale(oracle.item_counts(it0), k):
            raise Viol("repetition", f"estimate({k} * op) is not {k} x estimate(op) for {it0}", sig="k-times")
    pairs = []
    if ra is not None and rb is not None:
        pairs = [("add_series", ra.add_series(rb), max(ra.algo_wires, rb.algo_wires)), ("add_parallel", ra.add_parallel(rb), ra.algo_wires + rb.algo_wires)]
    for name, r, algo in pairs:
        if Counter(r.gate_counts) != both or r.zeroed_wires != max(ra.zeroed_wires, rb.zeroed_wires) or \
                r.any_state_wires != ra.any_state_wires + rb.any_state_wires or r.algo_wires != algo:
            raise Viol("resources-algebra", f"{name}: {r.zeroed_wires}/{r.any_state_wires}/{r.algo_wires} from {ra.zeroed_wires}/{ra.any_state_wires}/{ra.algo_wires} "
                       f"and {rb.zeroed_wires}/{rb.any_state_wires}/{rb.algo_wires}", sig=name)
    k = 1 + spec["cut"] % 4
    ms, mp = res.multiply_series(k), res.multiply_parallel(k)
    for name, r, algo in (("multiply_series", ms, res.algo_wires), ("multiply_parallel", mp, res.algo_wires * k)):
        if Counter(r.gate_counts) != _scale(got, k) or r.zeroed_wires != res.zeroed_wires or r.any_state_wires != res.any_state_wires * k or r.algo_wires != algo:
            raise Viol("resources-algebra", f"{name}({k}) wrong", sig=name)
    allocs = any(a["a"] == "alloc" for d in spec["defs"] for a in d["body"]) and total_alloc > 0
    kinds = {repr(it.get("g")) for it in queue}
    labels = ["tree", spec["gate_set"], "wf" if well_formed else "ill-formed"]
    labels += sorted({"wrap:" + str(it.get("wrap")) for it in queue if it["q"] == "op"} | {it["q"] for it in queue if it["q"] != "op"})
    if allocs:
        labels.append("allocates")
    if lib:
        labels.append("library-allocation")
    return Result(len(kinds) >= 2 and (allocs or lib), labels)


def check_wm(qre, spec):
    z, a, algo, tight = spec["zeroed"], spec["any"], spec["algo"], spec["tight"]
    wm = qre.WireResourceManager(zeroed=z, any_state=a, algo_wires=algo, tight_budget=tight)
    events = []
    for kind, n in spec["steps"]:
        before = (wm.zeroed, wm.any_state, wm.algo_wires)
        if kind == "grab":
            if n > z and tight:
                try:
                    wm.grab_zeroed(n)
                except ValueError:
                    events.append("grab-rejected")
                    if (wm.zeroed, wm.any_state, wm.algo_wires) != before:
                        raise Viol("wm-rejected-mutates", f"rejected grab_zeroed({n}) changed the state {before} -> {(wm.zeroed, wm.any_state)}") from None
                else:
                    raise Viol("wm-tight", f"grab_zeroed({n}) with {z} zeroed wires under a tight budget did not raise")
            else:
                wm.grab_zeroed(n)
                if n > z:
                    events.append("overflow")
                z, a = max(z - n, 0), a + n
        elif kind == "free":
            if n > a:
                try:
                    wm.free_wires(n)
                except ValueError:
                    events.append("free-rejected")
                    if (wm.zeroed, wm.any_state, wm.algo_wires) != before:
                        raise Viol("wm-rejected-mutates", f"rejected free_wires({n}) changed the state") from None
                else:
                    raise Viol("wm-free", f"free_wires({n}) with {a} any_state wires did not raise")
            else:
                wm.free_wires(n)
                z, a = z + n, a - n
        else:
            wm.algo_wires = n
            algo = n
        if (wm.zeroed, wm.any_state, wm.algo_wires) != (z, a, algo):
            raise Viol("wm-transition", f"after {kind}({n}): manager ({wm.zeroed},{wm.any_state},{wm.algo_wires}) model ({z},{a},{algo})", sig=kind)
        if wm.zeroed < 0 or wm.any_state < 0:
            raise Viol("negative-wires", f"{wm}")
        if wm.total_wires != z + a + algo:
            raise Viol("total-wires", f"{wm.total_wires} != {z}+{a}+{algo}")
    if wm != qre.WireResourceManager(zeroed=z, any_state=a, algo_wires=algo, tight_budget=tight):
        raise Viol("wm-eq", "manager differs from a fresh one with the same numbers")
    return Result(bool(events), ["wm", "tight" if tight else "loose"] + sorted(set(events)))


def check(spec):
    import pennylane.estimator as qre
    from pennylane.queuing import QueuingManager

    if QueuingManager.recording():
        raise RuntimeError("harness: queuing context leaked")
    if spec["mode"] == "wm":
        return check_wm(qre, spec)
    return check_tree(qre, spec)
