"""C06 — copies, pickles, pytrees, capture binding and parameter rebinding reproduce operators and measurement processes."""
import copy
import pickle

import numpy as np
from hypothesis import strategies as st

from pv import gen, zoo, zoo_extra
from pv.engine import Reject, Result, Viol
from pv.props import c03_operator_arithmetic as c03
from pv.props import c04_equality as c04

ID = "C06"
TECHNIQUE = ("hypothesis-generated operators / measurement processes pushed through every reproduction path; oracle = qp.equal with the "
             "original, type preservation, memory independence of deep copies, and agreement of rebinding with an independently built twin")
RULE = (
    "Object x: a zoo leaf (every class with a builder), a leaf under adjoint/pow/ctrl wrappers, a nested arithmetic expression (C03's generator) "
    "or a measurement process (C04's generator). For f in {copy.copy, copy.deepcopy, pickle.loads(pickle.dumps), qp.pytrees.unflatten(flatten), "
    "jax.tree_util.tree_unflatten(tree_flatten), capture primitive bind + eval_jaxpr (integer wires only, as in the library's own validity check)}: "
    "type(f(x)) is type(x), f(x) is not x, f(x).wires == x.wires, qp.equal(x, f(x)) and qp.equal(f(x), x). Deep copy: no numpy leaf of the copy shares memory with the "
    "original and overwriting every array of the copy in place leaves the original equal to a fresh rebuild. Rebinding: y = the same spec with all "
    "numeric parameters shifted (probabilities halved, matrix seeds changed; the generator of an Evolution and the unitary of a GQSP are kept, their parameters are not data), built independently; z = bind_new_parameters(x, y.data) must have "
    "type(x), data equal to y.data exactly, qp.equal(z, y) (so wires / hyperparameters are unchanged) and x must still equal a fresh rebuild. "
    "Non-trivial: x has parameters, hyperparameters or is nested."
)
ASSUMPTIONS = [
    "Documented unpicklable / uncapturable classes skip exactly that path: MidMeasure and PauliMeasure skip capture (conftest skip_capture); "
    "MultiControlledX skips rebinding (conftest skip_bind_new_parameters); SparseHamiltonian (non-tensor data, _INSTANCES_TO_FAIL) skips the "
    "pytree / jax / capture / rebinding paths; TmpPauliRot, PauliError keep all paths except capture.",
    "Capture binding is only exercised for operators whose wires are all integers (the library's assert_valid does the same), for non-template "
    "classes (the library's class-level validity sweep excludes templates), and compared with check_interface=False (jax evaluation returns jax arrays).",
    "Rebinding is checked only when the shifted spec is itself a valid instance (it is built through the public constructor first).",
]
BUDGET = {"quick": {"examples": 900}, "thorough": {"examples": 60000, "shards": 16}}
SHRINK_LISTS = ("operands",)

PROB_CLASSES = {"BitFlip", "PhaseFlip", "DepolarizingChannel", "AmplitudeDamping", "PhaseDamping", "GeneralizedAmplitudeDamping", "ResetError",
                "ThermalRelaxationError", "PauliError"}
NO_CAPTURE = {"MidMeasure", "PauliMeasure", "SparseHamiltonian", "PauliError", "TmpPauliRot", "Snapshot"}
NO_PYTREE = {"SparseHamiltonian"}
NO_BIND = {"MultiControlledX", "SparseHamiltonian"}


@st.composite
def _case(draw, tier):
    kind = draw(st.sampled_from(["leaf"] * 5 + ["wrapped"] * 2 + ["expr"] * 3 + ["meas"] * 2))
    wires = draw(st.one_of(gen.wire_labels(6), st.just([0, 1, 2, 3, 4, 5]), st.permutations([0, 1, 2, 3, 4, 5]).map(list)))
    if kind == "leaf":
        name = draw(st.sampled_from(sorted(zoo.ZOO)))
        a = draw(zoo.ZOO[name][0](wires))
    elif kind == "wrapped":
        a = draw(zoo.wrapped(wires[:4], "matrix", max_depth=3))
    elif kind == "expr":
        a = draw(c03.expr(wires[:draw(st.integers(1, 4))], draw(st.integers(1, 3)), draw(st.sampled_from(["U", "H", "M"]))))
    else:
        a = draw(c04._meas(wires[:4]))  # noqa: SLF001
    return {"a": a}


def strategy(tier):
    return _case(tier)


def enumerate_cases(tier):
    yield {"coverage": True}
    import hypothesis
    from hypothesis import HealthCheck, given, seed, settings

    for name in sorted(zoo.ZOO):  # every class with a builder, integer wires (so that the capture path is exercised)
        f, mw, _ = zoo.ZOO[name]
        out = []

        @seed(4321)
        @settings(max_examples=2 if tier == "quick" else 10, database=None, deadline=None, phases=[hypothesis.Phase.generate],
                  suppress_health_check=list(HealthCheck))
        @given(f([3, 0, 5, 1, 4, 2][:max(mw, 6)]))
        def grab(s):
            out.append(s)

        try:
            grab()
        except Exception:  # noqa: BLE001
            continue
        for s in out:
            yield {"a": s}
    # operators that hold other operators as arguments, all of them parametrised (each nested parameter is part of data and has to be
    # rebound): HilbertSchmidt / LocalHilbertSchmidt with a parametrised target U as well as a parametrised V
    for cls in ("HilbertSchmidt", "LocalHilbertSchmidt"):
        for V, U in (({"op": "RX", "p": [0.3], "w": [1]}, {"op": "RY", "p": [0.5], "w": [0]}),
                     ({"op": "CRX", "p": [0.7], "w": [2, 3]}, {"op": "IsingXX", "p": [-0.4], "w": [0, 1]}),
                     ({"op": "Rot", "p": [0.1, 0.2, 0.3], "w": [3]}, {"op": "U3", "p": [0.4, 0.5, 0.6], "w": [5]})):
            yield {"a": {"op": cls, "p": [], "w": None, "kw": {"V": V, "U": U}}}


def _shift(s, cls=None):
    """The spec with every numeric parameter changed (same shapes, still inside the documented domain)."""
    if isinstance(s, list):
        return [_shift(x, cls) for x in s]
    if not isinstance(s, dict):
        return s
    out = {}
    name = s.get("op", cls)
    for k, v in s.items():
        if k == "p":
            ps = []
            for x in v:
                if isinstance(x, bool):
                    ps.append(x)
                elif isinstance(x, (int, float)):
                    ps.append(round(x * 0.5, 6) if name in PROB_CLASSES else (x + 0.125 if isinstance(x, float) or name not in ("BasisState",) else x))
                elif isinstance(x, list) and x and all(isinstance(y, (int, float)) and not isinstance(y, bool) for y in x) and name not in ("BasisState", "Projector"):
                    ps.append([y + 0.125 for y in x])
                elif isinstance(x, list) and name in ("BasisState", "Projector"):
                    ps.append([1 - int(y) for y in x])
                elif isinstance(x, dict):
                    d = dict(x)
                    for key in ("U", "H", "vec", "arr", "kraus", "rho", "sparseH", "Udim", "phases"):
                        if key in d and d[key]:
                            d[key] = [round(y * 0.5 + 0.1, 6) if key != "phases" else y + 0.125 for y in d[key]]
                    ps.append(d)
                else:
                    ps.append(x)
            out[k] = ps
        elif k in ("c",) and s.get("op") in ("s_prod", "exp", "evolution"):
            out[k] = c04._shift_scalar(v, 0.125)  # noqa: SLF001
        elif k == "coeffs":
            out[k] = [c04._shift_scalar(c, 0.125) for c in v]  # noqa: SLF001
        elif k == "base" and s.get("op") == "evolution":
            # Evolution.data is (param,) only: the generator's parameters are documented as not trainable and are not part of
            # data, so "the other attributes are unchanged" means the twin keeps the generator (shifting it too demanded more
            # than bind_new_parameters(x, y.data) can know)
            out[k] = v
        elif k in ("base", "compute", "target", "uncompute", "obs") and isinstance(v, dict):
            out[k] = _shift(v)
        elif k == "operands":
            out[k] = [_shift(o) for o in v]
        elif k == "kw" and isinstance(v, dict):
            kw = {}
            for kk, vv in v.items():
                if name == "GQSP" and kk == "unitary":
                    # GQSP.data is (angles,): the unitary is not a dynamic argument, so rebinding keeps it (like the generator of an Evolution)
                    kw[kk] = vv
                elif isinstance(vv, dict) and "op" in vv:
                    kw[kk] = _shift(vv)
                elif isinstance(vv, list) and vv and isinstance(vv[0], dict) and "op" in vv[0]:
                    kw[kk] = [_shift(o) for o in vv]
                elif isinstance(vv, dict) and "arr" in vv and kk in ("angles",):
                    kw[kk] = {**vv, "arr": [y + 0.125 for y in vv["arr"]]}
                elif kk in ("time", "alpha") and isinstance(vv, (int, float)):
                    kw[kk] = vv + 0.125
                else:
                    kw[kk] = vv
            out[k] = kw
        else:
            out[k] = v
    return out


def _arrays(obj, seen=None, depth=0, tag="other"):
    """All (numpy array, owner tag) reachable from an operator / measurement (data, hyperparameters, nested operators);
    tag 'legacy-data' marks arrays held in the .data of a legacy (non-Operator2) operator."""
    import pennylane as qp
    from pennylane.core.operator.operator2 import Operator2

    seen = seen if seen is not None else set()
    out = []
    if id(obj) in seen or depth > 6:
        return out
    seen.add(id(obj))
    if isinstance(obj, np.ndarray):
        return [(obj, tag)] if obj.dtype != object else []
    if isinstance(obj, (list, tuple)):
        for x in obj:
            out += _arrays(x, seen, depth + 1, tag)
    elif isinstance(obj, dict):
        for x in obj.values():
            out += _arrays(x, seen, depth + 1, tag)
    elif isinstance(obj, (qp.operation.Operator, qp.measurements.MeasurementProcess)):
        for attr in ("data", "hyperparameters", "arguments", "obs", "_eigvals"):
            try:
                v = getattr(obj, attr, None)
            except Exception:  # noqa: BLE001
                continue
            if v is not None:
                legacy = isinstance(obj, qp.operation.Operator) and not isinstance(obj, Operator2)
                out += _arrays(v, seen, depth + 1, "legacy-data" if (attr == "data" and legacy) else "other")
    return out


def _root(a, how, default):
    """Bucket name from the input class (so that one root cause is one bucket whatever wrapper surrounds it)."""
    r = repr(a)
    if how == "bind":
        # (ControlledQubitUnitary, GQSP, ChangeOpBasis and Evolution used to be classes of their own: repaired in the repository)
        for n in ("BlockEncode", "TemporaryAND"):
            if f"'{n}'" in r:
                return "bind:contains-" + n
        for n, (_, _, t) in zoo.ZOO.items():
            # GQSP is excluded: its operator argument is not part of data, so there is no hyperparameter that could go stale
            if "opargs" in t and n != "GQSP" and f"'{n}'" in r:
                return "bind:operator-valued-hyperparameter:" + n
    if how in ("pytree", "jax-pytree", "pickle", "copy", "deepcopy") and "'StronglyEntanglingLayers'" in r:
        return how + ":contains-StronglyEntanglingLayers"
    if how == "capture":
        if "'ww':" in r:
            return "capture:controlled-with-work-wires"
        if _adjoint_of_wrapper(a):  # the operator primitive stores adjoint as a flag and controls as a count: nesting is canonicalised
            return "capture:adjoint-of-wrapper"
        if _nested_controlled_class(a):
            return "capture:nested-controlled-class"
    return default


def _nested_controlled_class(s):
    """A Controlled / ControlledOp2 instantiated directly (via='class': no flattening, unlike qp.ctrl) on a base that is itself a ctrl spec."""
    if isinstance(s, dict):
        if s.get("op") == "ctrl" and s.get("via") == "class" and isinstance(s.get("base"), dict) and s["base"].get("op") == "ctrl":
            return True
        return any(_nested_controlled_class(v) for v in s.values())
    if isinstance(s, list):
        return any(_nested_controlled_class(v) for v in s)
    return False


def _adjoint_of_wrapper(s):
    if isinstance(s, dict):
        if s.get("op") == "adjoint" and isinstance(s.get("base"), dict) and any(k in s["base"] for k in ("base", "operands", "compute")):
            return True
        # change_op_basis(compute, target) without uncompute builds uncompute = adjoint(compute): an implicit adjoint of a wrapper
        if (s.get("op") == "cob" and s.get("uncompute") is None and isinstance(s.get("compute"), dict)
                and any(k in s["compute"] for k in ("base", "operands", "compute"))):
            return True
        return any(_adjoint_of_wrapper(v) for v in s.values())
    if isinstance(s, list):
        return any(_adjoint_of_wrapper(v) for v in s)
    return False


def _same(x, y):
    import pennylane as qp

    return bool(qp.equal(x, y)) and bool(qp.equal(y, x))


def check(spec):
    import pennylane as qp

    if spec.get("coverage"):
        return Result(False, labels=zoo_extra.coverage_labels())
    a = spec["a"]
    sig = c04._sig(a)  # noqa: SLF001
    try:
        x = c04._build(a)  # noqa: SLF001
    except ValueError as ex:
        # LinearCombination @ LinearCombination on shared wires is refused by the constructor path with this explicit message
        # (legacy Hamiltonian semantics): there is no operator to round-trip, the case is outside the domain of this property
        if "LinearCombinations can only be multiplied together if they act on different sets of wires" in str(ex):
            raise Reject("LinearCombination @ LinearCombination on shared wires (documented ValueError)") from None
        raise
    tname = type(x).__name__
    is_op = isinstance(x, qp.operation.Operator)
    labels = ["a:" + sig, "type:" + tname]
    names_in = repr(a)
    feats = {"cls": sig, "type": tname}

    def roundtrip(how, f):
        try:
            y = f(x)
        except Exception as ex:  # noqa: BLE001
            from pv.engine import _origin

            origin, where = _origin(ex.__traceback__)
            if origin != "sut" and not isinstance(ex, (pickle.PicklingError, AttributeError, TypeError)):
                raise
            raise Viol(f"{how}-raises", f"{type(ex).__name__}: {str(ex)[:300]} for {a} -> {x!r}", sig=_root(a, how, f"{sig}:{how}:{type(ex).__name__}"),
                       features={**feats, "path": how, "exc": type(ex).__name__}) from None
        if type(y) is not type(x):
            raise Viol(f"{how}-type", f"{type(y).__name__} instead of {tname} for {a}", sig=_root(a, how, f"{sig}:{how}"), features={**feats, "path": how})
        if y is x:
            raise Viol(f"{how}-same-object", f"{how} returned the original object for {a}", sig=f"{sig}:{how}", features={**feats, "path": how})
        same = _same(x, y) if how != "capture" else bool(qp.equal(x, y, check_interface=False, check_trainability=False))
        if not same:
            raise Viol(f"{how}-not-equal", f"qp.equal(x, {how}(x)) is False for {a} -> {x!r} vs {y!r}", sig=_root(a, how, f"{sig}:{how}"), features={**feats, "path": how})
        if list(y.wires) != list(x.wires):
            raise Viol(f"{how}-wires", f"wires {list(y.wires)} instead of {list(x.wires)} for {a}", sig=f"{sig}:{how}", features={**feats, "path": how})
        labels.append("ok:" + how)
        return y

    roundtrip("copy", copy.copy)
    dc = roundtrip("deepcopy", copy.deepcopy)
    roundtrip("pickle", lambda o: pickle.loads(pickle.dumps(o)))
    if not any(f"'{n}'" in names_in for n in NO_PYTREE):
        roundtrip("pytree", lambda o: qp.pytrees.unflatten(*qp.pytrees.flatten(o)))
        import jax

        def jax_rt(o):
            leaves, struct = jax.tree_util.tree_flatten(o)
            return jax.tree_util.tree_unflatten(struct, leaves)
        roundtrip("jax-pytree", jax_rt)

    # deep copy shares no mutable array with the original (the legacy-operator bucket is deferred so that it does not mask the other paths)
    pending = None
    mine = _arrays(x)
    theirs = _arrays(dc)
    for u, tag in theirs:
        if any(np.shares_memory(u, v) for v, _ in mine):
            legacy = tag == "legacy-data"  # Operator.__deepcopy__ copies ._data shallowly on purpose (comment in base.py): one bucket
            pending = pending or Viol("deepcopy-shares-memory", f"an array ({tag}) of deepcopy(x) shares memory with x for {a} -> {x!r}",
                       sig="legacy-operator-data" if legacy else f"{sig}:deepcopy", features={**feats, "legacy_operator_data": legacy})
            if not legacy:
                raise pending
    for u, _ in theirs if pending is None else []:
        if u.flags.writeable and u.size:
            u[...] = 7 if u.dtype.kind in "iu" else (1 if u.dtype.kind == "b" else 0.777)
    if pending is None and not _same(x, c04._build(a)):  # noqa: SLF001
        raise Viol("deepcopy-aliasing", f"overwriting the arrays of deepcopy(x) changed x for {a}", sig=f"{sig}:deepcopy", features=feats)
    if theirs:
        labels.append("deepcopy:arrays-independent")

    # capture primitive binding (integer wires only, operators only)
    templ = {n for n, (_, _, t) in zoo.ZOO.items() if "template" in t}
    if (is_op and all(isinstance(w, int) for w in x.wires) and not any(f"'{n}'" in names_in for n in NO_CAPTURE | templ) and tname != "SubroutineOp"):
        import jax

        from pennylane.core.operator.operator2 import Operator2

        def capture_rt(o):
            qp.capture.enable()
            try:
                data, struct = jax.tree_util.tree_flatten(o)

                def fn(*args):
                    op = jax.tree_util.tree_unflatten(struct, args)
                    if isinstance(op, Operator2):
                        op._bind_primitive()  # noqa: SLF001
                        return op.tracer
                    return op

                jaxpr = jax.make_jaxpr(fn)(*data)
                return jax.core.eval_jaxpr(jaxpr.jaxpr, jaxpr.consts, *data)[0]
            finally:
                qp.capture.disable()
        roundtrip("capture", capture_rt)

    # rebinding
    if is_op and len(x.data) and not any(f"'{n}'" in names_in for n in NO_BIND):
        b = _shift(a)
        y = None
        if b != a:
            try:
                y = c04._build(b)  # noqa: SLF001
            except Exception:  # noqa: BLE001  (shifted spec left the documented domain)
                labels.append("bind:shifted-spec-invalid")
        if y is not None and type(y) is type(x) and len(y.data) == len(x.data) and all(np.shape(p) == np.shape(q) for p, q in zip(x.data, y.data)):
            try:
                z = qp.ops.functions.bind_new_parameters(x, list(y.data))
            except Exception as ex:  # noqa: BLE001
                from pv.engine import _origin

                origin, where = _origin(ex.__traceback__)
                if origin != "sut":
                    raise
                raise Viol("bind-raises", f"{type(ex).__name__}: {str(ex)[:300]} for {a} -> {x!r}", sig=_root(a, "bind", f"{sig}:bind:{type(ex).__name__}"),
                           features={**feats, "path": "bind", "exc": type(ex).__name__}) from None
            if type(z) is not type(x):
                raise Viol("bind-type", f"{type(z).__name__} instead of {tname} for {a}", sig=f"{sig}:bind", features=feats)
            if len(z.data) != len(y.data) or not all(np.shape(p) == np.shape(q) and np.array_equal(np.asarray(p), np.asarray(q)) for p, q in zip(z.data, y.data)):
                raise Viol("bind-data", f"bind_new_parameters(x, new).data != new for {a}: got {z.data} wanted {y.data}", sig=_root(a, "bind", f"{sig}:bind"), features=feats)
            if not _same(z, y):
                raise Viol("bind-not-equal-to-twin", f"bind_new_parameters(x, y.data) is not qp.equal to y for {a}: {z!r} vs {y!r}", sig=_root(a, "bind", f"{sig}:bind"), features=feats)
            if not _same(x, c04._build(a)):  # noqa: SLF001
                raise Viol("bind-mutated-original", f"bind_new_parameters changed its input for {a}", sig=f"{sig}:bind", features=feats)
            labels.append("ok:bind")
        elif y is not None:
            labels.append("bind:shape-changed")
    if pending is not None:
        raise pending
    nested = any(isinstance(a.get(k), (dict, list)) for k in ("base", "operands", "obs"))
    return Result(bool(nested or a.get("p") or a.get("kw")), labels=labels + zoo_extra.coverage_labels())
