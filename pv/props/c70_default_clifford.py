"""C70 — default.clifford is exact on stabilizer circuits (analytic results, tableau / state outputs, samples) and never
silently mis-simulates non-Clifford input."""
import hashlib
import json

import numpy as np
from hypothesis import strategies as st

from pv import gen, specs
from pv.cmp import close, maxdiff, to_np
from pv.engine import Reject, Result, Viol
from pv.props import c29_sampling_born as c29
from pv.props.c28_channels_mixed import _standard_order
from pv.ref import kraus as kr
from pv.ref import sim
from pv.ref import stattest as stt

ID = "C70"
TECHNIQUE = ("hypothesis Clifford circuits over the device's documented gate table executed on default.clifford vs the numpy state-vector "
             "reference (analytic), stabilizer-group check of tableau output, two-stage exact statistical test of samples; "
             "non-Clifford circuits: documented DeviceError or exact result")
RULE = (
    "analytic: 1-10 wires (int/str/mixed labels, random order), depth<=40 over the documented table I/X/Y/Z/H/S/S^dag/SX/SX^dag/CNOT/SWAP/"
    "ISWAP/ISWAP^dag/CY/CZ/GlobalPhase/Barrier, optional leading BasisState or stabilizer StatePrep (state of a random Clifford "
    "circuit on <=3 wires), measurements expval/var of Pauli words, sums / LinearCombinations of words, Hermitian, Projector; probs "
    "(wire subsets in random order, all wires, Pauli-word basis), state (tableau=True and False), density_matrix, purity, vn_entropy, "
    "mutual_info; device wires none/same/permuted/idle extras, check_clifford on/off. Oracle: pv.ref.sim on the same ops: values 1e-9 "
    "(1e-6 where the device goes through stim's complex64 state vector: state, density_matrix, probs with tableau=False); state up to a "
    "global phase; tableau: shape (2N, 2N+1), binary, last N rows S_i satisfy S_i|psi> = |psi> and are GF(2)-independent, rows form a "
    "symplectic basis (destabilizer D_i anticommutes with S_i only). shots: 1-6 wires (noisy: <=5, PauliError/BitFlip/PhaseFlip/"
    "DepolarizingChannel, reference pv.ref.kraus), sample/counts/probs/expval/var with 5000-20000 shots, C29's deterministic checks "
    "and two-stage statistical test (p<1e-9 twice, second sample 4x); shot vectors must give one result per bin. nonclifford: circuits "
    "mixing the full gate table (T, RZ(theta), Rot, CRX, Toffoli, ...) into Clifford gates with check_clifford on/off: outcome must be "
    "the documented DeviceError or results equal to the reference. Non-trivial: >=1 entangling gate and a measurement outside the Z "
    "basis (analytic/shots); nonclifford: the circuit contains a gate outside the table."
)
ASSUMPTIONS = [
    "stim returns complex64 state vectors: state-vector derived outputs are compared at 1e-6.",
    "sample() results of default.clifford are squeezed ((shots,) for one wire); the distribution is tested after reshaping, the shape "
    "deviation from qp.sample's documented (shots, wires) is recorded as a label only.",
    "Explicit 'not supported' errors (DeviceError, NotImplementedError, QuantumFunctionError about rotating probabilities) count as "
    "documented rejections of a measurement; generators avoid the known unsupported combinations.",
    "expval with shots is estimated term by term over the Pauli decomposition: Hoeffding bound with the Pauli 1-norm.",
    "var(Q) goes through simplify(), whose documented cutoff drops Pauli words with |coefficient| <= 1e-8: var is compared at "
    "1e-9 + 3e-8 * (number of terms)^2.",
]
BUDGET = {"quick": {"examples": 230}, "thorough": {"examples": 15000, "shards": 16}}
SHRINK_LISTS = ("ops", "meas", "circ")
ALPHA = stt.ALPHA

N1 = ["Identity", "PauliX", "PauliY", "PauliZ", "Hadamard", "S", "SX"]
N2 = ["CNOT", "SWAP", "ISWAP", "CY", "CZ"]
ENT = {"CNOT", "ISWAP", "CY", "CZ"}
NATIVE = set(N1 + N2 + ["GlobalPhase", "Barrier", "BasisState", "StatePrepStab"])


def clifford_gate(wires):
    n = len(wires)
    one = st.tuples(st.sampled_from(N1), gen.subset(wires, 1)).map(lambda t: {"op": t[0], "p": [], "w": t[1]})
    adj1 = st.tuples(st.sampled_from(["S", "SX"]), gen.subset(wires, 1)).map(lambda t: {"op": "adjoint", "base": {"op": t[0], "p": [], "w": t[1]}})
    opts = [one, one, one, adj1]
    if n >= 2:
        two = st.tuples(st.sampled_from(N2), gen.subset(wires, 2)).map(lambda t: {"op": t[0], "p": [], "w": t[1]})
        adj2 = gen.subset(wires, 2).map(lambda w: {"op": "adjoint", "base": {"op": "ISWAP", "p": [], "w": w}})
        opts += [two, two, two, adj2]
    opts.append(st.tuples(gen.angles(), gen.subset(wires, 1)).map(lambda t: {"op": "GlobalPhase", "p": [t[0]], "w": t[1]}))
    opts.append(st.integers(1, n).flatmap(lambda k: gen.subset(wires, k)).map(lambda w: {"op": "Barrier", "p": [], "w": w}))
    return st.one_of(*opts)


@st.composite
def clifford_ops(draw, wires, max_depth, prep=True):
    n = len(wires)
    depth = draw(st.sampled_from([2, 4, 8, max_depth, max_depth]))
    ops = draw(st.lists(clifford_gate(wires), min_size=1, max_size=min(depth, max_depth)))
    if draw(st.booleans()):
        # product layer of single-qubit stabilizer states: mixes deterministic (|0>, |1>) and superposed wires
        layer = []
        for w in wires:
            for g in draw(st.sampled_from([[], [], ["PauliX"], ["PauliX"], ["Hadamard"], ["PauliX", "Hadamard"], ["Hadamard", "S"], ["PauliY"]])):
                layer.append({"op": g, "p": [], "w": [w]})
        ops = layer + ops
    kind = draw(st.sampled_from([None, None, None, "basis", "stab"])) if prep else None
    if kind == "basis":
        k = draw(st.integers(1, n))
        ops.insert(0, {"op": "BasisState", "p": [draw(st.lists(st.integers(0, 1), min_size=k, max_size=k))], "w": draw(gen.subset(wires, k))})
    elif kind == "stab":
        k = draw(st.integers(1, min(n, 3)))
        loc = list(range(k))
        circ = draw(st.lists(clifford_gate(loc), min_size=1, max_size=8))
        ops.insert(0, {"op": "StatePrepStab", "circ": circ, "k": k, "w": draw(gen.subset(wires, k))})
    return ops


def _words(wires, max_len=3):
    return gen.pauli_word_obs(wires, max_len)


def _lin(wires):
    return st.lists(st.tuples(gen.floats01, _words(wires)), min_size=1, max_size=4)


def _expval_obs(wires):
    n = len(wires)
    herm = st.integers(1, min(2, n)).flatmap(lambda k: st.tuples(gen.float_list(5), gen.subset(wires, k)).map(
        lambda t: {"op": "Hermitian", "p": [{"H": t[0], "n": len(t[1])}], "w": t[1]}))
    proj = st.tuples(st.lists(st.integers(0, 1), min_size=1, max_size=min(3, n)), st.permutations(wires)).map(
        lambda t: {"op": "Projector", "p": [t[0]], "w": list(t[1])[:len(t[0])]})
    lincomb = _lin(wires).map(lambda ts: {"op": "lincomb", "coeffs": [c for c, _ in ts], "operands": [o for _, o in ts]})
    summ = _lin(wires).map(lambda ts: {"op": "sum", "operands": [{"op": "s_prod", "c": c, "base": o} for c, o in ts]} if len(ts) > 1 else
                           {"op": "s_prod", "c": ts[0][0], "base": ts[0][1]})
    return st.one_of(_words(wires), _words(wires), herm, proj, lincomb, summ)


@st.composite
def _analytic_meas(draw, wires):
    n = len(wires)
    sub = lambda mx: st.integers(1, min(n, mx)).flatmap(lambda k: gen.subset(wires, k))  # noqa: E731
    opts = [_expval_obs(wires).map(lambda o: {"mp": "expval", "obs": o}),
            _expval_obs(wires).map(lambda o: {"mp": "expval", "obs": o}),
            st.one_of(_words(wires), _lin(wires).map(lambda ts: {"op": "sum", "operands": [{"op": "s_prod", "c": c, "base": o} for c, o in ts]}
                                                     if len(ts) > 1 else {"op": "s_prod", "c": ts[0][0], "base": ts[0][1]})).map(lambda o: {"mp": "var", "obs": o}),
            sub(6).map(lambda w: {"mp": "probs", "w": w}),
            _words(wires).map(lambda o: {"mp": "probs", "obs": o}),
            st.just({"mp": "state"}),
            sub(4).map(lambda w: {"mp": "density_matrix", "w": w}),
            sub(10).map(lambda w: {"mp": "purity", "w": w}),
            st.tuples(sub(10), st.sampled_from([None, 2, 10])).map(lambda t: {"mp": "vn_entropy", "w": t[0], "log_base": t[1]})]
    if n <= 6:
        opts.append(st.just({"mp": "probs", "w": None}))
    if n >= 2:
        opts.append(st.permutations(wires).flatmap(lambda p: st.tuples(st.integers(1, n - 1), st.integers(1, n - 1), st.sampled_from([None, 2])).map(
            lambda t: {"mp": "mutual_info", "w0": list(p)[:t[0]], "w1": list(p)[t[0]:t[0] + t[1]], "log_base": t[2]})))
    return draw(st.one_of(*opts))


def _dev_wires(draw, wires):
    devw = draw(st.sampled_from(["none", "same", "perm", "extra"]))
    if devw == "same":
        return list(wires)
    if devw == "perm":
        return list(draw(st.permutations(wires)))
    if devw == "extra":
        return list(draw(st.permutations(wires + ["idle1"])))
    return None


@st.composite
def _analytic(draw):
    n = draw(st.sampled_from([1, 2, 2, 3, 3, 4, 4, 5, 6, 7, 8, 10]))
    wires = draw(gen.wire_labels(min(n, 6))) if n <= 6 else list(draw(st.permutations(list(range(n)) if draw(st.booleans()) else [f"q{i}" for i in range(n)])))
    ops = draw(clifford_ops(wires, 40 if n > 3 else 15))
    meas = draw(st.lists(_analytic_meas(wires), min_size=1, max_size=4))
    return {"kind": "analytic", "ops": ops, "meas": meas, "wires": wires, "dev_wires": _dev_wires(draw, wires),
            "tableau": draw(st.booleans()), "check": draw(st.sampled_from([True, True, False]))}


@st.composite
def _shots_meas(draw, wires):
    n = len(wires)
    sub = st.integers(1, min(n, 4)).flatmap(lambda k: gen.subset(wires, k))
    word = _words(wires)
    scaled = st.tuples(st.sampled_from([2.0, -0.5]), word).map(lambda t: {"op": "s_prod", "c": t[0], "base": t[1]})
    kind = draw(st.sampled_from(["sample_w", "sample_w", "sample_obs", "counts_w", "counts_w", "counts_obs", "probs_w", "expval", "expval", "var"] +
                                (["sample_all", "counts_all"] if n <= 4 else [])))
    if kind == "sample_w":
        return {"mp": "sample", "w": draw(sub)}
    if kind == "sample_all":
        return {"mp": "sample", "w": None}
    if kind == "sample_obs":
        return {"mp": "sample", "obs": draw(st.one_of(word, scaled))}
    if kind == "counts_w":
        return {"mp": "counts", "w": draw(sub), "all_outcomes": draw(st.booleans())}
    if kind == "counts_all":
        return {"mp": "counts", "w": None, "all_outcomes": draw(st.booleans())}
    if kind == "counts_obs":
        return {"mp": "counts", "obs": draw(word), "all_outcomes": draw(st.booleans())}
    if kind == "probs_w":
        return {"mp": "probs", "w": draw(sub)}
    if kind == "expval":
        return {"mp": "expval", "obs": draw(_expval_obs(wires))}
    return {"mp": "var", "obs": draw(st.one_of(word, scaled))}


@st.composite
def noise(draw, wires):
    nm = draw(st.sampled_from(["BitFlip", "PhaseFlip", "DepolarizingChannel", "PauliError"]))
    p = draw(st.sampled_from([0.0, 0.05, 0.2, 0.5, 0.75, 1.0]))
    if nm == "PauliError":
        k = draw(st.integers(1, min(len(wires), 3)))
        return {"op": nm, "p": [p], "w": draw(gen.subset(wires, k)), "word": draw(st.text("XYZ", min_size=k, max_size=k))}
    return {"op": nm, "p": [p], "w": draw(gen.subset(wires, 1))}


@st.composite
def _shots(draw):
    noisy = draw(st.booleans())
    n = draw(st.integers(1, 5 if noisy else 6))
    wires = draw(gen.wire_labels(n))
    ops = draw(clifford_ops(wires, 15))
    if noisy:
        for _ in range(draw(st.integers(1, 3))):
            ops.insert(draw(st.integers(1, len(ops))), draw(noise(wires)))
    meas = draw(st.lists(_shots_meas(wires), min_size=1, max_size=3))
    shots = draw(st.one_of(st.sampled_from([5000, 10000, 20000]), st.sampled_from([5000, 10000, 20000]), st.sampled_from([5000, 10000, 20000]),
                           st.sampled_from([1, 2, 100]), st.sampled_from([[5000, 5000], [[4000, 3]], [100, 10000]])))
    return {"kind": "shots", "ops": ops, "meas": meas, "wires": wires, "dev_wires": _dev_wires(draw, wires), "tableau": draw(st.booleans()),
            "check": draw(st.sampled_from([True, True, False])), "shots": shots, "seed": draw(st.integers(0, 2**31 - 1))}


@st.composite
def _nonclifford(draw):
    n = draw(st.integers(1, 4))
    wires = draw(gen.wire_labels(n))
    ops = draw(clifford_ops(wires, 8, prep=False))
    for _ in range(draw(st.integers(1, 3))):
        ops.insert(draw(st.integers(0, len(ops))), draw(st.one_of(gen.gate(wires), gen.gate(wires), gen.extra_gate(wires))))
    meas = draw(st.lists(st.one_of(_words(wires).map(lambda o: {"mp": "expval", "obs": o}),
                                   st.integers(1, n).flatmap(lambda k: gen.subset(wires, k)).map(lambda w: {"mp": "probs", "w": w}),
                                   st.just({"mp": "state"})), min_size=1, max_size=2))
    return {"kind": "nonclifford", "ops": ops, "meas": meas, "wires": wires, "dev_wires": _dev_wires(draw, wires),
            "tableau": draw(st.booleans()), "check": draw(st.booleans())}


def strategy(tier):
    return st.one_of(_analytic(), _analytic(), _analytic(), _analytic(), _analytic(), _shots(), _shots(), _shots(), _nonclifford(), _nonclifford())


def enumerate_cases(tier):
    # every gate of the table once on a generic stabilizer state, every wire order, all Pauli expectation values on 2 wires
    prep = [{"op": "Hadamard", "p": [], "w": [0]}, {"op": "S", "p": [], "w": [0]}, {"op": "Hadamard", "p": [], "w": [1]}, {"op": "CZ", "p": [], "w": [0, 1]},
            {"op": "SX", "p": [], "w": [1]}]
    meas = [{"mp": "expval", "obs": {"op": "prod", "operands": [{"op": a, "w": [0]}, {"op": b, "w": [1]}]}}
            for a in ("PauliX", "PauliY", "PauliZ") for b in ("PauliX", "PauliY", "PauliZ")]
    singles = [{"mp": "expval", "obs": {"op": a, "w": [w]}} for a in ("PauliX", "PauliY", "PauliZ") for w in (0, 1)]
    gates = [{"op": g, "p": [], "w": [0]} for g in N1] + [{"op": "adjoint", "base": {"op": g, "p": [], "w": [1]}} for g in ("S", "SX")]
    for g in N2:
        gates += [{"op": g, "p": [], "w": [0, 1]}, {"op": g, "p": [], "w": [1, 0]}]
    gates += [{"op": "adjoint", "base": {"op": "ISWAP", "p": [], "w": [1, 0]}}]
    # GHZ on three of four wires + one |1> + one |+i>: all entropic quantities and probabilities over subsets / wire orders
    import itertools
    ghz = [{"op": "Hadamard", "p": [], "w": [0]}, {"op": "CNOT", "p": [], "w": [0, 1]}, {"op": "CNOT", "p": [], "w": [1, 2]}, {"op": "PauliX", "p": [], "w": [3]},
           {"op": "Hadamard", "p": [], "w": [4]}, {"op": "S", "p": [], "w": [4]}]
    ent_meas = []
    for a in ([0], [1, 2], [0, 3], [4]):
        for b in ([1], [2], [3, 4], [0, 2]):
            if not set(a) & set(b):
                ent_meas.append({"mp": "mutual_info", "w0": a, "w1": b, "log_base": 2})
    for k in (1, 2, 3):
        for sub in itertools.combinations(range(5), k):
            ent_meas.append({"mp": "vn_entropy", "w": list(sub), "log_base": 2})
            ent_meas.append({"mp": "purity", "w": list(sub)})
    for chunk in range(0, len(ent_meas), 8):
        yield {"kind": "analytic", "ops": ghz, "meas": ent_meas[chunk:chunk + 8], "wires": [0, 1, 2, 3, 4], "dev_wires": None, "tableau": True, "check": True}
    for perm in itertools.permutations([0, 3, 4]):
        for tb in (True, False):
            yield {"kind": "analytic", "ops": ghz, "meas": [{"mp": "probs", "w": list(perm)}, {"mp": "probs", "w": [perm[0], 1, perm[1]]}], "wires": [0, 1, 2, 3, 4],
                   "dev_wires": [0, 1, 2, 3, 4], "tableau": tb, "check": True}
    # multi-term observables whose terms list their factors in different wire orders (the term-wise Pauli strings have to follow each
    # term's own order): all ordered letter pairs, sums / linear combinations, analytic and through var
    P2 = lambda a, wa, b, wb: {"op": "prod", "operands": [{"op": a, "w": [wa]}, {"op": b, "w": [wb]}]}  # noqa: E731
    letters = ("PauliX", "PauliY", "PauliZ")
    mixed = []
    for a in letters:
        for b in letters:
            if a == b:
                continue
            for c in letters:
                t1, t2 = P2(a, 0, b, 1), P2(b, 1, c, 0)       # second term in reversed wire order
                mixed.append({"mp": "expval", "obs": {"op": "sum", "operands": [t1, {"op": "s_prod", "c": 0.5, "base": t2}]}})
                mixed.append({"mp": "expval", "obs": {"op": "lincomb", "coeffs": [1.0, -2.0, 0.25], "operands": [t2, t1, {"op": c, "w": [1]}]}})
    for chunk in range(0, len(mixed), 9):
        for extra in ([], [{"op": "CNOT", "p": [], "w": [1, 0]}]):
            yield {"kind": "analytic", "ops": prep + extra, "meas": mixed[chunk:chunk + 9], "wires": [0, 1], "dev_wires": None, "tableau": True, "check": True}
    for g in gates:
        yield {"kind": "analytic", "ops": prep + [g], "meas": meas + singles + [{"mp": "state"}], "wires": [0, 1], "dev_wires": None, "tableau": True, "check": True}
        yield {"kind": "analytic", "ops": prep + [g], "meas": [{"mp": "state"}, {"mp": "density_matrix", "w": [1, 0]}, {"mp": "probs", "w": [1, 0]}],
               "wires": [0, 1], "dev_wires": [1, 0], "tableau": False, "check": False}


# ----------------------------------------------------------------------------------------------
# builders / reference helpers
# ----------------------------------------------------------------------------------------------

def build_op(s):
    import pennylane as qp

    if s["op"] == "StatePrepStab":
        k = s["k"]
        loc = list(range(k))
        vec = sim.run_ops([specs.build_op(o) for o in s["circ"]], loc)
        return qp.StatePrep(vec, wires=[specs.wire(w) for w in s["w"]])
    if s["op"] in ("BitFlip", "PhaseFlip", "DepolarizingChannel", "PauliError"):
        from pv.props.c28_channels_mixed import build_op as b28
        return b28(s)
    return specs.build_op(s)


def _leaf(o):
    return _leaf(o["base"]) if "base" in o else o["op"]


PAULI = {(0, 0): np.eye(2, dtype=complex), (1, 0): kr.X, (1, 1): kr.Y, (0, 1): kr.Z}


def apply_pauli_row(psi, x, z, r, n):
    """(-1)^r * prod_j P_j |psi>, P_j from (x_j, z_j) with (1,1) = Y, acting on the first len(x) axes."""
    t = np.asarray(psi, dtype=complex).reshape((2,) * n)
    for j, (a, b) in enumerate(zip(x, z)):
        if a or b:
            t = sim.apply(t, PAULI[(int(a), int(b))], [j])
    return ((-1) ** int(r)) * t.reshape(-1)


def gf2_rank(M):
    M = (np.array(M, dtype=np.int64) % 2).copy()
    rank = 0
    rows, cols = M.shape
    for c in range(cols):
        piv = None
        for r in range(rank, rows):
            if M[r, c]:
                piv = r
                break
        if piv is None:
            continue
        M[[rank, piv]] = M[[piv, rank]]
        for r in range(rows):
            if r != rank and M[r, c]:
                M[r] ^= M[rank]
        rank += 1
    return rank


def check_tableau(T, psi, n, feats, what):
    T = np.asarray(T)
    if T.ndim != 2 or T.shape[1] % 2 != 1 or T.shape[0] != T.shape[1] - 1:
        raise Viol("tableau-shape", f"{what}: tableau shape {T.shape}", sig="tableau-shape", features=feats)
    N = T.shape[0] // 2
    # one destabilizer and one stabilizer row per wire (documented (2n, 2n+1) layout). A circuit without any wire has the empty
    # tableau of shape (0, 1): the oracle used to report it as malformed (N == 0), although it is the documented layout for n = 0.
    if N != n or not np.isin(T, [0, 1]).all():
        raise Viol("tableau-shape", f"{what}: tableau shape {T.shape} / non-binary entries for {n} wires", sig="tableau-shape", features=feats)
    X, Z, R = T[:, :N], T[:, N:2 * N], T[:, 2 * N]
    for i in range(N, 2 * N):
        out = apply_pauli_row(psi, X[i], Z[i], R[i], n)
        if not np.allclose(out, psi, atol=1e-9):
            raise Viol("tableau-stabilizer", f"{what}: row {i} (x={X[i].tolist()} z={Z[i].tolist()} r={int(R[i])}) does not stabilise the reference state "
                                             f"(overlap {np.vdot(psi, out):.3f})", sig="tableau-stabilizer", features=feats)
    if gf2_rank(np.hstack([X[N:], Z[N:]])) != N:
        raise Viol("tableau-independent", f"{what}: stabilizer rows are dependent {T[N:].tolist()}", sig="tableau-independent", features=feats)
    # symplectic structure (Aaronson-Gottesman): row a, b anticommute iff {a, b} = {D_i, S_i}
    sp = (X @ Z.T + Z @ X.T) % 2
    want = np.zeros((2 * N, 2 * N), dtype=int)
    for i in range(N):
        want[i, N + i] = want[N + i, i] = 1
    if not np.array_equal(sp, want):
        raise Viol("tableau-symplectic", f"{what}: destabilizer/stabilizer rows are not a symplectic basis: {T.tolist()}", sig="tableau-symplectic", features=feats)


def pauli_1norm(O):
    """sum of |c_P| over non-identity Pauli words of a 2^k x 2^k matrix."""
    import itertools
    O = np.asarray(O)
    k = int(np.log2(O.shape[0]))
    tot = 0.0
    mats = [np.eye(2), kr.X, kr.Y, kr.Z]
    for idx in itertools.product(range(4), repeat=k):
        if not any(idx):
            continue
        P = np.eye(1)
        for i in idx:
            P = np.kron(P, mats[i])
        tot += abs(np.trace(P @ O)) / 2**k
    return float(tot)


REJECT_MSG = ("not supported", "doesn't support", "does not support", "Reached recursion limit", "not yet supported")


def _execute(spec, tape, dev):
    """Returns ('ok', result) | ('rejected', reason) for the documented rejection errors."""
    import pennylane as qp

    try:
        return "ok", qp.execute([tape], dev)[0]
    except qp.exceptions.DeviceError as e:
        return "rejected", "DeviceError"
    except NotImplementedError as e:
        if any(m in str(e) for m in REJECT_MSG):
            return "rejected", "NotImplementedError"
        raise
    except qp.exceptions.QuantumFunctionError as e:
        if "not supported for rotating probabilities" in str(e):
            return "rejected", "QuantumFunctionError:rotating"
        raise


def _device(spec, dev_wires, seed=None):
    import pennylane as qp

    kw = {"tableau": spec["tableau"], "check_clifford": spec["check"]}
    if dev_wires:
        kw["wires"] = dev_wires
    if seed is not None:
        kw["seed"] = seed
    return qp.device("default.clifford", **kw)


def _order(spec, tape, dev, dev_wires):
    if dev_wires:
        return list(dev_wires)
    if spec["kind"] == "nonclifford" and spec["check"]:
        try:
            (pt,), _ = dev.preprocess()[0]([tape])
        except Exception:  # noqa: BLE001  rejected anyway, order irrelevant
            return _standard_order(tape)
        if set(pt.wires) != set(tape.wires):
            raise Reject("device without wires: decomposition dropped a wire")
        return _standard_order(pt)
    return _standard_order(tape)


# ----------------------------------------------------------------------------------------------
# checks
# ----------------------------------------------------------------------------------------------

def _compare_analytic(spec, tape, res, order, feats):
    n = len(order)
    psi = sim.run_ops(tape.operations, order)
    res = to_np(res)
    if len(tape.measurements) == 1:
        res = (res,)
    for j, mp in enumerate(tape.measurements):
        m = spec["meas"][j]
        got = np.asarray(res[j])
        name = type(mp).__name__
        what = f"{m} tableau={spec['tableau']} check={spec['check']} dev_wires={spec.get('dev_wires')} ops={spec['ops']}"
        f2 = {**feats, "mp": m["mp"]}
        pre = "idle-tail:" if feats.get("idle_tail") else ("stateprep:" if feats.get("stateprep") else "")
        if name == "ProbabilityMP" and (not spec["tableau"] or not len(mp.wires)) and _unsorted_int(tape):
            pre = "probs-unsorted:"
            f2["probs_unsorted"] = True
        if feats.get("projector_no_tableau") and m["mp"] == "expval" and m["obs"]["op"] == "Projector":
            pre = "projector-no-tableau:"
        if name == "StateMP":
            if spec["tableau"]:
                try:
                    check_tableau(got, psi, n, f2, what)
                except Viol as v:
                    if spec.get("dev_wires") and v.clause != "tableau-shape":
                        alt_order = _standard_order(tape) + [w for w in order if w not in tape.wires]
                        try:
                            check_tableau(got, sim.run_ops(tape.operations, alt_order), n, f2, what)
                        except Viol:
                            raise v from None
                        raise Viol("result-value", f"{what}: tableau is in the tape's wire order {alt_order}, not in the device wire order",
                                   sig="device-wire-order-ignored", features={**f2, "device_order_ignored": True}) from None
                    raise
                continue
            ref = psi
            if got.shape != ref.shape:
                raise Viol("result-shape", f"{what}: shape {got.shape} expected {ref.shape}", sig="StateMP:shape", features=f2)
            if not sim.allclose_phase(got, ref, 1e-6):
                alt = sim.run_ops(tape.operations, _standard_order(tape))
                if spec.get("dev_wires") and got.shape == alt.shape and sim.allclose_phase(got, alt, 1e-6):
                    raise Viol("result-value", f"{what}: state is returned in the tape's wire order {_standard_order(tape)}, not in the device wire order",
                               sig="device-wire-order-ignored", features={**f2, "device_order_ignored": True})
                raise Viol("result-value", f"{what}: state differs from the reference (up to global phase) by {maxdiff(got, ref)}", sig=pre + "StateMP:value", features=f2)
            continue
        exp = np.asarray(sim.measure(psi, mp, order))
        tol = 1e-6 if name == "DensityMatrixMP" or (name == "ProbabilityMP" and not spec["tableau"]) else 1e-9
        if name == "VarianceMP":
            # var(Q) is evaluated as <Q^2> - <Q>^2 on the simplified operators, and simplify() documents that Pauli words with
            # |coefficient| <= 1e-8 are dropped (PauliSentence.simplify(tol=1e-8)): var(1e-4 * Z) on |0> is -1e-8 because the term
            # 1e-8 * I of Q^2 is pruned. With T terms of |c| <= 1: at most T^2 words of Q^2 (error <= 1e-8 each) and T words of Q
            # (error of <Q>^2 <= 2 T * 1e-8 each) can be affected. The old flat 1e-9 demanded more than the documented cutoff allows.
            tol += 3e-8 * _n_terms(m["obs"]) ** 2
        if got.shape != exp.shape:
            raise Viol("result-shape", f"{what}: shape {got.shape} expected {exp.shape}", sig=pre + name + ":shape", features=f2)
        if not close(got, exp, tol):
            if spec.get("dev_wires") and not len(mp.wires):
                alt = np.asarray(sim.measure(sim.run_ops(tape.operations, _standard_order(tape)), mp, _standard_order(tape)))
                if alt.shape == got.shape and close(got, alt, tol):
                    raise Viol("result-value", f"{what}: result is in the tape's wire order {_standard_order(tape)}, not in the device wire order",
                               sig="device-wire-order-ignored", features={**f2, "device_order_ignored": True})
            raise Viol("result-value", f"{what}: got {np.round(got, 6).tolist() if got.size <= 16 else '...'} expected "
                                       f"{np.round(exp, 6).tolist() if exp.size <= 16 else '...'} diff={maxdiff(got, exp)}",
                       sig=pre.replace("idle-tail:", "") + name + ":value", features=f2)


def _n_terms(o):
    """Number of Pauli words of an expval / var observable spec (sum / lincomb operands, scalar products, single words)."""
    if o["op"] in ("sum", "lincomb"):
        return sum(_n_terms(t) for t in o["operands"])
    if o["op"] == "s_prod":
        return _n_terms(o["base"])
    return 1


def _idle_tail(spec, order, dev_wires):
    """Some wire (of the device, or of the tape for a device without wires) carries no gate that is sent to stim (only
    Barrier / GlobalPhase / zero bits of BasisState / measurements). Such wires are mapped behind the gate wires, and a stim
    simulator built from the circuit alone then has fewer qubits than there are wires."""
    touched = set()
    for o in spec["ops"]:
        nm = _leaf(o)
        if nm in ("GlobalPhase", "Barrier"):
            continue
        ws = (o["base"]["w"] if "base" in o else o["w"])
        if nm == "BasisState":
            ws = [w for w, b in zip(ws, o["p"][0]) if b]
        touched |= {specs.wire(w) for w in ws}
    return bool(set(order) - touched)


def _stateprep_unsorted(spec, tape):
    """Leading StatePrep on a tape whose wires are exactly the integers 0..n-1 (so that no re-labelling happens) and whose
    operator wires are first used in a non-ascending order."""
    if not spec["ops"] or spec["ops"][0]["op"] != "StatePrepStab":
        return False
    tw = list(tape.wires)
    if not all(isinstance(w, int) for w in tw) or set(tw) != set(range(len(tw))):
        return False
    first = []
    for op in tape.operations:
        for w in op.wires:
            if w not in first:
                first.append(w)
    return first != sorted(first)


def _unsorted_int(tape):
    """Tape wires are exactly the integers 0..n-1 (no re-labelling by map_to_standard_wires) but not in ascending order."""
    tw = list(tape.wires)
    return all(isinstance(w, int) for w in tw) and set(tw) == set(range(len(tw))) and tw != sorted(tw)


def _labels(spec):
    labs = [spec["kind"], "tableau:" + str(spec["tableau"]), "check:" + str(spec["check"]), "devw:" + ("given" if spec.get("dev_wires") else "none"),
            "wires:" + str(len(spec["wires"]))]
    labs += ["mp:" + m["mp"] + (":" + m["obs"]["op"] if m.get("obs") and m["mp"] in ("expval", "var") else "") for m in spec["meas"]]
    labs += sorted({"gate:" + _leaf(o) for o in spec["ops"] if _leaf(o) in ("StatePrepStab", "BasisState", "GlobalPhase", "PauliError", "BitFlip", "PhaseFlip", "DepolarizingChannel")})
    return labs


def _nonz(m):
    txt = json.dumps(m)
    return "PauliX" in txt or "PauliY" in txt or "Hermitian" in txt or m["mp"] in ("state", "density_matrix", "vn_entropy", "mutual_info", "purity")


def check(spec):
    import pennylane as qp

    ops = [build_op(o) for o in spec["ops"]]
    mps = [specs.build_meas(m) for m in spec["meas"]]
    dev_wires = [specs.wire(w) for w in spec["dev_wires"]] if spec.get("dev_wires") else None
    for m in mps:
        if type(m).__name__ == "MutualInfoMP" and (set(m.raw_wires[0]) & set(m.raw_wires[1]) or not len(m.raw_wires[1])):
            raise Reject("mutual_info overlapping/empty")
    feats = {"kind": spec["kind"], "tableau": spec["tableau"], "check": spec["check"]}
    nt = any(_leaf(o) in ENT for o in spec["ops"]) and any(_nonz(m) for m in spec["meas"])
    if spec["kind"] in ("analytic", "nonclifford"):
        tape = qp.tape.QuantumScript(ops, mps)
        dev = _device(spec, dev_wires)
        foreign = sorted({_leaf(o) for o in spec["ops"]} - NATIVE - {"S", "SX", "ISWAP"})
        idle = _idle_tail(spec, list(dev_wires) if dev_wires else _standard_order(tape), dev_wires) if not foreign else False
        feats = {**feats, "foreign": foreign, "idle_tail": idle, "stateprep": _stateprep_unsorted(spec, tape),
                 "projector_no_tableau": (not spec["tableau"]) and any(m["mp"] == "expval" and m["obs"]["op"] == "Projector" for m in spec["meas"])}
        try:
            status, res = _execute(spec, tape, dev)
        except Exception as e:  # noqa: BLE001  Clifford circuit + supported measurement: every other exception is a finding
            if foreign:
                raise
            raise Viol("unexpected-exception", f"{type(e).__name__}: {str(e)[:200]} meas={spec['meas']} tableau={spec['tableau']} dev_wires={spec.get('dev_wires')} ops={spec['ops']}",
                       sig=("idle-tail:" if idle else "") + type(e).__name__, features={**feats, "exc": type(e).__name__}) from e
        if status == "rejected":
            if spec["kind"] == "analytic":
                raise Reject(f"measurement rejected: {res}")
            return Result(bool(foreign), labels=_labels(spec) + ["nonclifford:rejected:" + res])
        order = _order(spec, tape, dev, dev_wires)
        _compare_analytic(spec, tape, res, order, feats)
        labs = _labels(spec) + (["nonclifford:accepted:" + ",".join(foreign)] if spec["kind"] == "nonclifford" else [])
        return Result(nt if spec["kind"] == "analytic" else bool(foreign), labels=labs)
    return _check_shots(spec, ops, mps, dev_wires, feats, nt)


class _Ctx:
    def __init__(self, spec, mps):
        self.spec = spec
        self.mps = mps


def _normalise(m, mp, r, nshots, k):
    """default.clifford squeezes sample results; bring them back to the documented (shots, wires) / (shots,) layout."""
    if m["mp"] != "sample" or isinstance(r, dict):
        return r, False
    a = np.asarray(r)
    want = (nshots,) if m.get("obs") else (nshots, k)
    if a.shape != want and a.size == int(np.prod(want)):
        return a.reshape(want), True
    return a, False


def _check_shots(spec, ops, mps, dev_wires, feats, nt):
    import pennylane as qp

    bins = c29.expand_shots(spec["shots"])
    total = sum(bins)
    tape0 = qp.tape.QuantumScript(ops, mps, shots=c29._raw_shots(spec["shots"]))
    order = list(dev_wires) if dev_wires else _standard_order(tape0)
    noisy = any(o["op"] in ("BitFlip", "PhaseFlip", "DepolarizingChannel", "PauliError") for o in spec["ops"])
    if noisy:
        rho = kr.run_ops(ops, order)
    else:
        psi = sim.run_ops(ops, order)
        rho = np.outer(psi, psi.conj())
    ctx = _Ctx(spec, mps)
    models = c29.build_models(ctx, order, rho)
    for m, mp, md in zip(spec["meas"], mps, models):
        if m["mp"] == "expval" and m["obs"]["op"] == "Hermitian":
            md["additive"] = True
            md["B"] = pauli_1norm(sim.op_matrix(mp.obs))
    idle = _idle_tail(spec, order, dev_wires)
    sprep = _stateprep_unsorted(spec, tape0)
    f29 = {**feats, "dev": "default.clifford", "noisy": noisy, "idle_tail": idle, "stateprep": sprep}
    squeezed = []

    def run_and_collect(shots_raw, bin_list, seed):
        tape = qp.tape.QuantumScript(ops, mps, shots=shots_raw)
        try:
            status, res = _execute(spec, tape, _device(spec, dev_wires, seed))
        except Exception as e:  # noqa: BLE001
            raise Viol("unexpected-exception", f"{type(e).__name__}: {str(e)[:200]} meas={spec['meas']} shots={shots_raw} dev_wires={spec.get('dev_wires')} ops={spec['ops']}",
                       sig=("idle-tail:" if idle else "") + type(e).__name__ + ":shots", features={**f29, "exc": type(e).__name__}) from e
        if status == "rejected":
            raise Reject(f"shots measurement rejected: {res}")
        if len(bin_list) > 1:
            if not isinstance(res, (tuple, list)) or len(res) != len(bin_list) or \
                    (len(mps) > 1 and not all(isinstance(r, (tuple, list)) and len(r) == len(mps) for r in res)):
                raise Viol("shot-bins", f"shots={spec['shots']} with {len(mps)} measurements: result is not one entry per bin: {str(res)[:300]}",
                           sig="shot-vector", features={**f29, "shot_vector": True})
            per_bin = list(res)
        else:
            per_bin = [res]
        stats = [[] for _ in mps]
        for r, nb in zip(per_bin, bin_list):
            rs = list(r) if len(mps) > 1 else [r]
            if len(rs) != len(mps):
                raise Viol("result-structure", f"{len(rs)} results for {len(mps)} measurements", sig="structure", features=f29)
            for j, (m, mp) in enumerate(zip(spec["meas"], mps)):
                rj = rs[j] if isinstance(rs[j], dict) else to_np(rs[j])
                rj, sq = _normalise(m, mp, rj, nb, models[j].get("k"))
                if sq:
                    squeezed.append(j)
                try:
                    kind, val = c29.evaluate(m, mp, rj, nb, models[j], f29)
                except Viol as v:
                    if idle and m.get("w", 0) is None and not m.get("obs"):
                        raise Viol(v.clause, v.detail, sig="idle-tail:" + v.sig, features=v.features) from None
                    raise
                stats[j].append((kind, val, nb))
        return stats

    stats = run_and_collect(c29._raw_shots(spec["shots"]), bins, spec["seed"])
    flagged = []
    for j, m in enumerate(spec["meas"]):
        p, info = c29.stat_p(m, models[j], stats[j])
        if p < ALPHA:
            flagged.append((j, p, info))
    labels = _labels(spec) + ["noisy" if noisy else "noiseless", "bins:" + ("1" if len(bins) == 1 else "2+")] + (["squeezed-sample"] if squeezed else [])
    if flagged:
        seed2 = int(hashlib.sha1(json.dumps(spec, sort_keys=True, default=str).encode()).hexdigest()[:8], 16) & 0x7FFFFFFF
        stats2 = run_and_collect(4 * total, [4 * total], seed2)
        for j, p, info in flagged:
            p2, info2 = c29.stat_p(spec["meas"][j], models[j], stats2[j])
            if p2 < ALPHA:
                m = spec["meas"][j]
                pre = "stateprep:" if sprep else ""
                if dev_wires and not m.get("obs") and m.get("w", 0) is None:
                    alt_order = _standard_order(tape0)
                    alt = np.clip(kr.probs(kr.run_ops(ops, alt_order) if noisy else np.outer(*(lambda v: (v, v.conj()))(sim.run_ops(ops, alt_order))), alt_order, alt_order), 0, 1)
                    if len(alt) == len(models[j]["probs"]) and c29.stat_p(m, {**models[j], "probs": alt}, stats2[j])[0] >= ALPHA:
                        raise Viol("born-rule", f"{m}: outcomes are in the tape's wire order {alt_order}, not in the device wire order {dev_wires}; ops={spec['ops']}",
                                   sig="device-wire-order-ignored", features={**f29, "mp": m["mp"], "device_order_ignored": True})
                raise Viol("born-rule", f"{m} (shots={spec['shots']}, noisy={noisy}): stage 1 p={p:.2e} [{info}]; stage 2 (4x) p={p2:.2e} [{info2}]; "
                                        f"exact probs={np.round(models[j]['probs'], 5).tolist() if models[j].get('probs') is not None else None} ops={spec['ops']} "
                                        f"dev_wires={spec.get('dev_wires')}", sig=pre + m["mp"] + (":obs" if m.get("obs") else ":w") + (":noisy" if noisy else ""),
                           features={**f29, "mp": m["mp"]})
        labels.append("stage1-flag-not-repeated")
    return Result(nt and total >= 5000, labels=labels)


def selftest():
    sim.selftest()
    stt.selftest()
    # Bell state: stabilizers XX, ZZ; tableau rows [D1, D2, S1, S2] with D1 = Z0 (anticommutes with XX only), D2 = X1 (anticommutes with ZZ only)
    psi = np.array([1, 0, 0, 1], dtype=complex) / np.sqrt(2)
    T = np.array([[0, 0, 1, 0, 0], [0, 1, 0, 0, 0], [1, 1, 0, 0, 0], [0, 0, 1, 1, 0]])
    check_tableau(T, psi, 2, {}, "selftest")
    bad = T.copy()
    bad[2, 4] = 1
    try:
        check_tableau(bad, psi, 2, {}, "selftest")
    except Viol:
        pass
    else:
        raise AssertionError("sign flip not detected")
    assert gf2_rank([[1, 1, 0], [0, 1, 1], [1, 0, 1]]) == 2
    assert abs(pauli_1norm(np.array([[1, 1j], [-1j, -0.5]])) - (1.0 + 0.75)) < 1e-12  # 0.25 I + 0.75 Z - Y
