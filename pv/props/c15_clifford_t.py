"""C15 — Clifford+T approximations (Ross-Selinger, Solovay-Kitaev, clifford_t_decomposition) meet their precision bound."""
import math

import numpy as np
from hypothesis import strategies as st

from pv import gen, specs
from pv.engine import Result, Viol
from pv.ref import gates as G
from pv.ref import sim

ID = "C15"
TECHNIQUE = "angle / precision sweep (lattice, near-lattice, generic angles; log-uniform eps) with an exact operator-norm distance on an independent gate table"
RULE = (
    "rs_decomposition on RZ / PhaseShift(theta): theta generic in (-2pi,2pi) with eps log-uniform in [1e-7,1e-1] (strict) and in "
    "[1e-8,1e-7) (reported separately), theta = k.pi/8 lattice points, k.pi/4 +- delta, +-2pi -+ delta, tiny, |theta| up to 4pi with "
    "eps in [1e-4,1e-1]; sk_decomposition on random single-qubit gates (RX/RY/RZ/PhaseShift/Rot/U3/Haar QubitUnitary/H/T/SX) with "
    "eps in [3e-2,1e-1] and basis sets (H,S,T), (T,H,S), (H,T,T+) [bound asserted] and (H,T) [gate set only]; "
    "clifford_t_decomposition on circuits of <= 3 wires, <= 7 gates (<= 6 rotations; Cliffords, T, CNOT/CZ/CY/SWAP/ISWAP, CRZ/CRX/"
    "IsingZZ/ControlledPhaseShift) with eps in [1e-5,1e-2] (gridsynth) or per-rotation budget >= 3e-2 (sk). Oracle: every output gate "
    "is in {I,X,Y,Z,H,S,SX,T and adjoints, CNOT,CY,CZ,SWAP,ISWAP, GlobalPhase} on the right wires, a GlobalPhase is last (rs/sk); "
    "d = min_phi ||U - e^{i phi} V||_2 (closed form from the eigenphases of U^dag V) <= sqrt(eps^2 + 1e-15).(1+1e-6)+1e-12 where U comes from "
    "the closed-form gate table and V is the product of the returned gates - per gate for rs/sk, for the whole circuit for the transform; "
    "and with the returned GlobalPhase included ||U - V||_2 obeys the same bound (docstring examples compare the matrices directly); "
    "transform: measurements unchanged. Non-trivial: the target is not itself a Clifford+T gate (theta not a multiple of pi/4). "
    "NOT COVERED: qp.gridsynth is a Catalyst-only compiler pass (no tape implementation, Catalyst not installed) and cannot be executed here."
)
ASSUMPTIONS = [
    "qp.gridsynth / rs_decomposition(is_qjit=True) need Catalyst, which is not installed: that clause of the statement is not executed.",
    "sk_decomposition documents that the error may be >= eps when max_depth / the approximate set is insufficient: the bound is asserted "
    "only where the default budget was measured to suffice with margin (eps >= 3e-2, basis sets containing H, T and S or T-adjoint); "
    "for basis (H,T) only the gate-set clause is asserted.",
    "rs_decomposition: the float64 evaluation of u.z >= 1 - eps^2/2 can admit candidates up to sqrt(eps^2 + ~1e-15); this slack is part of the bound.",
    "Angles within ~1e-5 of a multiple of pi/4 are only combined with eps >= 1e-4: single rs_decomposition calls on such inputs with "
    "eps <= 1e-6 take 20-130 s (theta=pi/4+1e-9, eps=3e-7: 130 s; theta=1e-6, eps=1e-7: 19 s), which is a cost, not a correctness, issue.",
    "Transform circuits avoid angles within 1e-6 of a multiple of pi: the transform drops such rotations (atol 1e-6) outside its epsilon accounting.",
    "clifford_t_decomposition keeps a module-level cache of decompositions (documented: reused when at least as precise), so its output, "
    "not its verdict, may depend on earlier cases of the same process.",
]
BUDGET = {"quick": {"examples": 270}, "thorough": {"examples": 24000, "shards": 16}}
SHRINK_LISTS = ("ops",)

PI = math.pi
CT1 = {"Identity": np.eye(2, dtype=complex), "PauliX": G.X, "PauliY": G.Y, "PauliZ": G.Z, "Hadamard": G.H, "S": G.S, "SX": G.SX, "T": G.T}
CT1.update({f"Adjoint({k})": v.conj().T for k, v in list(CT1.items())})
CT2 = {"CNOT", "CY", "CZ", "SWAP", "ISWAP", "Adjoint(ISWAP)"}
SK_BASES = [["H", "S", "T"], ["T", "H", "S"], ["H", "T", "Adjoint(T)"], ["H", "T"]]
SK_ASSERTED = {("H", "S", "T"), ("T", "H", "S"), ("H", "T", "Adjoint(T)")}
CLIFF_POOL = {"PauliX": (0, 1), "PauliY": (0, 1), "PauliZ": (0, 1), "Hadamard": (0, 1), "S": (0, 1), "T": (0, 1), "SX": (0, 1),
              "CNOT": (0, 2), "CZ": (0, 2), "CY": (0, 2), "SWAP": (0, 2), "ISWAP": (0, 2)}
ROT1 = {"RX": (1, 1), "RY": (1, 1), "RZ": (1, 1), "PhaseShift": (1, 1)}
ROT3 = {"Rot": (3, 1), "U3": (3, 1)}
ROT2Q = {"CRZ": (1, 2), "CRX": (1, 2), "IsingZZ": (1, 2), "ControlledPhaseShift": (1, 2)}


def allowed(eps):
    return math.sqrt(eps * eps + 1e-15) * (1 + 1e-6) + 1e-12


def dist_up_to_phase(U, V):
    """min_phi ||U - e^{i phi} V||_2 = 2 sin(L/4), L = length of the shortest arc containing all eigenphases of U^dag V."""
    ev = np.linalg.eigvals(U.conj().T @ V)
    ph = np.sort(np.angle(ev))
    gaps = np.diff(np.concatenate([ph, [ph[0] + 2 * np.pi]]))
    L = 2 * np.pi - float(gaps.max())
    return 2 * math.sin(L / 4)


def opnorm(A):
    return float(np.linalg.norm(A, 2))


def product_1q(ops):
    V = np.eye(2, dtype=complex)
    for o in ops:
        if o.name == "GlobalPhase":
            V = V * np.exp(-1j * float(np.asarray(o.data[0])))
        else:
            V = CT1[o.name] @ V
    return V


# ---------------------------------------------------------------------------------------------
# generator
# ---------------------------------------------------------------------------------------------

def _log_uniform(lo, hi):
    return st.integers(0, 2000).map(lambda i: float(f"{lo * (hi / lo) ** (i / 2000):.3e}"))


# generic angles: k/1000 + irrational-looking offset, never within ~1e-5 of a multiple of pi/8 by accident of rounding to 0
GENERIC = st.integers(-6283, 6283).map(lambda k: k / 1000 + 0.000377)
DELTAS = [1e-12, 1e-9, 1e-6, 1e-3, -1e-9, -1e-4]


@st.composite
def _rs(draw):
    fam = draw(st.sampled_from(["generic"] * 7 + ["below", "below", "lattice", "near-lattice", "near-2pi", "tiny", "wide"]))
    if fam == "generic":
        theta, eps = draw(GENERIC), draw(_log_uniform(1e-7, 1e-1))
    elif fam == "below":
        theta, eps = draw(GENERIC), draw(_log_uniform(1e-8, 0.999e-7))
    else:
        eps = draw(_log_uniform(1e-4, 1e-1))
        if fam == "lattice":
            theta = draw(st.integers(-32, 32)) * PI / 8
        elif fam == "near-lattice":
            theta = draw(st.integers(-16, 16)) * PI / 4 + draw(st.sampled_from(DELTAS))
        elif fam == "near-2pi":
            s = draw(st.sampled_from([1, -1]))
            theta = s * (draw(st.sampled_from([2 * PI, 4 * PI])) - abs(draw(st.sampled_from(DELTAS))))
        elif fam == "tiny":
            theta = draw(st.sampled_from([1, -1])) * abs(draw(st.sampled_from(DELTAS)))
        else:
            theta = draw(st.integers(-12566, 12566)) / 1000 + 0.000377
    return {"fn": "rs", "fam": fam, "gate": draw(st.sampled_from(["RZ", "PhaseShift"])), "theta": theta, "eps": eps,
            "wire": draw(st.sampled_from([0, 1, "a", 5]))}


@st.composite
def _sk_op(draw, w):
    kind = draw(st.sampled_from(["RX", "RY", "RZ", "PhaseShift", "Rot", "U3", "QubitUnitary", "Hadamard", "T", "SX"]))
    if kind in ROT1:
        return {"op": kind, "p": [draw(gen.angles())], "w": [w]}
    if kind in ROT3:
        return {"op": kind, "p": [draw(gen.angles()) for _ in range(3)], "w": [w]}
    if kind == "QubitUnitary":
        return {"op": kind, "p": [{"U": draw(gen.float_list(6)), "n": 1}], "w": [w]}
    return {"op": kind, "p": [], "w": [w]}


@st.composite
def _sk(draw):
    w = draw(st.sampled_from([0, 2, "q"]))
    return {"fn": "sk", "op": draw(_sk_op(w)), "eps": draw(_log_uniform(3e-2, 1e-1)), "basis": draw(st.sampled_from(SK_BASES))}


T_ANGLES = st.one_of(gen.generic_angles(), gen.generic_angles(), st.integers(-8, 8).map(lambda k: k * PI / 4),
                     st.integers(-7, 7).map(lambda k: (2 * k + 1) * PI / 8), st.sampled_from([2 * PI - 0.01, -2 * PI + 0.003, 3.5, 6.1]))


@st.composite
def _ct(draw):
    method = draw(st.sampled_from(["gridsynth", "gridsynth", "gridsynth", "sk"]))
    n = draw(st.integers(1, 3))
    wires = draw(gen.wire_labels(n))
    ops, nrot = [], 0
    max_rot = 3 if method == "sk" else 6
    rot_pool = dict(ROT1) if method == "sk" else {**ROT1, **ROT3, **ROT2Q}
    for _ in range(draw(st.integers(1, 7))):
        if nrot < max_rot and draw(st.booleans()):
            g = draw(gen.gate(wires, rot_pool, T_ANGLES))
            nrot += 1
        else:
            g = draw(gen.gate(wires, CLIFF_POOL))
        ops.append(g)
    if method == "sk":
        eps = draw(_log_uniform(3e-2, 1e-1)) * max(1, nrot)
    else:
        eps = draw(_log_uniform(1e-5, 1e-2))
    meas = draw(st.lists(gen.analytic_measurement(wires, with_state=False), min_size=0, max_size=2))
    return {"fn": "ct", "method": method, "ops": ops, "wires": wires, "eps": eps, "meas": meas}


def strategy(tier):
    return st.sampled_from(["rs"] * 13 + ["sk"] * 2 + ["ct"] * 5).flatmap(lambda k: {"rs": _rs, "sk": _sk, "ct": _ct}[k]())


def enumerate_cases(tier):
    """All 33 lattice angles k.pi/8 in [-2pi, 2pi] for both gate types at one precision (exactly representable or T-count-1 targets)."""
    for k in range(-16, 17):
        for gate in ("RZ", "PhaseShift"):
            yield {"fn": "rs", "fam": "lattice", "gate": gate, "theta": k * PI / 8, "eps": 1e-3, "wire": 0}


# ---------------------------------------------------------------------------------------------
# oracle
# ---------------------------------------------------------------------------------------------

def _gate_set(ops, wires, feats, sig, single):
    for o in ops:
        nm = o.name
        ok = nm == "GlobalPhase" or nm in CT1 or (not single and nm in CT2)
        if not ok:
            raise Viol("gate-set", f"{sig}: {o} is not a Clifford+T gate", sig=sig, features=feats)
        if not set(o.wires) <= set(wires):
            raise Viol("foreign-wire", f"{sig}: {o} outside {wires}", sig=sig, features=feats)


def _bounds(U, V, eps, feats, sig, what):
    d = dist_up_to_phase(U, V)
    lim = allowed(eps)
    if not d <= lim:
        gross = d > 10 * eps
        raise Viol("precision", f"{what}: min_phi||U-e^(i phi)V|| = {d:.3e} > eps = {eps:.3e} (ratio {d / eps:.3g})",
                   sig=sig + (":gross" if gross else ":marginal"), features={**feats, "gross": gross})
    e = opnorm(U - V)
    if not e <= lim:
        raise Viol("precision-with-returned-phase", f"{what}: ||U-V|| = {e:.3e} > eps = {eps:.3e} although up to phase d = {d:.3e}",
                   sig=sig, features=feats)
    return d


def _is_lattice(theta):
    r = theta / (PI / 4)
    return abs(r - round(r)) < 1e-9


def check_rs(spec):
    import pennylane as qp

    theta, eps, w = spec["theta"], spec["eps"], specs.wire(spec["wire"])
    op = getattr(qp, spec["gate"])(theta, wires=w)
    feats = {"fn": "rs", "gate": spec["gate"], "eps_below_1e-7": eps < 1e-7, "eps_below_3e-7": eps < 3e-7, "fam": spec["fam"]}
    sig = "rs:eps<1e-7" if eps < 1e-7 else "rs"
    try:
        ops = list(qp.ops.rs_decomposition(op, eps))
    except (ZeroDivisionError, ValueError, OverflowError) as e:
        from pv.engine import _origin

        origin, where = _origin(e.__traceback__)
        if origin != "sut":
            raise
        # arithmetic breakdown inside the grid-problem solver: carries the input class (eps regime) so that it can be told apart
        raise Viol("unexpected-exception", f"{type(e).__name__}: {e} in rs_decomposition({op}, {eps})", sig=f"{type(e).__name__}@{where}",
                   features={**feats, "exc": type(e).__name__, "where": where}) from None
    if not ops or ops[-1].name != "GlobalPhase" or any(o.name == "GlobalPhase" for o in ops[:-1]):
        raise Viol("phase-last", f"rs: {[o.name for o in ops][-3:]}", sig=sig, features=feats)
    _gate_set(ops, [w], feats, sig, single=True)
    U = G.RZ(theta) if spec["gate"] == "RZ" else G.PhaseShift(theta)
    V = product_1q(ops)
    d = _bounds(U, V, eps, feats, sig, f"rs_decomposition({spec['gate']}({theta!r}), {eps!r})")
    decade = f"1e{math.floor(math.log10(eps))}"
    labels = ["rs", f"rs:{spec['fam']}", f"rs:eps~{decade}", f"rs:{spec['gate']}", "rs:used>0.5eps" if d > 0.5 * eps else "rs:used<=0.5eps"]
    return Result(not _is_lattice(theta), labels)


def check_sk(spec):
    import pennylane as qp

    eps, basis = spec["eps"], tuple(spec["basis"])
    op = specs.build_op(spec["op"])
    w = op.wires[0]
    ops = list(qp.ops.sk_decomposition(op, eps, basis_set=basis))
    feats = {"fn": "sk", "basis": "+".join(basis), "op": spec["op"]["op"]}
    sig = "sk:" + "+".join(basis)
    if not ops or ops[-1].name != "GlobalPhase" or any(o.name == "GlobalPhase" for o in ops[:-1]):
        raise Viol("phase-last", f"sk: {[o.name for o in ops][-3:]}", sig=sig, features=feats)
    _gate_set(ops, [w], feats, sig, single=True)
    U = sim.unitary([op], [w])
    V = product_1q(ops)
    labels = ["sk", sig, f"sk:{spec['op']['op']}", f"sk:len<={10 ** math.ceil(math.log10(max(len(ops), 1)))}"]
    if basis in SK_ASSERTED:
        _bounds(U, V, eps, feats, sig, f"sk_decomposition({spec['op']}, {eps!r}, basis_set={basis})")
    else:
        labels.append("sk:HT:" + ("met" if dist_up_to_phase(U, V) <= allowed(eps) else "missed(documented budget caveat)"))
    nontrivial = not any(sim.allclose_phase(U, C, 1e-9) for C in CT1.values())
    return Result(nontrivial, labels)


def _has_ps_3or5(ops):
    """Bucket label: the circuit contains PhaseShift(theta) (or ControlledPhaseShift(2.theta)) with theta = (3 or 5 mod 8).pi/4."""
    for o in ops:
        if o["op"] in ("PhaseShift", "ControlledPhaseShift"):
            r = o["p"][0] / (PI / 4) / (2 if o["op"] == "ControlledPhaseShift" else 1)
            if abs(r - round(r)) < 1e-6 and round(r) % 8 in (3, 5):
                return True
    return False


def check_ct(spec):
    import pennylane as qp

    eps, method = spec["eps"], spec["method"]
    order = [specs.wire(w) for w in spec["wires"]]
    tape = specs.build_tape(spec)
    tape0 = specs.build_tape(spec)
    odd = _has_ps_3or5(spec["ops"])
    feats = {"fn": "ct", "method": method, "phaseshift_3or5_pi4": odd}
    sig = "ct:" + method + (":PhaseShift(3|5.pi/4)" if odd else "")
    batch, fn = qp.clifford_t_decomposition(tape, epsilon=eps, method=method)
    if len(batch) != 1:
        raise Viol("fanout", f"{len(batch)} tapes", sig=sig, features=feats)
    out = batch[0]
    _gate_set(out.operations, order, feats, sig, single=False)
    if len(out.measurements) != len(tape0.measurements) or not all(qp.equal(a, b) for a, b in zip(out.measurements, tape0.measurements)):
        raise Viol("measurements-changed", f"{out.measurements} vs {tape0.measurements}", sig=sig, features=feats)
    U = sim.unitary(tape0.operations, order)
    V = sim.unitary(out.operations, order)
    _bounds(U, V, eps, feats, sig, f"clifford_t_decomposition(method={method}, eps={eps!r}) on {spec['ops']}")
    nt = sum(1 for o in out.operations if o.name in ("T", "Adjoint(T)"))
    nrot = sum(1 for o in spec["ops"] if o["op"] in ROT1 or o["op"] in ROT3 or o["op"] in ROT2Q)
    labels = ["ct", sig, f"ct:wires={len(order)}", f"ct:rotations={nrot}", "ct:T-count>0" if nt else "ct:T-count=0",
              f"ct:eps~1e{math.floor(math.log10(eps))}"]
    return Result(nt > 2, labels)


def check(spec):
    return {"rs": check_rs, "sk": check_sk, "ct": check_ct}[spec["fn"]](spec)


def selftest():
    sim.selftest()
    # closed-form distance against a brute-force minimisation over the phase
    rng = np.random.default_rng(5)
    for n in (1, 2):
        for _ in range(5):
            A = rng.normal(size=(2**n, 2**n)) + 1j * rng.normal(size=(2**n, 2**n))
            U = np.linalg.qr(A)[0]
            H = rng.normal(size=(2**n, 2**n))
            H = (H + H.T) / 2
            w, X = np.linalg.eigh(H)
            V = U @ (X * np.exp(0.05j * w)) @ X.T * np.exp(0.7j)
            brute = min(opnorm(U - np.exp(1j * p) * V) for p in np.linspace(-np.pi, np.pi, 20001))
            assert 0 <= brute - dist_up_to_phase(U, V) < 4e-4, (brute, dist_up_to_phase(U, V))  # grid step 3.1e-4
    assert np.allclose(CT1["Adjoint(T)"] @ G.T, np.eye(2))
