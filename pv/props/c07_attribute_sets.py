"""C07 — the attribute-set claims of pennylane/ops/qubit/attributes.py are true for every listed class."""
import itertools

import numpy as np
from hypothesis import strategies as st

from pv import gen, specs
from pv.cmp import maxdiff
from pv.engine import Result, Viol
from pv.ref import gates as G
from pv.ref import sim

ID = "C07"
TECHNIQUE = ("every name of every attribute set (enumerated from the module at run time) x boundary-biased parameters and batch sizes; oracle = the "
             "algebraic claim of the set checked with numpy on the instance's matrix / generator / eigenvalues")
RULE = (
    "For each of the 7 sets in qp.ops.qubit.attributes and each listed name: instances with parameters from the boundary mixture (0, +-pi/4 .. 4pi, "
    "1e-9, U(-7,7)), 1-4 wires where the class allows, all control-value / pauli-word / dim hyperparameters, batch sizes 1-3. Oracle: self_inverses: "
    "M@M = I; symmetric_over_all_wires: the canonical matrix is invariant under every permutation of its tensor factors (all n!, numpy transpose) and "
    "equals the matrix of the instance built on permuted wires read on the original order; symmetric_over_control_wires: same for permutations of all "
    "but the last wire; diagonal_in_z_basis: off-diagonal entries are 0 and diag(op.eigvals()) == M entry by entry; composable_rotations: "
    "U(a)@U(b) = U(a+b) (Rot, carved out by the docstring as 'alternative accumulation': the product equals the single Rot that "
    "qp.transforms.merge_rotations emits); has_unitary_generator: G G^dagger = c*I with c > 0 for G the matrix of op.generator(); "
    "supports_broadcasting: batched construction succeeds, batch_size is right and the batched matrix (state vector / decomposition matrix for "
    "classes without a matrix) equals the stack of the per-element results. 1e-9 absolute. Non-trivial: a parameter is not 0 mod 2pi, or the class has none."
)
ASSUMPTIONS = [
    "A listed name without an instance builder in this module is reported in the histogram as no-builder:<name> (none at the pinned commit).",
    "Rot: only the documented 'alternative accumulation' (fusion through merge_rotations) is checked, not angle addition.",
]
BUDGET = {"quick": {"examples": 1500}, "thorough": {"examples": 60000, "shards": 16}}

ATTRS = ["composable_rotations", "has_unitary_generator", "self_inverses", "symmetric_over_all_wires", "symmetric_over_control_wires",
         "diagonal_in_z_basis", "supports_broadcasting"]
TOL = 1e-9

# name -> (number of angle parameters, allowed wire counts)
ARITY = {n: (np_, [k]) for n, (np_, k) in gen.ALL_GATES.items()}
ARITY.update({"MultiRZ": (1, [1, 2, 3, 4]), "PauliRot": (1, [1, 2, 3]), "PCPhase": (1, [1, 2, 3]), "GlobalPhase": (1, [0, 1, 2]), "Identity": (0, [1, 2, 3]),
              "SQISW": (0, [2]), "DiagonalQubitUnitary": (0, [1, 2, 3]), "QubitUnitary": (0, [1, 2]), "ControlledQubitUnitary": (0, [2, 3]),
              "SpecialUnitary": (0, [1, 2]), "StatePrep": (0, [1, 2, 3]), "AmplitudeEmbedding": (0, [1, 2, 3]), "AngleEmbedding": (0, [1, 2, 3]),
              "IQPEmbedding": (0, [1, 2, 3]), "QAOAEmbedding": (0, [1, 2, 3])})
ARRAY_PARAM = {"DiagonalQubitUnitary", "QubitUnitary", "ControlledQubitUnitary", "SpecialUnitary", "StatePrep", "AmplitudeEmbedding", "AngleEmbedding",
               "IQPEmbedding", "QAOAEmbedding"}


def attribute_sets():
    import pennylane as qp

    A = qp.ops.qubit.attributes
    return {a: sorted(getattr(A, a)) for a in ATTRS}


def _names_static():
    """(attr, name) pairs; enumerated from the module at run time (import is paid once per process anyway)."""
    return [(a, n) for a, ns in attribute_sets().items() for n in ns]


@st.composite
def _case(draw, pairs):
    attr, name = draw(st.sampled_from(pairs))
    if name not in ARITY:
        return {"attr": attr, "name": name}
    npar, ks = ARITY[name]
    n = draw(st.sampled_from(ks))
    if attr == "symmetric_over_all_wires" and name in ("MultiRZ", "Identity"):
        n = draw(st.sampled_from([k for k in ks if k >= 2]))
    out = {"attr": attr, "name": name, "n": n, "p": draw(st.lists(gen.angles(), min_size=npar, max_size=npar)),
           "p2": draw(st.lists(gen.angles(), min_size=npar, max_size=npar)), "seed": draw(gen.float_list(6)),
           "batch": draw(st.integers(1, 3)), "wires": draw(st.sampled_from([[0, 1, 2, 3], ["a", "b", "c", "d"], [3, "x", 0, "q1"]]))}
    if name == "PauliRot":
        out["kw"] = {"pauli_word": draw(st.text("XYZI", min_size=n, max_size=n))}
    if name == "PCPhase":
        out["kw"] = {"dim": draw(st.integers(0, 2 ** n))}
    if name == "ControlledQubitUnitary":
        out["kw"] = {"control_values": draw(st.lists(st.integers(0, 1), min_size=1, max_size=1))}
    if name in ("AngleEmbedding",):
        out["kw"] = {"rotation": draw(st.sampled_from("XYZ"))}
    if name == "QAOAEmbedding":
        out["kw"] = {"local_field": draw(st.sampled_from("XYZ")), "layers": draw(st.integers(1, 2))}
    if name == "IQPEmbedding":
        out["kw"] = {"n_repeats": draw(st.integers(1, 2))}
    return out


def strategy(tier):
    return st.deferred(lambda: _case(_names_static()))


def enumerate_cases(tier):
    """Every (attribute, name) with fixed boundary parameter sets, every allowed wire count."""
    for attr, name in _names_static():
        if name not in ARITY:
            yield {"attr": attr, "name": name}
            continue
        npar, ks = ARITY[name]
        for n in ks:
            for i, ang in enumerate([0.0, np.pi, 2 * np.pi, -np.pi / 2, 0.37, 4 * np.pi, 1e-9]):
                if npar == 0 and i > 1:
                    break
                out = {"attr": attr, "name": name, "n": n, "p": [ang + 0.11 * j for j in range(npar)], "p2": [1.3 - 0.7 * j for j in range(npar)],
                       "seed": [0.3, -0.8, 0.5, 0.1, -0.2, 0.9][i % 6:] + [0.4] * (i % 6), "batch": 1 + i % 3, "wires": [0, 1, 2, 3]}
                if name == "PauliRot":
                    out["kw"] = {"pauli_word": "XYZI"[i % 4:][:n].ljust(n, "Z")}
                if name == "PCPhase":
                    out["kw"] = {"dim": i % (2 ** n + 1)}
                if name == "ControlledQubitUnitary":
                    out["kw"] = {"control_values": [i % 2]}
                if name == "AngleEmbedding":
                    out["kw"] = {"rotation": "XYZ"[i % 3]}
                if name == "QAOAEmbedding":
                    out["kw"] = {"local_field": "XYZ"[i % 3], "layers": 1 + i % 2}
                if name == "IQPEmbedding":
                    out["kw"] = {"n_repeats": 1 + i % 2}
                yield out


# ---------------------------------------------------------------------------------------------------

def _arr(seed, shape, shift=0.0):
    n = int(np.prod(shape))
    fl = list(seed) or [0.1]
    return np.array([fl[i % len(fl)] * (1 + 0.31 * (i // len(fl))) + shift for i in range(n)], dtype=float).reshape(shape)


def _array_params(s, j=0):
    """The array-valued parameters of element j of the batch for the array-parametrised classes."""
    name, n, seed = s["name"], s["n"], [x + 0.217 * j for x in s["seed"]]
    kw = s.get("kw") or {}
    if name == "DiagonalQubitUnitary":
        return [np.exp(1j * _arr(seed, (2 ** n,)) * 3)]
    if name == "QubitUnitary":
        return [specs.unitary_from_floats(seed, n)]
    if name == "ControlledQubitUnitary":
        return [specs.unitary_from_floats(seed, n - 1)]
    if name == "SpecialUnitary":
        return [_arr(seed, (4 ** n - 1,))]
    if name in ("StatePrep", "AmplitudeEmbedding"):
        return [specs.vec_from_floats(seed, n)]
    if name in ("AngleEmbedding", "IQPEmbedding"):
        return [_arr(seed, (n,)) * 3]
    if name == "QAOAEmbedding":
        cols = 1 if n == 1 else 3 if n == 2 else 2 * n
        return [_arr(seed, (n,)) * 3, _arr(seed[::-1], (kw.get("layers", 1), cols)) * 2]
    raise KeyError(name)


def _build(s, params=None, wires=None, batch_idx=None):
    """Instance of s['name'] with angle params `params` (default s['p']) on `wires` (default the first n labels)."""
    import pennylane as qp

    name, n = s["name"], s["n"]
    ws = list(wires if wires is not None else s["wires"][:n])
    kw = dict(s.get("kw") or {})
    cls = getattr(qp, name)
    if name in ARRAY_PARAM:
        if batch_idx == "all":
            per = [_array_params(s, j) for j in range(s["batch"])]
            ps = [np.stack([p[k] for p in per]) for k in range(len(per[0]))]
            if name == "QAOAEmbedding":  # documented: only the features are broadcast
                ps[1] = per[0][1]
        else:
            ps = _array_params(s, batch_idx or 0)
            if name == "QAOAEmbedding":
                ps[1] = _array_params(s, 0)[1]
        kw.pop("layers", None)
        return cls(*ps, wires=ws, **kw)
    ps = list(s["p"] if params is None else params)
    return cls(*ps, wires=ws, **kw)


def _perm_matrix_action(M, perm):
    """Matrix of the same operator with tensor factor i moved to position perm[i]."""
    n = len(perm)
    T = np.asarray(M).reshape((2,) * (2 * n))
    axes = [0] * (2 * n)
    for i, p in enumerate(perm):
        axes[p] = i
        axes[n + p] = n + i
    return np.transpose(T, axes).reshape(2 ** n, 2 ** n)


def _close(A, B, tol=TOL):
    A, B = np.asarray(A), np.asarray(B)
    return A.shape == B.shape and bool(np.all(np.abs(A - B) <= tol * max(1.0, float(np.abs(B).max()) if B.size else 1.0)))


def _mat(op):
    import pennylane as qp

    return np.asarray(qp.matrix(op), dtype=complex)


def check(spec):
    import pennylane as qp

    attr, name = spec["attr"], spec["name"]
    if name not in ARITY or not hasattr(qp, name):
        return Result(False, labels=[f"no-builder:{name}"])
    sig = f"{attr}:{name}"
    feats = {"attr": attr, "name": name}
    labels = [sig]
    n = spec["n"]
    angles = [x for x in spec["p"]]
    nontrivial = (not angles) or any(abs(np.sin(v / 2)) > 1e-6 for v in angles)

    if attr == "supports_broadcasting":
        b = spec["batch"]
        if name in ARRAY_PARAM:
            op = _build(spec, batch_idx="all")
            singles = [_build(spec, batch_idx=j) for j in range(b)]
        else:
            cols = [[a + 0.61 * j for j in range(b)] for a in spec["p"]]
            op = _build(spec, params=[np.array(c) for c in cols])
            singles = [_build(spec, params=[c[j] for c in cols]) for j in range(b)]

        def rep(o):
            if isinstance(o, qp.operation.StatePrepBase) or hasattr(o, "state_vector"):
                return np.asarray(o.state_vector(wire_order=list(o.wires)), dtype=complex)
            if o.has_matrix:
                return _mat(o)
            return np.asarray(qp.matrix(qp.tape.QuantumScript(o.decomposition()), wire_order=list(o.wires)), dtype=complex)
        R = rep(op)
        Rs = np.stack([rep(o) for o in singles])
        if R.shape != Rs.shape:
            raise Viol("batched-shape", f"{name}: batched result shape {R.shape}, stack of singles {Rs.shape} (spec {spec})", sig=sig, features=feats)
        if not _close(R, Rs):
            raise Viol("batched-values", f"{name}: batched result differs from the per-element results by {maxdiff(R, Rs)} (spec {spec})", sig=sig, features=feats)
        if op.batch_size != b:
            raise Viol("batch_size", f"{name}: batch_size {op.batch_size}, expected {b} (spec {spec})", sig=sig, features=feats)
        return Result(True, labels=labels + [f"batch:{b}"])

    op = _build(spec)
    M = _mat(op) if (n or name != "GlobalPhase") else _mat(op)
    ws = list(op.wires)

    if attr == "self_inverses":
        if not _close(M @ M, np.eye(M.shape[0])):
            raise Viol("self-inverse", f"{op!r}: M@M != I (diff {maxdiff(M @ M, np.eye(M.shape[0]))})", sig=sig, features=feats)
    elif attr in ("symmetric_over_all_wires", "symmetric_over_control_wires"):
        k = len(ws) if attr == "symmetric_over_all_wires" else len(ws) - 1
        for perm in itertools.permutations(range(k)):
            full = list(perm) + list(range(k, len(ws)))
            if not _close(_perm_matrix_action(M, full), M):
                raise Viol("not-symmetric", f"{op!r}: matrix changes under factor permutation {full}", sig=sig, features=feats)
            pw = [ws[i] for i in full]
            M2 = np.asarray(qp.matrix(_build(spec, wires=pw), wire_order=ws), dtype=complex)
            if not _close(M2, M):
                raise Viol("not-symmetric-instances", f"{name} on wires {pw} read on {ws} differs from the instance on {ws} (diff {maxdiff(M2, M)})", sig=sig, features=feats)
        labels.append(f"perms:{k}")
    elif attr == "diagonal_in_z_basis":
        if not _close(M - np.diag(np.diag(M)), np.zeros_like(M)):
            raise Viol("not-diagonal", f"{op!r}: off-diagonal entries up to {np.abs(M - np.diag(np.diag(M))).max()}", sig=sig, features=feats)
        ev = np.asarray(op.eigvals(), dtype=complex)
        if not _close(np.diag(ev), M):
            raise Viol("eigvals-not-diagonal", f"{op!r}: diag(eigvals) != matrix; eigvals={ev.tolist()} diag={np.diag(M).tolist()}", sig=sig, features=feats)
    elif attr == "has_unitary_generator":
        Gop = op.generator()
        order = ws if ws else [0]
        Gm = np.asarray(qp.matrix(Gop, wire_order=order) if len(Gop.wires) or ws else qp.matrix(Gop, wire_order=order), dtype=complex)
        P = Gm @ Gm.conj().T
        c = P[0, 0].real
        if not (c > 1e-12 and _close(P, c * np.eye(P.shape[0]))):
            raise Viol("generator-not-unitary", f"{op!r}: G G^dagger is not a positive multiple of I (G={Gop!r})", sig=sig, features=feats)
    elif attr == "composable_rotations":
        op2 = _build(spec, params=spec["p2"])
        prod = _mat(op2) @ M  # op applied first, then op2
        if name == "Rot":
            tape = qp.tape.QuantumScript([op, op2])
            (out,), _ = qp.transforms.merge_rotations(tape)
            fused = list(out.operations)
            if any(type(o).__name__ not in ("Rot", "GlobalPhase") for o in fused) or sum(type(o).__name__ == "Rot" for o in fused) > 1:
                raise Viol("rot-not-fused", f"merge_rotations([{op!r}, {op2!r}]) -> {fused}", sig=sig, features=feats)
            Mf = sim.unitary(fused, ws)
            if not _close(Mf, prod, 1e-8):
                raise Viol("rot-accumulation", f"fused {fused} != {op2!r} @ {op!r} (diff {maxdiff(Mf, prod)})", sig=sig, features=feats)
        else:
            tot = _mat(_build(spec, params=[a + b for a, b in zip(spec["p"], spec["p2"])]))
            if not _close(prod, tot, 1e-8):
                raise Viol("not-composable", f"{name}: U({spec['p2']})@U({spec['p']}) != U(sum) (diff {maxdiff(prod, tot)})", sig=sig, features=feats)
        nontrivial = any(abs(np.sin(v / 2)) > 1e-6 for v in spec["p"] + spec["p2"])
    return Result(nontrivial, labels=labels)


def selftest():
    G.selftest()
    sim.selftest()
    CN = G.FIXED["CNOT"]
    assert not np.allclose(_perm_matrix_action(CN, [1, 0]), CN) and np.allclose(_perm_matrix_action(G.FIXED["CZ"], [1, 0]), G.FIXED["CZ"])
    assert np.allclose(_perm_matrix_action(CN, [1, 0]), sim.embed(CN, [0, 1], [1, 0]))
