"""C21 — mid-circuit measurement methods agree with the exact semantics (default.qubit)."""
import hashlib
import json
import operator

import numpy as np
from hypothesis import strategies as st

from pv import gen, specs
from pv.engine import Reject, Result, Viol, _origin
from pv.ref import dyn2
from pv.ref import sim
from pv.ref import stattest as stt

ID = "C21"
TECHNIQUE = ("hypothesis dynamic circuits (measure with reset / postselect, cond with else, measurement-value arithmetic) executed "
             "with every mcm_method; oracle = numpy branch-enumerating reference (exact branch-averaged density matrix and exact "
             "outcome-history distribution); analytic: equality at 1e-8, shots: two-stage exact binomial/chi-square test")
RULE = (
    "Circuits on 1-4 wires (int/str/mixed labels, device without fixed wires): generic RY layer, then up to 12 steps out of gates "
    "(1-3 qubit table), qp.measure(w, reset in {F,T}, postselect in {None,0,1}) (1-5 per circuit) and qp.cond(pred, true ops[, else ops]) "
    "with pred = a measurement value or a boolean expression over measurement values (~ & | == < <= > >= over sums/products "
    "such as m0 + 2*m1 == 2). 1-3 terminal measurements: expval/var/probs/sample/counts of observables or wires and of "
    "measurement values (single value, arithmetic expression, list of values). Analytic mode: mcm_method deferred and "
    "tree-traversal must both equal the reference (branch-averaged density matrix, renormalised over the histories that "
    "survive postselection) at 1e-8. Shots mode: (deferred|one-shot|tree-traversal, hw-like) and (deferred, fill-shots): "
    "number of returned shots = shots without postselection and for fill-shots, <= shots and Binomial(shots, P(valid)) for hw-like; "
    "every measurement's outcome histogram (joint over its wires / values) vs the exact conditional distribution (pv.ref.stattest); "
    "violation only if p < 1e-9 and again p < 1e-9 on an independent execution with 4x the shots (seeds fixed by the spec); "
    "(one-shot|tree-traversal, fill-shots) must be refused with DeviceError. Cases with a postselecting measurement after an "
    "earlier measurement are bucketed separately (feature postselect_after_mcm). Non-trivial: >= 1 conditional whose predicate "
    "takes both truth values over the surviving histories."
)
ASSUMPTIONS = [
    "Postselection on histories of total probability < 1e-3 (analytic) / < 0.05 (shots) is rejected: the result is documented as undefined "
    "(NaN) at probability zero and ill-conditioned next to it.",
    "Measurement-value arithmetic is restricted to the documented operators; arithmetic between two boolean-valued expressions is excluded "
    "(numpy booleans add as logical-or, python booleans as integers, so the meaning depends on the method's internal array type); "
    "cond predicates are boolean valued or 0/1 valued (the documentation says a measurement value m is read as m == 1).",
    "Only the marginal distribution of each terminal measurement is tested (joint over its own wires / values); rows of different sample "
    "measurements are not assumed to belong to the same shot.",
    "Reference gate matrices come from pv.ref.gates; the reference never calls PennyLane's simulator.",
]
BUDGET = {"quick": {"examples": 300}, "thorough": {"examples": 11000, "shards": 16}}
SHRINK_LISTS = ("steps", "meas", "t", "e")
ALPHA = stt.ALPHA
TOL = 1e-8

POOL1 = {k: gen.GATES1[k] for k in ("PauliX", "PauliY", "PauliZ", "Hadamard", "S", "T", "SX", "RX", "RY", "RZ", "PhaseShift", "Rot")}
POOL2 = {k: gen.GATES2[k] for k in ("CNOT", "CZ", "CY", "SWAP", "CRX", "CRY", "IsingXX", "IsingXY", "ControlledPhaseShift", "SingleExcitation")}
POOL = {**POOL1, **POOL2, "Toffoli": (0, 3), "CSWAP": (0, 3)}

OPS = {"&": operator.and_, "|": operator.or_, "+": operator.add, "-": operator.sub, "*": operator.mul, "/": operator.truediv,
       "==": operator.eq, "<": operator.lt, "<=": operator.le, ">": operator.gt, ">=": operator.ge}


# ----------------------------------------------------------------------------------------------
# generator
# ----------------------------------------------------------------------------------------------
def _m(i):
    return {"m": i}


@st.composite
def _num_expr(draw, n_mcm, depth=1):
    """number-valued expression over measurement values."""
    leaf = st.integers(0, n_mcm - 1).map(_m)
    if depth <= 0 or draw(st.integers(0, 3)) == 0:
        return draw(leaf)
    form = draw(st.sampled_from(["x+y", "x-y", "x*y", "k*x", "x*k", "x+k", "k-x", "x/k", "x+k*y", "b*x", "b-k*x"]))
    x = draw(_num_expr(n_mcm, depth - 1))
    y = draw(_num_expr(n_mcm, depth - 1))
    k = {"k": draw(st.sampled_from([2, 3, -1, 0.5, 4]))}
    if form in ("x+y", "x-y", "x*y"):
        return {"f": form[1], "x": x, "y": y}
    if form == "k*x":
        return {"f": "*", "x": k, "y": x}
    if form == "x*k":
        return {"f": "*", "x": x, "y": k}
    if form == "x+k":
        return {"f": "+", "x": x, "y": k}
    if form == "k-x":
        return {"f": "-", "x": k, "y": x}
    if form == "x/k":
        return {"f": "/", "x": x, "y": k}
    if form == "x+k*y":
        return {"f": "+", "x": x, "y": {"f": "*", "x": {"k": 2}, "y": y}}
    b = draw(_bool_expr(n_mcm, 0))
    if form == "b*x":
        return {"f": "*", "x": b, "y": x}
    return {"f": "-", "x": b, "y": {"f": "*", "x": {"k": 2}, "y": x}}  # the documented ~m0 - 2*m1 shape


@st.composite
def _bool_expr(draw, n_mcm, depth=1):
    """boolean-valued expression."""
    form = draw(st.sampled_from(["~m", "cmp_k", "cmp_k", "cmp_m"] + (["and", "or", "not", "and", "or"] if depth > 0 else [])))
    if form == "~m":
        return {"f": "~", "x": _m(draw(st.integers(0, n_mcm - 1)))}
    if form == "cmp_k":
        x = draw(_num_expr(n_mcm, 1))
        return {"f": draw(st.sampled_from(["==", "==", "<", "<=", ">", ">="])), "x": x, "y": {"k": draw(st.sampled_from([0, 1, 2, 3]))}}
    if form == "cmp_m":
        return {"f": draw(st.sampled_from(["==", "<", "<=", ">", ">="])), "x": draw(_num_expr(n_mcm, 1)), "y": draw(_num_expr(n_mcm, 0))}
    if form == "not":
        return {"f": "~", "x": draw(_pred(n_mcm, depth - 1))}
    return {"f": "&" if form == "and" else "|", "x": draw(_pred(n_mcm, depth - 1)), "y": draw(_pred(n_mcm, depth - 1))}


def _pred(n_mcm, depth=1):
    """cond predicate: plain measurement value or boolean expression."""
    return st.one_of(st.integers(0, n_mcm - 1).map(_m), _bool_expr(n_mcm, depth))


@st.composite
def _terminal(draw, wires, n_mcm, mode, which="any"):
    n = len(wires)
    sub = st.integers(1, n).flatmap(lambda k: gen.subset(wires, k))
    kinds = ["expval_o", "expval_o", "var_o", "probs_w", "probs_w", "expval_mv", "var_mv", "probs_mv", "probs_mvs"]
    if mode == "shots":
        kinds += ["sample_w", "sample_w", "sample_o", "counts_w", "counts_o", "sample_mv", "sample_mvs", "counts_mv", "counts_mvs"]
    if which != "any":
        kinds = [k for k in kinds if (k.endswith("_o") or k.endswith("_w")) == (which == "plain")]
    kind = draw(st.sampled_from(kinds))
    if kind.endswith("_o"):
        obs = draw(gen.pauli_word_obs(wires, 2)) if mode == "shots" else draw(gen.observable(wires))
        out = {"mp": kind[:-2], "obs": obs}
    elif kind.endswith("_w"):
        out = {"mp": kind[:-2], "w": draw(sub)}
    elif kind.endswith("_mvs"):
        k = draw(st.integers(1, min(n_mcm, 3)))
        out = {"mp": kind[:-4], "mvs": draw(gen.subset(list(range(n_mcm)), k))}
    elif kind == "probs_mv":
        out = {"mp": "probs", "mv": _m(draw(st.integers(0, n_mcm - 1)))}
    else:
        e = draw(st.one_of(st.integers(0, n_mcm - 1).map(_m), _num_expr(n_mcm, 2), _bool_expr(n_mcm, 1)))
        out = {"mp": kind[:-3], "mv": e}
    if out["mp"] == "counts":
        # all_outcomes=True for wires / observables is rare: separately bucketed crash under one-shot
        out["all_outcomes"] = draw(st.booleans()) if ("mv" in out or "mvs" in out) else draw(st.integers(0, 7)) == 0
    return out


@st.composite
def _case(draw, tier):
    n = draw(st.sampled_from([1, 2, 2, 2, 3, 3, 3, 4]))
    wires = draw(gen.wire_labels(n))
    ang = st.one_of(gen.generic_angles(), gen.generic_angles(), gen.angles())
    steps = []
    if draw(st.integers(0, 4)) > 0:
        steps = [{"t": "g", "op": {"op": "RY", "p": [draw(gen.generic_angles())], "w": [w]}} for w in wires]
    max_mcm = draw(st.sampled_from([1, 2, 2, 3, 3, 4, 5]))
    post_late = draw(st.integers(0, 99)) < 20  # postselection after an earlier measurement allowed in 20% of the circuits
    n_mcm = 0
    n_steps = draw(st.integers(2, 12))
    for i in range(n_steps):
        r = draw(st.integers(0, 9))
        if (r < 3 or i == 0) and n_mcm < max_mcm:
            post = None
            if (n_mcm == 0 or post_late) and draw(st.integers(0, 3)) == 0:
                post = draw(st.integers(0, 1))
            steps.append({"t": "m", "w": draw(st.sampled_from(wires)), "reset": draw(st.booleans()), "post": post})
            n_mcm += 1
        elif r < 6 and n_mcm > 0:
            t_ops = [draw(gen.gate(wires, POOL, ang)) for _ in range(draw(st.sampled_from([1, 1, 2])))]
            e_ops = [draw(gen.gate(wires, POOL, ang)) for _ in range(draw(st.sampled_from([0, 0, 1, 2])))]
            steps.append({"t": "c", "pred": draw(_pred(n_mcm, 1)), "t_ops": t_ops, "e_ops": e_ops})
        else:
            steps.append({"t": "g", "op": draw(gen.gate(wires, POOL, ang))})
    if n_mcm == 0:
        steps.append({"t": "m", "w": draw(st.sampled_from(wires)), "reset": draw(st.booleans()), "post": None})
        n_mcm = 1
    mode = draw(st.sampled_from(["analytic"] * 4 + ["shots"]))
    # shape of the measurement list: plain = observables / wires, mv = measurement values. The shapes "exactly one plain next to
    # mv" and "a single mv" are kept rare in analytic mode (they are separately bucketed for tree-traversal)
    shape = draw(st.sampled_from(["plain"] * 7 + ["mixed2"] * 6 + ["mvs"] * 5 + ["one-plain+mv", "single-mv"])) if mode == "analytic" else "free"
    pl = lambda: draw(_terminal(wires, n_mcm, mode, "plain"))  # noqa: E731
    mv = lambda: draw(_terminal(wires, n_mcm, mode, "mv"))  # noqa: E731
    if shape == "plain":
        meas = [pl() for _ in range(draw(st.integers(1, 3)))]
    elif shape == "mixed2":
        meas = list(draw(st.permutations([pl(), pl(), mv()] + ([mv()] if draw(st.booleans()) else []))))
    elif shape == "mvs":
        meas = [mv() for _ in range(draw(st.integers(2, 3)))]
    elif shape == "one-plain+mv":
        meas = list(draw(st.permutations([pl(), mv()])))
    elif shape == "single-mv":
        meas = [mv()]
    else:
        meas = draw(st.lists(_terminal(wires, n_mcm, mode, "any"), min_size=1, max_size=3))
    spec = {"wires": wires, "steps": steps, "meas": meas, "mode": mode}
    if mode == "shots":
        configs = [("deferred", "hw-like"), ("deferred", "fill-shots"), ("tree-traversal", "hw-like"), ("tree-traversal", "hw-like"),
                   ("one-shot", "hw-like"), ("one-shot", "hw-like")]
        if draw(st.integers(0, 4)) == 0:
            configs += [("one-shot", "fill-shots"), ("tree-traversal", "fill-shots")]  # documented as unsupported: must be refused
        method, pm = draw(st.sampled_from(configs))
        if any(s["t"] == "m" and s["post"] is not None for s in steps) and not any(m["mp"] in ("sample", "counts") for m in meas):
            meas.append({"mp": "sample", "w": draw(gen.subset(wires, draw(st.integers(1, n))))})  # makes the number of valid shots observable
        shots = draw(st.sampled_from([300, 600] if method == "one-shot" else [2000, 5000, 20000]))
        spec.update(method=method, pm=pm, shots=shots, seed=draw(st.integers(0, 2**31 - 1)))
    return spec


def strategy(tier):
    return _case(tier)


def enumerate_cases(tier):
    g = lambda name, w, *p: {"t": "g", "op": {"op": name, "p": list(p), "w": list(w)}}  # noqa: E731
    mm = lambda w, reset=False, post=None: {"t": "m", "w": w, "reset": reset, "post": post}  # noqa: E731
    # documentation examples (analytic + shots, all methods)
    doc1 = {"wires": [0, 1], "steps": [g("RY", [0], 0.643), g("CNOT", [0, 1]), mm(1), {"t": "c", "pred": _m(0), "t_ops": [g("RY", [0], 0.246)["op"]], "e_ops": []}],
            "meas": [{"mp": "probs", "w": [0]}, {"mp": "expval", "mv": _m(0)}]}
    doc2 = {"wires": [0, 1], "steps": [g("RX", [0], 1.23), mm(0), g("RY", [1], 4.56), mm(1)],
            "meas": [{"mp": "expval", "mv": {"f": "-", "x": {"f": "~", "x": _m(0)}, "y": {"f": "*", "x": {"k": 2}, "y": _m(1)}}}, {"mp": "probs", "mvs": [0, 1]}]}
    # the pilot's shape: postselecting measurement after an earlier measurement on the same wire
    pilot = {"wires": [0], "steps": [g("RX", [0], 0.7), g("Hadamard", [0]), mm(0), g("RY", [0], 0.5), mm(0, post=0)],
             "meas": [{"mp": "expval", "mv": _m(0)}, {"mp": "probs", "w": [0]}]}
    # reset + reuse, else branch, arithmetic predicate
    reuse = {"wires": ["a", "b", "c"], "steps": [g("RX", ["a"], 0.7), g("Hadamard", ["b"]), g("CNOT", ["a", "c"]), mm("a"),
                                                  {"t": "c", "pred": _m(0), "t_ops": [g("RY", ["b"], 0.5)["op"]], "e_ops": []}, mm("b", reset=True),
                                                  {"t": "c", "pred": {"f": "&", "x": _m(0), "y": {"f": "~", "x": _m(1)}}, "t_ops": [g("RX", ["c"], 0.3)["op"]], "e_ops": [g("RZ", ["c"], 0.3)["op"]]},
                                                  mm("c"), g("CNOT", ["c", "a"])],
             "meas": [{"mp": "probs", "w": ["c", "a", "b"]}, {"mp": "probs", "mvs": [2, 0, 1]}, {"mp": "expval", "obs": {"op": "prod", "operands": [{"op": "PauliZ", "w": ["a"]}, {"op": "PauliX", "w": ["b"]}]}}]}
    post_first = {"wires": [0, 1], "steps": [g("RX", [0], 1.1), g("CNOT", [0, 1]), mm(0, post=1), {"t": "c", "pred": _m(0), "t_ops": [g("RY", [1], 0.4)["op"]], "e_ops": []}, g("Hadamard", [0]), mm(1)],
                  "meas": [{"mp": "probs", "w": [1, 0]}, {"mp": "var", "mv": {"f": "+", "x": _m(0), "y": _m(1)}}]}
    for base in (doc1, doc2, pilot, reuse, post_first):
        yield {**base, "mode": "analytic"}
        for method, pm, shots in (("deferred", "hw-like", 5000), ("deferred", "fill-shots", 5000), ("tree-traversal", "hw-like", 5000), ("one-shot", "hw-like", 400)):
            meas = list(base["meas"]) + [{"mp": "sample", "w": list(base["wires"])}, {"mp": "counts", "mvs": [0], "all_outcomes": False}]
            yield {**base, "meas": meas, "mode": "shots", "method": method, "pm": pm, "shots": shots, "seed": 4242}
    yield {**post_first, "mode": "shots", "method": "one-shot", "pm": "fill-shots", "shots": 100, "seed": 1}


# ----------------------------------------------------------------------------------------------
# reference
# ----------------------------------------------------------------------------------------------
def _valid_pred(e, n_mcm):
    """boolean- or 0/1-valued over all assignments of the measurement values it uses."""
    used = sorted(dyn2.mcms_of(e))
    for bits in range(2 ** len(used)):
        o = {i: (bits >> j) & 1 for j, i in enumerate(used)}
        v = dyn2.ev(e, o)
        if not isinstance(v, bool) and v not in (0, 1):
            return False
    return True


def _valid_expr(e):
    """no arithmetic between two boolean-valued operands, no division by a measurement value."""
    if "m" in e or "k" in e:
        return True
    if not _valid_expr(e["x"]) or ("y" in e and not _valid_expr(e["y"])):
        return False
    if e["f"] in dyn2.ARITH:
        if dyn2.kind(e["x"]) == "b" and dyn2.kind(e["y"]) == "b":
            return False
        if "k" in e["x"] and "k" in e["y"]:
            return False
        if e["f"] == "/" and "k" not in e["y"]:
            return False
    if e["f"] in ("&", "|") and ("k" in e["x"] or "k" in e["y"]):
        return False
    return True


class Model:
    def __init__(self, spec):
        self.spec = spec
        self.wires = [specs.wire(w) for w in spec["wires"]]
        self.n = len(self.wires)
        ax = {w: i for i, w in enumerate(self.wires)}
        prog = []
        self.mcm = []  # (wire, reset, post)
        self.preds = []
        for s in spec["steps"]:
            if s["t"] == "g":
                op = specs.build_op(s["op"])
                prog.append(("U", sim.op_matrix(op), [ax[w] for w in op.wires]))
            elif s["t"] == "m":
                prog.append(("M", ax[specs.wire(s["w"])], len(self.mcm), bool(s["reset"]), s["post"]))
                self.mcm.append((specs.wire(s["w"]), bool(s["reset"]), s["post"]))
            else:
                e = s["pred"]
                if not _valid_expr(e) or not _valid_pred(e, len(self.mcm)) or any(i >= len(self.mcm) for i in dyn2.mcms_of(e)):
                    raise Reject("predicate outside the documented domain")
                self.preds.append(e)
                for o in s["t_ops"]:
                    op = specs.build_op(o)
                    prog.append(("C", (lambda oc, e=e: bool(dyn2.ev(e, oc))), ("U", sim.op_matrix(op), [ax[w] for w in op.wires])))
                for o in s["e_ops"]:
                    op = specs.build_op(o)
                    prog.append(("C", (lambda oc, e=e: not bool(dyn2.ev(e, oc))), ("U", sim.op_matrix(op), [ax[w] for w in op.wires])))
        self.ax = ax
        self.exact = dyn2.Exact(prog, self.n)
        self.rho = self.exact.rho() if self.exact.branches else None

    def target(self, m):
        """exact model of one terminal measurement: dict with
        kind 'bits' (k, probs[2^k]) | 'vals' (vals, probs, mean, var) | 'lin' (mean, var, lo, hi)."""
        ex = self.exact
        if m.get("obs"):
            obs = specs.build_op(m["obs"])
            ow = list(obs.wires)
            r = dyn2.reduced(self.rho, self.n, [self.ax[w] for w in ow])
            O = sim.op_matrix(obs)
            mean = float(np.real(np.trace(r @ O)))
            var = float(np.real(np.trace(r @ O @ O))) - mean**2
            vals, probs = dyn2.spectrum(O, r)
            return {"kind": "vals", "vals": vals, "probs": probs, "mean": mean, "var": var}
        if m.get("w") is not None:
            axes = [self.ax[specs.wire(w)] for w in m["w"]]
            r = dyn2.reduced(self.rho, self.n, axes)
            return {"kind": "bits", "k": len(axes), "probs": np.clip(np.real(np.diag(r)), 0, 1)}
        if m.get("mvs") is not None:
            idx = list(m["mvs"])
            if any(i >= len(self.mcm) for i in idx) or len(set(idx)) != len(idx):
                raise Reject("measurement value list outside the domain")
            d = ex.dist(lambda oc: tuple(oc[i] for i in idx))
            p = np.zeros(2 ** len(idx))
            for bits, q in d.items():
                p[int("".join(str(b) for b in bits), 2)] += q
            return {"kind": "bits", "k": len(idx), "probs": p}
        e = m["mv"]
        if not _valid_expr(e) or any(i >= len(self.mcm) for i in dyn2.mcms_of(e)):
            raise Reject("measurement-value expression outside the documented domain")
        if m["mp"] == "probs":
            if "m" not in e:
                raise Reject("probs of an arithmetic expression is not documented")
            d = ex.dist(lambda oc: oc[e["m"]])
            return {"kind": "bits", "k": 1, "probs": np.array([d.get(0, 0.0), d.get(1, 0.0)])}
        d = ex.dist(lambda oc: float(dyn2.ev(e, oc)))
        vals = np.array(sorted(d))
        probs = np.array([d[v] for v in vals])
        mean = float(vals @ probs)
        # the full value range (also values of impossible histories) bounds the estimators
        used = sorted(dyn2.mcms_of(e))
        allv = [float(dyn2.ev(e, {i: (b >> j) & 1 for j, i in enumerate(used)})) for b in range(2 ** len(used))]
        return {"kind": "vals", "vals": vals, "probs": probs, "mean": mean, "var": float((vals**2) @ probs) - mean**2, "allv": allv}


# ----------------------------------------------------------------------------------------------
# code under test
# ----------------------------------------------------------------------------------------------
def _build_mv(e, mvs):
    if "m" in e:
        return mvs[e["m"]]
    if "k" in e:
        return e["k"]
    x = _build_mv(e["x"], mvs)
    if e["f"] == "~":
        return ~x
    return OPS[e["f"]](x, _build_mv(e["y"], mvs))


def _qnode(spec, method, pm, shots, seed):
    import pennylane as qp

    dev = qp.device("default.qubit", seed=seed)

    def circuit():
        mvs = []
        for s in spec["steps"]:
            if s["t"] == "g":
                specs.build_op(s["op"])
            elif s["t"] == "m":
                mvs.append(qp.measure(specs.wire(s["w"]), reset=bool(s["reset"]), postselect=s["post"]))
            else:
                t_ops, e_ops = s["t_ops"], s["e_ops"]

                def tf(t_ops=t_ops):
                    for o in t_ops:
                        specs.build_op(o)

                def ff(e_ops=e_ops):
                    for o in e_ops:
                        specs.build_op(o)

                qp.cond(_build_mv(s["pred"], mvs), tf, ff if e_ops else None)()
        out = []
        for m in spec["meas"]:
            fn = getattr(qp, m["mp"])
            kw = {"all_outcomes": bool(m.get("all_outcomes"))} if m["mp"] == "counts" else {}
            if m.get("obs"):
                out.append(fn(specs.build_op(m["obs"]), **kw))
            elif m.get("w") is not None:
                out.append(fn(wires=[specs.wire(w) for w in m["w"]], **kw))
            elif m.get("mvs") is not None:
                out.append(fn(op=[mvs[i] for i in m["mvs"]], **kw))
            else:
                out.append(fn(op=_build_mv(m["mv"], mvs), **kw))
        return tuple(out)

    kw = {"mcm_method": method}
    if pm is not None:
        kw["postselect_mode"] = pm
    node = qp.QNode(circuit, dev, **kw)
    if shots:
        node = qp.set_shots(node, shots)
    return node


def _execute(spec, method, pm, shots, seed, feats):
    """-> tuple of results, or raises Viol for an unexpected exception / Reject for the documented refusals."""
    import pennylane as qp

    try:
        res = _qnode(spec, method, pm, shots, seed)()
    except qp.exceptions.DeviceError as e:
        if pm == "fill-shots" and method != "deferred" and "fill-shots" in str(e):
            return None
        raise
    except Exception as e:  # noqa: BLE001
        origin, where = _origin(e.__traceback__)
        if origin != "sut":
            raise
        raise Viol("unexpected-exception", f"{method}/{pm}/shots={shots}: {type(e).__name__}: {e}",
                   sig=f"{_sigbase(feats)}:{type(e).__name__}@{where}", features={**feats, "exc": type(e).__name__, "where": where}) from None
    if pm == "fill-shots" and method != "deferred" and shots:
        raise Viol("fill-shots-not-refused", f"mcm_method={method} with postselect_mode='fill-shots' is documented as unsupported on default.qubit but executed",
                   sig=f"{method}:fill-shots", features=feats)
    return res


def _sigbase(feats):
    return f"{feats['method']}:{feats['mode']}:{'post-after-mcm' if feats['postselect_after_mcm'] else 'plain'}"


# ----------------------------------------------------------------------------------------------
# analytic comparison
# ----------------------------------------------------------------------------------------------
def _analytic_compare(m, res, tg, feats):
    """-> list of violations of one terminal measurement (a wrong shape that still holds the right number of entries is
    reported as such and the values are compared as well)."""
    what = json.dumps(m, sort_keys=True)
    mp = m["mp"]
    tgt = "obs" if m.get("obs") else "wires" if m.get("w") is not None else "mvs" if m.get("mvs") is not None else "mv"
    f = {**feats, "mp": mp, "target": tgt, "bool_pair_arith": bool(tgt == "mv" and bool_pair_arith(m["mv"])),
         "var_obs_overlapping_sum": bool(mp == "var" and tgt == "obs" and _overlapping_sum(m["obs"]))}
    sig = f"{_sigbase(feats)}:{mp}:{tgt}"
    try:
        a = np.asarray(res, dtype=complex)
    except Exception:  # noqa: BLE001
        return [Viol("analytic-shape", f"{what}: result {res!r} is not numeric", sig=sig, features=f)]
    want = np.asarray(tg["probs"] if mp == "probs" else tg["mean"] if mp == "expval" else tg["var"])
    out = []
    if a.shape != want.shape:
        out.append(Viol("analytic-shape", f"{what}: shape {a.shape}, expected {want.shape}; got {res!r}, exact {want.tolist()}", sig=sig, features=f))
        if a.size != want.size:
            return out
        a = a.reshape(want.shape)
    if not np.all(np.isfinite(a)):
        return out + [Viol("analytic-value", f"{what}: non-finite result {res!r}, exact {want.tolist()}", sig=sig + ":nan", features=f)]
    err = float(np.abs(a - want).max())
    if err > TOL:
        out.append(Viol("analytic-value", f"{what}: {feats['method']} returned {np.real(a).tolist()}, exact {want.tolist()} (|diff| {err:.3e})", sig=sig, features=f))
    return out


# ----------------------------------------------------------------------------------------------
# shots: deterministic structure + sufficient statistics
# ----------------------------------------------------------------------------------------------
def _value_hist(vals_obs, counts_obs, tg, what, sig, f):
    """histogram over exact support `tg['vals']`; values outside the support get their own cells with probability 0."""
    vals = list(tg["vals"])
    probs = list(tg["probs"])
    h = [0] * len(vals)
    scale = max(1.0, max(abs(v) for v in vals))
    for v, c in zip(vals_obs, counts_obs):
        v = complex(v)
        if abs(v.imag) > 1e-9:
            raise Viol("invalid-outcome", f"{what}: complex outcome {v}", sig=sig, features=f)
        v = v.real
        j = int(np.argmin([abs(v - x) for x in vals]))
        if abs(vals[j] - v) > 1e-7 * scale:
            vals.append(v)
            probs.append(0.0)
            h.append(int(c))
        else:
            h[j] += int(c)
    return np.array(h, dtype=np.int64), np.array(probs)


def _shot_stat(m, res, tg, feats):
    """-> (n_observed or None, statistic) with statistic = ('hist', counts, probs) | ('mean', v, mu, half) | ('var', v, var, h) |
    ('frac', probs_estimate, probs)  (needs the number of valid shots)."""
    what = json.dumps(m, sort_keys=True)
    mp = m["mp"]
    tgt = "obs" if m.get("obs") else "wires" if m.get("w") is not None else "mvs" if m.get("mvs") is not None else "mv"
    f = {**feats, "mp": mp, "target": tgt}
    sig = f"{_sigbase(feats)}:{mp}:{tgt}"
    if mp == "sample":
        a = np.asarray(res)
        if tg["kind"] == "bits":
            k = tg["k"]
            if a.ndim == 1 and k == 1:
                a = a.reshape(-1, 1)
            if a.ndim != 2 or a.shape[1] != k:
                raise Viol("sample-shape", f"{what}: shape {a.shape}, expected (n, {k})", sig=sig, features=f)
            if a.size and not np.isin(a, [0, 1]).all():
                raise Viol("invalid-outcome", f"{what}: entries outside {{0,1}}: {np.unique(a).tolist()[:6]}", sig=sig, features=f)
            idx = a.astype(np.int64) @ (1 << np.arange(k - 1, -1, -1, dtype=np.int64))
            return len(a), ("hist", np.bincount(idx, minlength=2**k), tg["probs"])
        if a.ndim != 1:
            raise Viol("sample-shape", f"{what}: shape {a.shape}, expected (n,)", sig=sig, features=f)
        u, c = np.unique(a, return_counts=True)
        h, p = _value_hist(u.tolist(), c.tolist(), tg, what, sig, f)
        return len(a), ("hist", h, p)
    if mp == "counts":
        if not isinstance(res, dict):
            raise Viol("counts-type", f"{what}: result is {type(res).__name__}", sig=sig, features=f)
        tot = int(sum(int(v) for v in res.values()))
        if any(int(v) < 0 for v in res.values()):
            raise Viol("counts-keys", f"{what}: negative entries {res}", sig=sig, features=f)
        if tg["kind"] == "bits":
            k = tg["k"]
            h = np.zeros(2**k, dtype=np.int64)
            for key, v in res.items():
                key = str(key)
                if len(key) != k or set(key) - {"0", "1"}:
                    raise Viol("invalid-outcome", f"{what}: key {key!r} is not a {k}-bit string; result {res}", sig=sig, features=f)
                h[int(key, 2)] += int(v)
            if m.get("all_outcomes") and len(res) != 2**k:
                raise Viol("counts-keys", f"{what}: all_outcomes lists {len(res)} keys, expected {2**k}: {res}", sig=sig, features=f)
            if not m.get("all_outcomes") and any(int(v) == 0 for v in res.values()):
                raise Viol("counts-keys", f"{what}: zero entries without all_outcomes: {res}", sig=sig, features=f)
            return tot, ("hist", h, tg["probs"])
        keys = [complex(np.asarray(k).item()) if not isinstance(k, str) else complex(float(k)) for k in res.keys()]
        h, p = _value_hist(keys, [int(v) for v in res.values()], tg, what, sig, f)
        return tot, ("hist", h, p)
    a = np.asarray(res)
    if mp == "probs":
        want = tg["probs"]
        if a.shape != want.shape:
            raise Viol("probs-shape", f"{what}: shape {a.shape}, expected {want.shape}", sig=sig, features=f)
        a = a.astype(float)
        if not np.all(np.isfinite(a)) or abs(a.sum() - 1) > 1e-9 or a.min() < 0:
            raise Viol("probs-grid", f"{what}: estimated probabilities {a.tolist()} are not a distribution", sig=sig, features=f)
        return None, ("frac", a, want)
    if a.shape != ():
        raise Viol("scalar-shape", f"{what}: shape {a.shape}, expected ()", sig=sig, features=f)
    v = float(np.real(a))
    if not np.isfinite(v):
        raise Viol("invalid-outcome", f"{what}: non-finite estimate {res!r}", sig=sig, features=f)
    rng = tg.get("allv") or list(tg["vals"])
    lo, hi = min(rng), max(rng)
    half = (hi - lo) / 2
    if mp == "expval":
        if not lo - 1e-9 <= v <= hi + 1e-9:
            raise Viol("invalid-outcome", f"{what}: sample mean {v} outside [{lo}, {hi}]", sig=sig, features=f)
        return None, ("mean", v, tg["mean"], half)
    if v < -1e-9 or v > half * half + 1e-9:
        raise Viol("invalid-outcome", f"{what}: sample variance {v} outside [0, {half * half}]", sig=sig, features=f)
    return None, ("var", v, tg["var"], half)


def _stat_p(stat, n):
    kind = stat[0]
    if kind == "hist":
        return stt.histogram_p(stat[1], stat[2])
    if kind == "frac":
        c = stat[1] * n
        if np.abs(c - np.round(c)).max() > 1e-6:
            return 0.0, f"estimated probabilities {stat[1].tolist()} are not multiples of 1/{n} (number of valid shots)"
        return stt.histogram_p(np.round(c).astype(np.int64), stat[2])
    if kind == "mean":
        _, v, mu, half = stat
        p = stt.mean_p(v - mu, n, half)
        return p, f"sample mean {v:.5f} vs exact {mu:.5f} (n={n}, half-range {half:.3f}, Hoeffding p={p:.2e})"
    _, v, var, h = stat
    if h <= 0:
        return (1.0 if abs(v - var) < 1e-9 else 0.0), f"variance {v} of a constant, exact {var}"
    # y = x - midpoint in [-h, h]: |var_est - var| <= |mean(y^2) - E y^2| + 2h |mean(y) - E y| (+ h^2/n if the unbiased form is used)
    dev = max(0.0, abs(v - var) - h * h / max(n - 1, 1))
    # split dev = a + 2 h b with a = (h^2/2) t, b = h t  (both Hoeffding at the same t): dev = 2.5 h^2 t
    t = dev / (2.5 * h * h)
    p = float(min(1.0, 4.0 * np.exp(-n * t * t / 2.0)))
    return p, f"sample variance {v:.5f} vs exact {var:.5f} (n={n}, half-range {h:.3f}, Hoeffding p={p:.2e})"


def _seed2(spec):
    h = hashlib.sha1(json.dumps(spec, sort_keys=True, default=str).encode()).hexdigest()
    return int(h[:8], 16) & 0x7FFFFFFF


def _shot_round(spec, model, targets, shots, seed, feats):
    """one execution -> dict test-name -> (p, info); deterministic clauses raise."""
    method, pm = spec["method"], spec["pm"]
    res = _execute(spec, method, pm, shots, seed, feats)
    if res is None:
        return None
    if not isinstance(res, (tuple, list)) or len(res) != len(spec["meas"]):
        raise Viol("result-structure", f"{len(spec['meas'])} measurements but result {type(res).__name__} of length {len(res) if hasattr(res, '__len__') else '-'}",
                   sig=_sigbase(feats), features=feats)
    has_post = any(p is not None for _, _, p in model.mcm)
    stats = []
    ns = []
    for i, (m, r, tg) in enumerate(zip(spec["meas"], res, targets)):
        n_obs, stat = _shot_stat(m, r, tg, feats)
        stats.append(stat)
        if n_obs is not None:
            ns.append((i, n_obs))
    if len({n for _, n in ns}) > 1:
        raise Viol("shot-count", f"sample/counts measurements of one execution disagree on the number of valid shots: {ns}", sig=_sigbase(feats) + ":inconsistent", features=feats)
    tests = {}
    if not has_post or pm == "fill-shots":
        n_valid = shots
        if ns and ns[0][1] != shots:
            raise Viol("shot-count", f"{'fill-shots' if has_post else 'no postselection'}: {ns[0][1]} shots returned for shots={shots}", sig=_sigbase(feats) + f":{pm}", features=feats)
    else:
        if not ns:
            return {}
        n_valid = ns[0][1]
        if n_valid > shots:
            raise Viol("shot-count", f"hw-like: {n_valid} shots returned for shots={shots}", sig=_sigbase(feats) + ":hw-like", features=feats)
        p = stt._binom_two_sided(n_valid, shots, model.exact.p_valid)
        tests["n_valid"] = (p, f"{n_valid} of {shots} shots valid, exact postselection probability {model.exact.p_valid:.5f} (binomial p={p:.2e})")
        if n_valid == 0:
            return tests
    for i, stat in enumerate(stats):
        tests[f"meas{i}"] = _stat_p(stat, n_valid)
    return tests


# ----------------------------------------------------------------------------------------------
# check
# ----------------------------------------------------------------------------------------------
def _is_plain(m):
    return bool(m.get("obs")) or m.get("w") is not None


def _overlapping_sum(o):
    """sum observable with two terms sharing a wire (its square is a product with overlapping wires)."""
    if o.get("op") != "sum":
        return False
    ws = [set(map(str, specs.spec_wires(t))) for t in o["operands"]]
    return any(ws[i] & ws[j] for i in range(len(ws)) for j in range(i + 1, len(ws)))


def _maybe_bool(e):
    """operand that some method may hold as a boolean array: a raw measurement value, a boolean-valued expression or a product of such."""
    if "m" in e:
        return True
    if "k" in e:
        return False
    if e["f"] == "*":
        return _maybe_bool(e["x"]) and _maybe_bool(e["y"])
    return e["f"] not in dyn2.ARITH


def bool_pair_arith(e):
    """the expression contains + - * / between two operands that may both be held as booleans (m0 + m1, ~m0 - m1, m0 * m0)."""
    if "m" in e or "k" in e:
        return False
    if e["f"] in dyn2.ARITH and _maybe_bool(e["x"]) and _maybe_bool(e["y"]):
        return True
    return bool_pair_arith(e["x"]) or ("y" in e and bool_pair_arith(e["y"]))


def _features(spec, model):
    seen = 0
    paf = pafree = False
    for _, _, post in model.mcm:
        if post is not None and seen:
            paf = True
        seen += 1
    free = 0
    for _, _, post in model.mcm:
        if post is not None and free:
            pafree = True
        if post is None:
            free += 1
    return paf, pafree


def check(spec):
    model = Model(spec)
    ex = model.exact
    mode = spec["mode"]
    has_post = any(p is not None for _, _, p in model.mcm)
    if has_post and ex.p_valid < (1e-3 if mode == "analytic" else 0.05):
        raise Reject("postselection on (nearly) impossible histories: undefined result")
    targets = [model.target(m) for m in spec["meas"]]
    paf, pafree = _features(spec, model)
    varying = sum(ex.predicate_varies(lambda oc, e=e: bool(dyn2.ev(e, oc))) for e in model.preds)
    labels = [f"mode:{mode}", f"mcms:{len(model.mcm)}", f"wires:{model.n}", f"branches:{min(len(ex.branches), 8)}{'+' if len(ex.branches) > 8 else ''}",
              f"conds-varying:{min(varying, 3)}"]
    labels += ["reset"] if any(r for _, r, _ in model.mcm) else []
    labels += ["postselect"] if has_post else []
    labels += ["postselect-after-mcm"] if paf else []
    labels += ["else-branch"] if any(s["t"] == "c" and s["e_ops"] for s in spec["steps"]) else []
    labels += ["pred-arith"] if any("m" not in e for e in model.preds) else []
    labels += ["reused-wire"] if len({w for w, _, _ in model.mcm}) < len(model.mcm) else []
    for m in spec["meas"]:
        tgt = "obs" if m.get("obs") else "wires" if m.get("w") is not None else "mvs" if m.get("mvs") is not None else ("mv" if "m" in m["mv"] else "mv-arith")
        labels.append(f"mp:{m['mp']}:{tgt}")
    n_plain = sum(1 for m in spec["meas"] if _is_plain(m))
    n_mv = len(spec["meas"]) - n_plain
    base = {"mode": mode, "postselect": has_post, "postselect_after_mcm": paf, "postselect_after_free_mcm": pafree,
            "n_mcm": len(model.mcm), "reset": any(r for _, r, _ in model.mcm),
            "n_plain_meas": n_plain, "n_mv_meas": n_mv,
            # measurement lists as tree-traversal sees them (var -> two expectation values)
            "single_plain_with_mv": n_plain == 1 and n_mv >= 1 and not any(_is_plain(m) and m["mp"] == "var" for m in spec["meas"]),
            "single_mv_only": n_plain == 0 and n_mv == 1 and spec["meas"][0]["mp"] != "var",
            "any_bool_pair_arith": any(m.get("mv") is not None and bool_pair_arith(m["mv"]) for m in spec["meas"]),
            "counts_all_outcomes_plain": any(_is_plain(m) and m["mp"] == "counts" and m.get("all_outcomes") for m in spec["meas"])}

    viols = []
    if mode == "analytic":
        for method in ("deferred", "tree-traversal"):
            feats = {**base, "method": method, "pm": None}
            labels.append(f"method:{method}")
            try:
                res = _execute(spec, method, None, None, 0, feats)
                if not isinstance(res, (tuple, list)) or len(res) != len(spec["meas"]):
                    raise Viol("result-structure", f"{len(spec['meas'])} measurements but result {res!r}", sig=_sigbase(feats), features=feats)
                for m, r, tg in zip(spec["meas"], res, targets):
                    viols.extend(_analytic_compare(m, r, tg, feats))
            except Viol as v:
                viols.append(v)
    else:
        method, pm = spec["method"], spec["pm"]
        feats = {**base, "method": method, "pm": pm}
        labels.append(f"method:{method}:{pm}")
        try:
            t1 = _shot_round(spec, model, targets, spec["shots"], spec["seed"], feats)
            if t1 is None:
                raise Reject(f"{method} + fill-shots refused with DeviceError (documented)")
            bad = [k for k, (p, _) in t1.items() if p < ALPHA]
            if bad:
                labels.append("second-stage")
                t2 = _shot_round(spec, model, targets, 4 * spec["shots"], _seed2(spec), feats)
                for k in bad:
                    if k in t2 and t2[k][0] < ALPHA:
                        what = "number of valid shots" if k == "n_valid" else json.dumps(spec["meas"][int(k[4:])], sort_keys=True)
                        mpn = "n_valid" if k == "n_valid" else spec["meas"][int(k[4:])]["mp"]
                        raise Viol("shots-distribution" if k != "n_valid" else "valid-shot-count",
                                   f"{method}/{pm}: {what}: stage 1 (shots={spec['shots']}): {t1[k][1]}; stage 2 (shots={4 * spec['shots']}): {t2[k][1]}",
                                   sig=f"{_sigbase(feats)}:{pm}:{mpn}", features={**feats, "mp": mpn})
        except Viol as v:
            viols.append(v)
    if viols:
        # one violation per case can be reported: value violations before crashes before shape violations, and anything
        # outside the separately bucketed shape (tree-traversal with a postselection after a measurement) first
        rank = {"analytic-value": 0, "shots-distribution": 0, "valid-shot-count": 0, "unexpected-exception": 1}
        viols.sort(key=lambda v: (bool(v.features.get("method") == "tree-traversal" and v.features.get("postselect_after_mcm")), rank.get(v.clause, 2)))
        raise viols[0]
    return Result(varying >= 1, labels)


def selftest():
    dyn2.selftest()
    stt.selftest()
