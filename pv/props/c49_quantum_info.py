"""C49 — quantum-information functions match their definitions."""
import numpy as np
from hypothesis import strategies as st

from pv.cmp import close, maxdiff, to_np
from pv.engine import Reject, Result, Viol
from pv.ref import qinfo

ID = "C49"
TECHNIQUE = ("hypothesis-chosen state families / index subsets / batch shapes / wire orders with seeded numpy state "
             "construction, compared with plain-numpy definitions (index contraction, nuclear norms, eigenvalue formulas)")
RULE = (
    "Five case kinds. reduce: reduce_dm / partial_trace / reduce_statevector / dm_from_state_vector on 1-5 qubit states "
    "(Haar, basis, GHZ, sparse, Ginibre rank r, U diag(p) U^+ with exact zeros and degeneracies, diagonal, maximally mixed, "
    "product, real symmetric; partial_trace also on arbitrary complex matrices), unbatched or batch 1-3, ordered index subsets, "
    "numpy/autograd/jax/torch inputs, complex128/complex64, check_state on valid states; oracle = explicit einsum contraction "
    "(self-tested against a bit-string sum), 1e-12 (1e-5 for complex64). dist: fidelity and trace_distance on (batched) pairs; "
    "oracle = squared nuclear norm of sqrt(rho)sqrt(sigma), |<psi|phi>|^2 and <psi|sigma|psi> for pure inputs, half nuclear norm of "
    "rho-sigma, symmetry, bounds, T(rho,rho)=0, triangle inequality, Fuchs-van-de-Graaf; tolerance 1e-9 for full-rank pairs, 5e-6 when a "
    "state is rank-deficient (sqrt of eps-sized eigenvalues). ent: vn_entropy / max_entropy / min_entropy / purity / mutual_info / "
    "vn_entanglement_entropy vs eigenvalue formulas of the reference reduced state, bounds 0<=S_min<=S<=S_max<=log d, I>=0, 1e-9. "
    "rel: relative_entropy vs tr rho(log rho - log sigma) with +inf iff supp(rho) not in supp(sigma), >=0, 0 for equal states. "
    "expand: expand_matrix of dense (all interfaces, batch 1-3) and scipy-sparse matrices for mixed-type wire labels vs entrywise "
    "re-indexing. Non-trivial: >=2 qubits with a proper subset or non-identity permutation (reduce/ent/expand), two different "
    "states (dist/rel)."
)
ASSUMPTIONS = [
    "State data are produced by numpy's PCG64 from a Hypothesis-drawn seed, so a spec determines the case exactly.",
    "max_entropy has a documented-in-code rank threshold 1e-8: cases whose reference spectrum has an eigenvalue in (1e-11,1e-5) skip that clause.",
    "fidelity is only compared at 5e-6 when a state is rank-deficient: sqrt of O(eps) eigenvalues limits any eigenvalue-based formula to ~sqrt(eps).",
    "check_state=True is only combined with complex128 (its 1e-10 trace test cannot pass after a complex64 cast).",
    "expand_matrix with empty `wires` is not described by the docstring and is not generated.",
]
BUDGET = {"quick": {"examples": 1500}, "thorough": {"examples": 100000, "shards": 16}}
SHRINK_LISTS = ("states", "a", "b")

PURE = ("haar", "basis", "ghz", "sparse")
IFACES = ("numpy", "numpy", "numpy", "autograd", "jax", "torch")
BASES = (None, None, 2, 3, 10, 1.5)


def _state(n, kinds=qinfo.KINDS):
    return st.fixed_dictionaries({"t": st.sampled_from(kinds), "n": st.just(n), "seed": st.integers(0, 2 ** 31),
                                  "rank": st.integers(1, 2 ** n)})


def _states(n, kinds=qinfo.KINDS):
    """(batched?, list of states): unbatched single, or a batch of 1..3."""
    return st.one_of(
        st.tuples(st.just(False), st.lists(_state(n, kinds), min_size=1, max_size=1)),
        st.tuples(st.just(True), st.lists(_state(n, kinds), min_size=1, max_size=3)))


def _subset(n, lo=0):
    return st.permutations(list(range(n))).flatmap(lambda p: st.integers(lo, n).map(lambda k: list(p)[:k]))


def _nq(tier):
    return st.sampled_from([1, 2, 2, 3, 3, 3, 4, 4, 5] if tier == "thorough" else [1, 2, 2, 3, 3, 3, 4, 4, 4, 5])


@st.composite
def _reduce(draw, tier):
    n = draw(_nq(tier))
    fn = draw(st.sampled_from(["reduce_dm", "reduce_dm", "partial_trace", "partial_trace", "reduce_statevector",
                               "dm_from_state_vector"]))
    pure = fn in ("reduce_statevector", "dm_from_state_vector")
    batched, states = draw(_states(n, PURE if pure else qinfo.KINDS))
    c64 = draw(st.integers(0, 5)) == 0
    return {"kind": "reduce", "fn": fn, "batched": batched, "states": states,
            "indices": draw(_subset(n, 0 if fn == "partial_trace" else 1)),
            "iface": draw(st.sampled_from(IFACES)), "c64": c64,
            "check": (not c64) and fn != "partial_trace" and draw(st.booleans()),
            "general": fn == "partial_trace" and draw(st.booleans())}


@st.composite
def _dist(draw, tier):
    n = draw(_nq(tier))
    ba, A = draw(_states(n))
    bb, B = draw(_states(n))
    if ba and bb:
        k = min(len(A), len(B))
        A, B = A[:k], B[:k]
    if draw(st.integers(0, 7)) == 0:
        B = [dict(x) for x in A]
        bb = ba
    return {"kind": "dist", "a": A, "b": B, "ba": ba, "bb": bb, "c": draw(_state(n)), "check": draw(st.booleans())}


@st.composite
def _ent(draw, tier):
    n = draw(_nq(tier))
    batched, states = draw(_states(n))
    perm = draw(st.permutations(list(range(n))))
    k0 = draw(st.integers(1, n))
    k1 = draw(st.integers(0, n - k0))
    return {"kind": "ent", "batched": batched, "states": states, "indices": list(perm[:k0]),
            "indices1": list(perm[k0:k0 + k1]), "base": draw(st.sampled_from(BASES)), "check": draw(st.booleans())}


@st.composite
def _rel(draw, tier):
    n = draw(st.sampled_from([1, 1, 2, 2, 3, 4]))
    mode = draw(st.sampled_from(["indep", "indep", "same", "nested", "nested-diag"]))
    d = 2 ** n
    r0 = draw(st.integers(1, d))
    r1 = draw(st.integers(r0, d))
    out = {"kind": "rel", "mode": mode, "n": n, "seed": draw(st.integers(0, 2 ** 31)), "r0": r0, "r1": r1,
           "base": draw(st.sampled_from(BASES)), "swap": draw(st.booleans()), "batch": draw(st.sampled_from([0, 0, 1, 2])),
           "a": draw(_state(n)), "b": draw(_state(n))}
    return out


LABEL_POOLS = [[0, 1, 2, 3, 4, 5], ["a", "b", "c", "d", "e", "f"], [3, "x", 0, "q1", 7, 2], [5, 4, 3, 2, 1, 0]]


@st.composite
def _expand(draw, tier):
    N = draw(st.integers(1, 6 if tier == "thorough" else 5))
    order = list(draw(st.permutations(draw(st.sampled_from(LABEL_POOLS))[:N])))
    k = draw(st.integers(1, min(N, 3)))
    wires = list(draw(st.permutations(order)))[:k]
    fmt = draw(st.sampled_from(["dense", "dense", "dense", "csr", "csc", "coo"]))
    return {"kind": "expand", "order": order, "wires": wires, "fmt": fmt,
            "batch": draw(st.sampled_from([0, 0, 0, 1, 2, 3])) if fmt == "dense" else 0,
            "iface": draw(st.sampled_from(IFACES)) if fmt == "dense" else "scipy",
            "fill": draw(st.sampled_from(["complex", "real", "int", "sparse"])), "seed": draw(st.integers(0, 2 ** 31)),
            "int_wire": k == 1 and isinstance(wires[0], int) and draw(st.booleans()),
            "order_mode": draw(st.sampled_from(["given", "given", "given", "given", "none", "same", "tuple"]))}


def strategy(tier):
    return st.one_of(_reduce(tier), _reduce(tier), _dist(tier), _ent(tier), _ent(tier), _rel(tier), _expand(tier), _expand(tier))


def enumerate_cases(tier):
    """Finite sub-domain run in full: every ordered index subset of a 3-qubit state for every reduction function."""
    import itertools
    for fn in ("reduce_dm", "partial_trace", "reduce_statevector"):
        for k in range(0 if fn == "partial_trace" else 1, 4):
            for idx in itertools.permutations(range(3), k):
                for batched in (False, True):
                    t = "haar" if fn == "reduce_statevector" else "ginibre"
                    yield {"kind": "reduce", "fn": fn, "batched": batched,
                           "states": [{"t": t, "n": 3, "seed": 11 + i, "rank": 3} for i in range(2 if batched else 1)],
                           "indices": list(idx), "iface": "numpy", "c64": False, "check": False, "general": False}
    # every ordered 3-subset of a 4-qubit state: the smallest size at which a proper subset can be requested in an
    # order whose sorting permutation is not its own inverse (argsort vs. rank mix-ups are invisible below that)
    for fn in ("reduce_dm", "reduce_statevector", "partial_trace"):
        for idx in itertools.permutations(range(4), 3 if fn != "partial_trace" else 1):
            t = "haar" if fn == "reduce_statevector" else "ginibre"
            yield {"kind": "reduce", "fn": fn, "batched": False, "states": [{"t": t, "n": 4, "seed": 23, "rank": 4}],
                   "indices": list(idx), "iface": "numpy", "c64": False, "check": False, "general": False}
    for wires in itertools.permutations(["a", 0, "b"], 2):
        for order in itertools.permutations(["a", 0, "b", 1]):
            yield {"kind": "expand", "order": list(order), "wires": list(wires), "fmt": "dense", "batch": 0, "iface": "numpy",
                   "fill": "complex", "seed": 3, "int_wire": False, "order_mode": "given"}


# ------------------------------------------------------------------------------------------------ helpers

def _to_iface(x, iface):
    if iface == "numpy":
        return x
    if iface == "autograd":
        from pennylane import numpy as pnp
        return pnp.array(x, requires_grad=False)
    if iface == "jax":
        import jax.numpy as jnp
        return jnp.array(x)
    if iface == "torch":
        import torch
        return torch.tensor(x)
    raise ValueError(iface)


def _stack(mats, batched):
    return np.stack(mats) if batched else mats[0]


def _per(res, batched, count, what, sig):
    """Normalise a (possibly batched) scalar result to a 1-d float array of length count."""
    r = np.asarray(to_np(res))
    want = (count,) if batched else ()
    if r.shape != want:
        raise Viol("shape", f"{what}: result shape {r.shape}, expected {want}", sig=sig + ":shape",
                   features={"fn": sig, "batched": batched})
    if np.iscomplexobj(r):
        if np.abs(r.imag).max(initial=0) > 1e-12:
            raise Viol("complex-result", f"{what}: {r}", sig=sig)
        r = r.real
    return np.atleast_1d(r).astype(float)


def _eq(got, exp, tol, clause, detail, sig, feats=None):
    got, exp = np.asarray(got), np.asarray(exp)
    if got.shape != exp.shape:
        raise Viol(clause + "-shape", f"{detail}: shape {got.shape} vs {exp.shape}", sig=sig + ":shape", features=feats)
    fin = np.isfinite(exp)
    ok = np.array_equal(fin, np.isfinite(got)) and np.array_equal(got[~fin], exp[~fin]) and close(got[fin], exp[fin], tol)
    if not ok:
        raise Viol(clause, f"{detail}: got {np.round(got, 12).tolist() if got.size < 9 else maxdiff(got, exp)} expected "
                           f"{np.round(exp, 12).tolist() if exp.size < 9 else ''}", sig=sig, features=feats)


# ------------------------------------------------------------------------------------------------ kinds

def _check_reduce(spec):
    import pennylane as qp

    fn, idx, batched = spec["fn"], spec["indices"], spec["batched"]
    built = [qinfo.build_state(s) for s in spec["states"]]
    n = spec["states"][0]["n"]
    mats = [b["rho"] for b in built]
    if spec["general"]:
        rng = np.random.default_rng(spec["states"][0]["seed"])
        mats = [rng.normal(size=m.shape) + 1j * rng.normal(size=m.shape) for m in mats]
    if spec["states"][0]["t"] == "realsym" and not spec["general"]:
        mats = [np.real(m) for m in mats]
    kw = {"c_dtype": "complex64"} if spec["c64"] else {}
    tol = 2e-5 if spec["c64"] else 1e-12
    if fn in ("reduce_statevector", "dm_from_state_vector"):
        x = _stack([b["psi"] for b in built], batched)
    else:
        x = _stack(mats, batched)
    x = _to_iface(x, spec["iface"])
    if fn == "reduce_dm":
        got = qp.math.reduce_dm(x, idx, check_state=spec["check"], **kw)
        exp = [qinfo.reduce(m, idx) for m in mats]
    elif fn == "partial_trace":
        got = qp.math.partial_trace(x, idx, **kw)
        keep = [i for i in range(n) if i not in idx]
        exp = [qinfo.reduce(m, keep) for m in mats]
    elif fn == "reduce_statevector":
        got = qp.math.reduce_statevector(x, idx, check_state=spec["check"], **kw)
        exp = [qinfo.reduce(m, idx) for m in mats]
    else:
        got = qp.math.dm_from_state_vector(x, check_state=spec["check"], **kw)
        exp = mats
        idx = list(range(n))
    feats = {"fn": fn, "iface": spec["iface"], "batched": batched, "batch": len(mats) if batched else 0}
    if qp.math.get_interface(got) != spec["iface"]:
        raise Viol("interface", f"{fn}: {spec['iface']} input gave {type(got).__name__}", sig=fn + ":iface", features=feats)
    g = np.asarray(to_np(got))
    want_dtype = np.complex64 if spec["c64"] else np.complex128
    if g.dtype != want_dtype:
        raise Viol("dtype", f"{fn}: result dtype {g.dtype}, c_dtype asks {want_dtype.__name__}", sig=fn + ":dtype", features=feats)
    _eq(g, _stack(exp, batched), tol, "contraction", f"{fn} indices={spec['indices']} n={n} iface={spec['iface']}", fn, feats)
    if fn == "partial_trace":
        nontriv = n >= 2 and 1 <= len(idx) < n
    else:
        nontriv = n >= 2 and (len(idx) < n or idx != sorted(idx))
    labels = [fn, f"{fn}:{spec['iface']}", "batched" if batched else "single", f"n={n}", f"keep={len(idx)}"]
    if idx != sorted(idx):
        labels.append("permuted-indices")
    return Result(nontriv, labels)


def _check_dist(spec):
    import pennylane as qp

    A = [qinfo.build_state(s) for s in spec["a"]]
    B = [qinfo.build_state(s) for s in spec["b"]]
    C = qinfo.build_state(spec["c"])
    ba, bb = spec["ba"], spec["bb"]
    n = spec["c"]["n"]
    d = 2 ** n
    count = max(len(A), len(B))
    pairs = [(A[i if ba else 0], B[i if bb else 0]) for i in range(count)]
    xa, xb = _stack([s["rho"] for s in A], ba), _stack([s["rho"] for s in B], bb)
    batched = ba or bb
    ck = spec["check"]
    deficient = any(min(p["rank"], q["rank"]) < d for p, q in pairs)
    ftol = 5e-6 if deficient else 1e-9
    feats = {"fn": "fidelity", "batched": batched}

    F = _per(qp.math.fidelity(xa, xb, check_state=ck), batched, count, "fidelity", "fidelity")
    Fr = _per(qp.math.fidelity(xb, xa, check_state=ck), batched, count, "fidelity", "fidelity")
    expF = np.array([qinfo.fidelity(p["rho"], q["rho"]) for p, q in pairs])
    _eq(F, expF, ftol, "fidelity-definition", f"fidelity n={n}", "fidelity", feats)
    _eq(Fr, F, ftol, "fidelity-symmetry", "F(a,b) vs F(b,a)", "fidelity", feats)
    if F.min() < -ftol or F.max() > 1 + ftol:
        raise Viol("fidelity-bounds", f"{F}", sig="fidelity", features=feats)
    for i, (p, q) in enumerate(pairs):
        if p["psi"] is not None and q["psi"] is not None:
            ov = abs(np.vdot(p["psi"], q["psi"])) ** 2
            _eq(F[i], ov, ftol, "fidelity-pure", "|<psi|phi>|^2", "fidelity", feats)
        elif p["psi"] is not None:
            _eq(F[i], np.real(np.vdot(p["psi"], q["rho"] @ p["psi"])), ftol, "fidelity-pure-mixed", "<psi|sigma|psi>", "fidelity", feats)
    if all(p["psi"] is not None and q["psi"] is not None for p, q in pairs):
        va, vb = _stack([s["psi"] for s in A], ba), _stack([s["psi"] for s in B], bb)
        Fs = _per(qp.math.fidelity_statevector(va, vb, check_state=ck), batched, count, "fidelity_statevector", "fidelity_statevector")
        _eq(Fs, np.array([abs(np.vdot(p["psi"], q["psi"])) ** 2 for p, q in pairs]), 1e-12, "fidelity_statevector", "overlap",
            "fidelity_statevector")

    feats = {"fn": "trace_distance", "batched": batched}
    T = _per(qp.math.trace_distance(xa, xb, check_state=ck), batched, count, "trace_distance", "trace_distance")
    Tr = _per(qp.math.trace_distance(xb, xa, check_state=ck), batched, count, "trace_distance", "trace_distance")
    expT = np.array([qinfo.trace_distance(p["rho"], q["rho"]) for p, q in pairs])
    _eq(T, expT, 1e-10, "trace-distance-definition", f"n={n}", "trace_distance", feats)
    _eq(Tr, T, 1e-12, "trace-distance-symmetry", "", "trace_distance", feats)
    Taa = _per(qp.math.trace_distance(xa, xa), ba, len(A), "trace_distance", "trace_distance")
    _eq(Taa, np.zeros(len(A)), 1e-12, "trace-distance-identity", "T(a,a)", "trace_distance", feats)
    Tac = _per(qp.math.trace_distance(xa, C["rho"]), ba, len(A), "trace_distance", "trace_distance")
    Tcb = _per(qp.math.trace_distance(C["rho"], xb), bb, len(B), "trace_distance", "trace_distance")
    if np.any(T > Tac + Tcb + 1e-10) or T.min() < -1e-12 or T.max() > 1 + 1e-10:
        raise Viol("trace-distance-metric", f"T={T} Tac={Tac} Tcb={Tcb}", sig="trace_distance", features=feats)
    sq = np.sqrt(np.clip(F, 0, 1))
    if np.any(T > np.sqrt(np.clip(1 - F, 0, None)) + 1e-5) or np.any(T < 1 - sq - 1e-5):
        raise Viol("fuchs-van-de-graaf", f"T={T} F={F}", sig="fidelity-vs-trace-distance")
    different = any(maxdiff(p["rho"], q["rho"]) > 1e-6 for p, q in pairs)
    labels = ["dist", "dist:deficient" if deficient else "dist:full-rank", "dist:batched" if batched else "dist:single", f"n={n}"]
    if not different:
        labels.append("dist:equal-states")
    return Result(different, labels)


def _check_ent(spec):
    import pennylane as qp

    built = [qinfo.build_state(s) for s in spec["states"]]
    batched, idx, idx1, base, ck = spec["batched"], spec["indices"], spec["indices1"], spec["base"], spec["check"]
    n = spec["states"][0]["n"]
    x = _stack([b["rho"] for b in built], batched)
    cnt = len(built)
    logb = (lambda v: np.log(v) / np.log(base)) if base else np.log
    specs_ = [qinfo.spectrum_of(qinfo.reduce(b["rho"], idx)) for b in built]
    dA = 2 ** len(idx)
    labels = ["ent", "ent:batched" if batched else "ent:single", f"n={n}", f"base={base}"]

    def run(name, *a, **k):
        res = getattr(qp.math, name)(x, *a, check_state=ck, **k)
        return _per(res, batched, cnt, name, name)

    S = run("vn_entropy", idx, base=base)
    expS = np.array([qinfo.entropy_from(e, base) for e in specs_])
    _eq(S, expS, 1e-9, "vn-entropy", f"indices={idx} base={base}", "vn_entropy", {"fn": "vn_entropy", "batched": batched})
    ambiguous = any(np.any((e > 1e-11) & (e < 1e-5)) for e in specs_)
    Smax = None
    if ambiguous:
        labels.append("ent:rank-ambiguous")
    else:
        Smax = run("max_entropy", idx, base=base)
        _eq(Smax, np.array([logb(float((e > 1e-8).sum())) for e in specs_]), 1e-9, "max-entropy", f"indices={idx}", "max_entropy",
            {"fn": "max_entropy", "batched": batched})
    P = run("purity", idx)
    _eq(P, np.array([float((e ** 2).sum()) for e in specs_]), 1e-10, "purity", f"indices={idx}", "purity", {"fn": "purity", "batched": batched})
    hi = logb(dA)
    if S.min() < -1e-9 or S.max() > hi + 1e-9 or (Smax is not None and np.any(S > Smax + 1e-9)) \
            or P.min() < 1 / dA - 1e-10 or P.max() > 1 + 1e-10:
        raise Viol("entropy-bounds", f"S={S} Smax={Smax} log d={hi} purity={P}", sig="entropy-bounds")
    if idx1:
        I = run("mutual_info", idx, idx1, base=base)
        e1 = [qinfo.spectrum_of(qinfo.reduce(b["rho"], idx1)) for b in built]
        e01 = [qinfo.spectrum_of(qinfo.reduce(b["rho"], idx + idx1)) for b in built]
        expI = np.array([qinfo.entropy_from(a, base) + qinfo.entropy_from(b, base) - qinfo.entropy_from(c, base)
                         for a, b, c in zip(specs_, e1, e01)])
        _eq(I, expI, 1e-9, "mutual-info", f"{idx}|{idx1} base={base}", "mutual_info", {"fn": "mutual_info", "batched": batched})
        I2 = run("mutual_info", idx1, idx, base=base)
        _eq(I2, I, 1e-10, "mutual-info-symmetry", f"{idx}|{idx1}", "mutual_info")
        if I.min() < -1e-9:
            raise Viol("mutual-info-negative", f"{I}", sig="mutual_info")
        labels.append("ent:mutual-info")
        if all(b["psi"] is not None for b in built) and len(idx) + len(idx1) == n:
            E0 = run("vn_entanglement_entropy", idx, idx1, base=base)
            E1 = run("vn_entanglement_entropy", idx1, idx, base=base)
            _eq(E0, expS, 1e-9, "entanglement-entropy", f"{idx}|{idx1}", "vn_entanglement_entropy")
            _eq(E1, E0, 1e-9, "entanglement-entropy-symmetry", f"{idx}|{idx1}", "vn_entanglement_entropy")
            labels.append("ent:entanglement")
    # min_entropy last, so that a failure there does not hide the other clauses of the case
    Smin = run("min_entropy", idx, base=base)
    _eq(Smin, np.array([-logb(e.max()) for e in specs_]), 1e-9, "min-entropy", f"indices={idx} base={base}", "min_entropy",
        {"fn": "min_entropy", "batched": batched})
    if Smin.min() < -1e-9 or np.any(Smin > S + 1e-9):
        raise Viol("entropy-bounds", f"Smin={Smin} S={S}", sig="entropy-bounds")
    mixed_sub = any(e[1] > 1e-6 for e in specs_ if len(e) > 1)
    if mixed_sub:
        labels.append("ent:mixed-subsystem")
    return Result(n >= 2 and (len(idx) < n or idx != sorted(idx)) and mixed_sub, labels)


def _rel_states(spec):
    mode, n = spec["mode"], spec["n"]
    d = 2 ** n
    if mode == "indep":
        a, b = qinfo.build_state(spec["a"]), qinfo.build_state(spec["b"])
        return a["rho"], b["rho"], min(a["rank"], b["rank"]) < d
    if mode == "same":
        a = qinfo.build_state(spec["a"])
        return a["rho"], a["rho"].copy(), a["rank"] < d
    rng = np.random.default_rng(spec["seed"])
    r0, r1 = min(spec["r0"], d), min(spec["r1"], d)
    p, q = qinfo.spectrum(rng, d, r0), qinfo.spectrum(rng, d, r1)
    if mode == "nested-diag":
        perm = rng.permutation(d)
        rho, sig = np.diag(p[perm]).astype(complex), np.diag(q[perm]).astype(complex)
    else:
        U = qinfo.haar_unitary(rng, d)
        rho, sig = (U * p) @ U.conj().T, (U * q) @ U.conj().T
    if spec["swap"]:
        rho, sig = sig, rho
    return rho, sig, min(r0, r1) < d


def _check_rel(spec):
    import pennylane as qp

    rho, sig, deficient = _rel_states(spec)
    base, nb = spec["base"], spec["batch"]
    exp, status = qinfo.relative_entropy(rho, sig, base)
    if status == "ambiguous":
        raise Reject("support relation numerically ambiguous")
    diag = spec["mode"] == "nested-diag"
    feats = {"fn": "relative_entropy", "deficient": deficient, "diagonal": diag, "expected": status}
    sig_ = "relative_entropy:" + ("full-rank" if not deficient else "deficient-diagonal" if diag else "deficient")
    if nb:
        extra = [qinfo.build_state({"t": "spectrum", "n": spec["n"], "seed": spec["seed"] + i, "rank": 2 ** spec["n"]})["rho"]
                 for i in range(nb - 1)]
        x0 = np.stack([rho] + extra)
        exps = np.array([exp] + [qinfo.relative_entropy(e, sig, base)[0] for e in extra], dtype=float)
        if any(v is None for v in exps):
            raise Reject("support relation numerically ambiguous")
        got = _per(qp.math.relative_entropy(x0, sig, base=base), True, nb, "relative_entropy", sig_)
    else:
        exps = np.array([exp], dtype=float)
        got = _per(qp.math.relative_entropy(rho, sig, base=base, check_state=True), False, 1, "relative_entropy", sig_)
    _eq(got, exps, 1e-8, "relative-entropy", f"mode={spec['mode']} n={spec['n']} base={base} expected={status}", sig_, feats)
    if np.any(got < -1e-9):
        raise Viol("relative-entropy-negative", f"{got}", sig=sig_, features=feats)
    labels = ["rel", "rel:" + spec["mode"], "rel:" + status, "rel:deficient" if deficient else "rel:full-rank"]
    return Result(spec["mode"] != "same", labels)


def _check_expand(spec):
    import pennylane as qp
    from scipy import sparse

    order, wires, fmt, nb = spec["order"], spec["wires"], spec["fmt"], spec["batch"]
    k = len(wires)
    rng = np.random.default_rng(spec["seed"])
    shape = (max(nb, 1), 2 ** k, 2 ** k)
    fill = spec["fill"]
    if fill == "complex":
        M = rng.normal(size=shape) + 1j * rng.normal(size=shape)
    elif fill == "real":
        M = rng.normal(size=shape)
    elif fill == "int":
        M = rng.integers(-3, 4, size=shape)
    else:
        M = rng.normal(size=shape) * (rng.uniform(size=shape) < 0.35)
    mode = spec["order_mode"]
    if mode == "none":
        wo, eff = None, list(wires)
    elif mode == "same":
        wo, eff = list(wires), list(wires)
    elif mode == "tuple":
        wo, eff = tuple(order), order
    else:
        wo, eff = list(order), order
    warg = wires[0] if spec["int_wire"] else list(wires)
    exp = np.stack([qinfo.expand(m, wires, eff) for m in M])
    feats = {"fn": "expand_matrix", "fmt": fmt, "batch": nb, "iface": spec["iface"]}
    if fmt != "dense":
        x = getattr(sparse, fmt + "_matrix")(M[0])
        got = qp.math.expand_matrix(x, warg, wire_order=wo, sparse_format=fmt)
        if not sparse.issparse(got):
            raise Viol("expand-sparse-type", f"sparse input gave {type(got).__name__}", sig="expand_matrix:sparse", features=feats)
        if got.format != fmt and eff is order and order != wires:
            raise Viol("expand-sparse-format", f"asked {fmt}, got {got.format}", sig="expand_matrix:sparse", features=feats)
        g = np.asarray(got.toarray())[None]
        sig_ = "expand_matrix:sparse"
    else:
        x = _to_iface(M if nb else M[0], spec["iface"])
        got = qp.math.expand_matrix(x, warg, wire_order=wo)
        if qp.math.get_interface(got) != spec["iface"]:
            raise Viol("interface", f"expand_matrix: {spec['iface']} input gave {type(got).__name__}", sig="expand_matrix:iface", features=feats)
        g = np.asarray(to_np(got))
        want = exp.shape if nb else exp.shape[1:]
        if g.shape != want:
            raise Viol("expand-shape", f"input {tuple(np.shape(M if nb else M[0]))} wires={wires} order={wo}: result shape {g.shape}, expected {want}",
                       sig=f"expand_matrix:shape:batch{'1' if nb == 1 else 'N' if nb else '0'}", features=feats)
        g = g if nb else g[None]
        sig_ = "expand_matrix:dense"
    _eq(g, exp, 1e-12, "expand-entries", f"wires={wires} order={wo} fmt={fmt} batch={nb}", sig_, feats)
    labels = ["expand", f"expand:{fmt}", f"expand:{spec['iface']}", f"expand:batch{nb}", f"expand:{mode}", f"expand:N={len(eff)},k={k}"]
    return Result(len(eff) >= 2 and list(eff) != list(wires), labels)


def check(spec):
    return {"reduce": _check_reduce, "dist": _check_dist, "ent": _check_ent, "rel": _check_rel, "expand": _check_expand}[spec["kind"]](spec)


def selftest():
    qinfo.selftest()
