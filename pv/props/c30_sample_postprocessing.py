"""C30 — sample post-processing (process_samples / process_counts) is exact arithmetic on the given samples."""
import itertools
from collections import Counter

import numpy as np
from hypothesis import strategies as st

from pv.cmp import close
from pv.engine import Reject, Result, Viol

ID = "C30"
TECHNIQUE = ("hypothesis-generated 0/1 sample arrays, wire orders and measurement processes; row-by-row reference "
             "(bit lookup -> eigenvalue table -> mean / population variance / histogram / Counter)")
RULE = (
    "Sample arrays: 1-5 wires with int/str/mixed labels, 1-200 shots (explicit row lists or seeded uniform/biased/constant rows), "
    "optional batch axis of 1-3, optional shot_range, wire_order as list or Wires. Measurement processes expval / var / sample / "
    "counts(all_outcomes) / probs on: ordered wire subsets or no wires (= all wires), Pauli/Hadamard/Identity words built with @ or "
    "qp.prod and optional scalar coefficient, Hermitian with ascending diagonal, explicit eigvals= tables (int/float, degenerate), "
    "mid-circuit MeasurementValues combined with + - * == < >= & | ^ ~ and scalars (measurement ids not aligned with wire order), and "
    "lists of MeasurementValues. Mode 'samples' calls mp.process_samples(samples, wire_order[, shot_range]); mode 'counts' calls "
    "mp.process_counts(Counter of the same rows, optionally with zero-count entries, wire_order). Oracle: for every row read the bits "
    "of the measured wires in the measurement's wire order, look up the eigenvalue in a table written from the definition "
    "(c * prod(1-2b) for words, table[index] otherwise, direct evaluation of the expression for MeasurementValues), then mean, "
    "population variance, histogram/shots, Counter (exact key sets: zero-count keys iff all_outcomes), raw columns; 1e-12. bin_size is "
    "checked only partition-agnostically for expval/probs (number of bins; average over bins = overall statistic). "
    "Non-trivial: >=2 distinct rows and the measured wires are a proper subset or a non-identity permutation of wire_order."
)
ASSUMPTIONS = [
    "Samples are int64 0/1 numpy arrays as produced by the devices; other interfaces are out of scope here.",
    "For observables the samples are taken to be in the observable's eigenbasis (that is what devices pass after the diagonalizing gates).",
    "Hermitian observables only with strictly ascending diagonal (the eigenvalue order of Hermitian is otherwise not documented).",
    "bin_size: the assignment of shots to bins is not documented (expval uses interleaved, probs contiguous bins), only partition-independent facts are asserted.",
    "Arithmetic on boolean-valued MeasurementValues is not generated (numpy bool + bool is a logical or).",
    "Large sample arrays come from numpy's PCG64 with a Hypothesis-drawn seed.",
    "process_counts is only called on measurements with explicit wires / observables: its only caller (measurements_from_counts) rejects wire-less measurements.",
]
BUDGET = {"quick": {"examples": 3000}, "thorough": {"examples": 300000, "shards": 16}}
SHRINK_LISTS = ("rows",)

POOLS = [[0, 1, 2, 3, 4], ["a", "b", "c", "d", "e"], [3, "x", 0, "q1", 7], [4, 3, 2, 1, 0], [10, -1, "w", 5, "aux"]]
LETTERS = "ZZZXYHI"


def _rows(n, tier):
    big = 200 if tier == "thorough" else 120
    explicit = st.lists(st.integers(0, 2 ** n - 1), min_size=1, max_size=24)
    seeded = st.fixed_dictionaries({"seed": st.integers(0, 2 ** 31), "shots": st.integers(1, big),
                                    "bias": st.sampled_from(["uniform", "uniform", "mostly0", "mostly1", "two", "constant"])})
    return st.one_of(explicit, explicit, seeded)


def _subset(order, lo=1, hi=None):
    hi = len(order) if hi is None else min(hi, len(order))
    return st.permutations(order).flatmap(lambda p: st.integers(lo, hi).map(lambda k: list(p)[:k]))


_const = st.sampled_from([-2, -1, 2, 3, 0.5, 1.5])


def _arith(k, depth=2):
    leaf = st.integers(0, k - 1).map(lambda i: ["m", i])
    if depth == 0:
        return leaf
    sub = _arith(k, depth - 1)
    return st.one_of(leaf, leaf,
                     st.tuples(st.sampled_from(["+", "-", "*"]), sub, st.one_of(sub, _const.map(lambda c: ["c", c]))).map(list),
                     st.tuples(st.sampled_from(["+", "-", "*"]), _const.map(lambda c: ["c", c]), sub).map(list))


def _mv_expr(k):
    a = _arith(k)
    leaf = st.integers(0, k - 1).map(lambda i: ["m", i])
    return st.one_of(a, a,
                     st.tuples(st.sampled_from(["==", "<", ">=", "!=", ">", "<="]), a, st.one_of(a, _const.map(lambda c: ["c", c]))).map(list),
                     st.tuples(st.sampled_from(["&", "|", "^"]), leaf, leaf).map(list),
                     leaf.map(lambda x: ["~", x]))


@st.composite
def _target(draw, order, mp):
    kinds = {"expval": ["word", "word", "herm", "eigvals", "mv"], "var": ["word", "word", "herm", "eigvals", "mv"],
             "sample": ["wires", "none", "word", "herm", "eigvals", "mv", "mvlist"],
             "counts": ["wires", "wires", "none", "word", "herm", "eigvals", "mv", "mvlist"],
             "probs": ["wires", "wires", "none", "word", "mv1", "mvlist"]}[mp]
    kind = draw(st.sampled_from(kinds))
    if kind == "none":
        return {"kind": "none"}
    if kind == "herm":
        w = draw(_subset(order, 1, 2))
        steps = draw(st.lists(st.sampled_from([0.25, 0.5, 1.0, 1.75, 3.0]), min_size=2 ** len(w), max_size=2 ** len(w)))
        start = draw(st.sampled_from([-3.0, -1.0, 0.0, 0.5]))
        return {"kind": "herm", "w": w, "diag": [float(x) for x in np.cumsum([start] + steps[1:])]}
    if kind == "eigvals":
        w = draw(_subset(order, 1, 3))
        ev = draw(st.one_of(st.lists(st.integers(-3, 3), min_size=2 ** len(w), max_size=2 ** len(w)),
                            st.lists(st.sampled_from([-2.5, -1.0, 0.0, 0.25, 1.0, 1.0, 3.5]), min_size=2 ** len(w), max_size=2 ** len(w))))
        return {"kind": "eigvals", "w": w, "ev": ev}
    w = draw(_subset(order, 1, 4))
    if kind == "wires":
        return {"kind": "wires", "w": w, "as_int": len(w) == 1 and draw(st.booleans())}
    if kind == "word":
        return {"kind": "word", "w": w, "letters": "".join(draw(st.lists(st.sampled_from(LETTERS), min_size=len(w), max_size=len(w)))),
                "style": draw(st.sampled_from(["matmul", "prod"])), "c": draw(st.one_of(st.none(), st.none(), _const))}
    uids = draw(st.permutations(list(range(len(w)))))
    if kind == "mv1":
        return {"kind": "mv", "w": w[:1], "uids": [0], "expr": ["m", 0]}
    if kind == "mvlist":
        return {"kind": "mvlist", "w": w, "uids": list(uids)}
    return {"kind": "mv", "w": w, "uids": list(uids), "expr": draw(_mv_expr(len(w)))}


@st.composite
def _case(draw, tier):
    n = draw(st.sampled_from([1, 2, 2, 3, 3, 3, 4, 4, 5]))
    order = list(draw(st.permutations(draw(st.sampled_from(POOLS))[:n])))
    mp = draw(st.sampled_from(["expval", "var", "sample", "counts", "counts", "probs", "probs"]))
    mode = draw(st.sampled_from(["samples", "samples", "samples", "counts"]))
    nb = draw(st.sampled_from([0, 0, 0, 0, 0, 0, 1, 2, 2, 3, 3])) if mode == "samples" else 0
    batch = [draw(_rows(n, tier)) for _ in range(max(nb, 1))]
    target = draw(_target(order, mp))
    if mode == "counts" and target["kind"] == "none":
        # the only caller of process_counts (measurements_from_counts) rejects measurements without wires
        target = {"kind": "wires", "w": list(order), "as_int": False}
    spec = {"mode": mode, "order": order, "order_as": draw(st.sampled_from(["list", "Wires", "tuple"])), "mp": mp,
            "target": target, "all_outcomes": mp == "counts" and draw(st.booleans()),
            "batched": nb > 0, "rows": batch[0], "more": batch[1:],
            "shot_range": draw(st.one_of(st.none(), st.none(), st.tuples(st.integers(0, 40), st.integers(1, 60)).map(list))) if mode == "samples" else None,
            "bin": mode == "samples" and nb == 0 and mp in ("expval", "probs") and draw(st.integers(0, 5)) == 0,
            "zeros": mode == "counts" and draw(st.booleans())}
    return spec


def strategy(tier):
    return _case(tier)


def enumerate_cases(tier):
    """Finite sub-domain: 3 wires, a fixed 9-shot array, every ordered wire subset x every wires-based measurement and ZZ-type words."""
    order = ["a", 0, "b"]
    rows = [0, 1, 1, 3, 4, 6, 6, 6, 7]
    for k in (1, 2, 3):
        for w in itertools.permutations(order, k):
            for mp in ("sample", "counts", "probs"):
                for mode in ("samples", "counts"):
                    yield {"mode": mode, "order": order, "order_as": "list", "mp": mp, "target": {"kind": "wires", "w": list(w), "as_int": False},
                           "all_outcomes": mp == "counts", "batched": False, "rows": rows, "more": [], "shot_range": None, "bin": False, "zeros": False}
            for mp in ("expval", "var", "sample", "counts"):
                for mode in ("samples", "counts"):
                    yield {"mode": mode, "order": order, "order_as": "list", "mp": mp,
                           "target": {"kind": "word", "w": list(w), "letters": "ZXI"[:k], "style": "matmul", "c": None},
                           "all_outcomes": False, "batched": False, "rows": rows, "more": [], "shot_range": None, "bin": False, "zeros": False}


# ------------------------------------------------------------------------------------------------ reference model

def _expand_rows(r, n):
    """rows as integers (bit i of wire_order position i is the i-th most significant bit) -> (shots, n) int64 array"""
    if isinstance(r, dict):
        rng = np.random.default_rng(r["seed"])
        shots, bias = r["shots"], r["bias"]
        if bias == "uniform":
            A = rng.integers(0, 2, size=(shots, n))
        elif bias == "mostly0":
            A = (rng.uniform(size=(shots, n)) < 0.12).astype(np.int64)
        elif bias == "mostly1":
            A = (rng.uniform(size=(shots, n)) < 0.88).astype(np.int64)
        elif bias == "constant":
            A = np.repeat(rng.integers(0, 2, size=(1, n)), shots, axis=0)
        else:
            two = rng.integers(0, 2, size=(2, n))
            A = two[rng.integers(0, 2, size=shots)]
        return np.asarray(A, dtype=np.int64)
    return np.array([[(x >> (n - 1 - j)) & 1 for j in range(n)] for x in r], dtype=np.int64).reshape(len(r), n)


def _eval_expr(e, bits):
    """Plain-Python value of a MeasurementValue expression for the outcome bits of its leaves."""
    op = e[0]
    if op == "m":
        return int(bits[e[1]])
    if op == "c":
        return e[1]
    if op == "~":
        return not _eval_expr(e[1], bits)
    a, b = _eval_expr(e[1], bits), _eval_expr(e[2], bits)
    return {"+": lambda: a + b, "-": lambda: a - b, "*": lambda: a * b, "==": lambda: a == b, "!=": lambda: a != b,
            "<": lambda: a < b, ">": lambda: a > b, "<=": lambda: a <= b, ">=": lambda: a >= b,
            "&": lambda: bool(a) and bool(b), "|": lambda: bool(a) or bool(b), "^": lambda: bool(a) != bool(b)}[op]()


def _rmul_int_float(e, k):
    """True if the expression contains <python int> * <sub-expression with a non-integer value> (MeasurementValue.__rmul__ path)."""
    if e[0] in ("m", "c"):
        return False
    if e[0] == "*" and e[1][0] == "c" and isinstance(e[1][1], int) and e[2][0] != "c":
        vals = [_eval_expr(e[2], bits) for bits in itertools.product((0, 1), repeat=k)]
        if any(float(v) != int(v) for v in vals):
            return True
    return any(_rmul_int_float(x, k) for x in e[1:] if isinstance(x, list))


def _has_leaf(e):
    return e[0] == "m" or (e[0] not in ("c",) and any(_has_leaf(x) for x in e[1:] if isinstance(x, list)))


def _value_fn(t):
    """bits (tuple over t['w']) -> measured value; None for raw computational-basis targets."""
    k = t["kind"]
    if k == "word":
        c = 1.0 if t["c"] is None else float(t["c"])
        act = [i for i, L in enumerate(t["letters"]) if L != "I"]
        return lambda bits: c * float(np.prod([1 - 2 * bits[i] for i in act])) if act else c
    if k == "herm":
        return lambda bits: t["diag"][int("".join(map(str, bits)), 2)]
    if k == "eigvals":
        return lambda bits: t["ev"][int("".join(map(str, bits)), 2)]
    if k == "mv":
        return lambda bits: _eval_expr(t["expr"], bits)
    return None


# ------------------------------------------------------------------------------------------------ builders

def _build_mv_leaves(t):
    from pennylane.ops.mid_measure import MeasurementValue, MidMeasure
    return [MeasurementValue([MidMeasure(w, meas_uid=f"u{u}")]) for w, u in zip(t["w"], t["uids"])]


def _build_expr(e, leaves):
    op = e[0]
    if op == "m":
        return leaves[e[1]]
    if op == "c":
        return e[1]
    if op == "~":
        return ~_build_expr(e[1], leaves)
    a, b = _build_expr(e[1], leaves), _build_expr(e[2], leaves)
    return {"+": lambda: a + b, "-": lambda: a - b, "*": lambda: a * b, "==": lambda: a == b, "!=": lambda: a != b,
            "<": lambda: a < b, ">": lambda: a > b, "<=": lambda: a <= b, ">=": lambda: a >= b,
            "&": lambda: a & b, "|": lambda: a | b, "^": lambda: a ^ b}[op]()


def _build_mp(spec):
    import pennylane as qp
    from pennylane.measurements import CountsMP, ExpectationMP, SampleMP, VarianceMP

    t, mp, ao = spec["target"], spec["mp"], spec["all_outcomes"]
    k = t["kind"]
    op = None
    if k == "word":
        cls = {"X": qp.X, "Y": qp.Y, "Z": qp.Z, "H": qp.Hadamard, "I": qp.I}
        fs = [cls[L](w) for L, w in zip(t["letters"], t["w"])]
        if len(fs) == 1:
            op = fs[0]
        elif t["style"] == "prod":
            op = qp.prod(*fs)
        else:
            op = fs[0]
            for f in fs[1:]:
                op = op @ f
        if t["c"] is not None:
            op = qp.s_prod(t["c"], op) if t["style"] == "prod" else t["c"] * op
    elif k == "herm":
        op = qp.Hermitian(np.diag(t["diag"]), wires=t["w"])
    elif k == "mv":
        op = _build_expr(t["expr"], _build_mv_leaves(t))
    elif k == "mvlist":
        op = _build_mv_leaves(t)
    if k == "eigvals":
        ev = np.array(t["ev"])
        return {"expval": lambda: ExpectationMP(eigvals=ev, wires=qp.wires.Wires(t["w"])),
                "var": lambda: VarianceMP(eigvals=ev, wires=qp.wires.Wires(t["w"])),
                "sample": lambda: SampleMP(eigvals=ev, wires=t["w"]),
                "counts": lambda: CountsMP(eigvals=ev, wires=t["w"], all_outcomes=ao)}[mp]()
    if k in ("wires", "none"):
        w = None if k == "none" else (t["w"][0] if t.get("as_int") else t["w"])
        if mp == "sample":
            return qp.sample(wires=w)
        if mp == "counts":
            return qp.counts(wires=w, all_outcomes=ao)
        return qp.probs(wires=w)
    if mp == "expval":
        return qp.expval(op)
    if mp == "var":
        return qp.var(op)
    if mp == "sample":
        return qp.sample(op)
    if mp == "counts":
        return qp.counts(op, all_outcomes=ao)
    return qp.probs(op=op)


# ------------------------------------------------------------------------------------------------ comparison helpers

def _norm_key(k):
    if isinstance(k, (str, np.str_)):
        return str(k)
    return float(k)


def _cmp_dict(got, exp, what, sig, feats):
    """exp: {key: count}; key sets must agree exactly (numeric keys matched at 1e-9), counts exactly."""
    if not isinstance(got, dict):
        raise Viol("counts-type", f"{what}: expected dict, got {type(got).__name__}", sig=sig, features=feats)
    g = {}
    for k, v in got.items():
        nk = _norm_key(k)
        if not isinstance(nk, str):
            near = [e for e in exp if not isinstance(e, str) and abs(e - nk) <= 1e-9 * max(1, abs(e))]
            nk = near[0] if near else nk
        if nk in g:
            raise Viol("counts-duplicate-key", f"{what}: {got}", sig=sig, features=feats)
        g[nk] = int(v)
    if g != exp:
        raise Viol("counts", f"{what}: got {g} expected {exp}", sig=sig, features=feats)


def _cmp_arr(got, exp, what, sig, feats, tol=1e-12):
    g = np.asarray(got)
    e = np.asarray(exp)
    if g.dtype == object:
        raise Viol("result-type", f"{what}: object array", sig=sig, features=feats)
    if g.shape != e.shape:
        raise Viol("shape", f"{what}: result shape {g.shape}, expected {e.shape}", sig=sig + ":shape", features=feats)
    if not close(g.astype(float), e.astype(float), tol):
        raise Viol("value", f"{what}: got {g.tolist() if g.size <= 16 else '...'} expected {e.tolist() if e.size <= 16 else '...'}",
                   sig=sig, features=feats)


# ------------------------------------------------------------------------------------------------ check

def check(spec):
    import pennylane as qp

    order, t, mpk, ao = spec["order"], spec["target"], spec["mp"], spec["all_outcomes"]
    n = len(order)
    arrays = [_expand_rows(r, n) for r in [spec["rows"]] + list(spec["more"])]
    if spec["batched"]:
        shots = min(a.shape[0] for a in arrays)
        arrays = [a[:shots] for a in arrays]
    else:
        arrays = arrays[:1]
    shots = arrays[0].shape[0]
    if shots == 0:
        raise Reject("no shots")
    if spec["mode"] == "counts" and spec["target"]["kind"] == "none":
        raise Reject("process_counts needs explicit wires (precondition of measurements_from_counts)")
    sr = spec["shot_range"]
    if sr is not None:
        lo, hi = sr[0] % shots, 0
        hi = min(shots, lo + max(1, sr[1]))
        sr = (lo, hi)
    binned = bool(spec.get("bin"))
    if binned:
        sr = None
        if shots < 2:
            binned = False
    mwires = list(order) if t["kind"] == "none" else list(t["w"])
    cols = [order.index(w) for w in mwires]
    k = len(cols)
    vf = _value_fn(t)
    mp = _build_mp(spec)
    wo = {"list": lambda: list(order), "tuple": lambda: tuple(order), "Wires": lambda: qp.wires.Wires(order)}[spec["order_as"]]()
    sig = f"{mpk}:{t['kind']}:{spec['mode']}"
    feats = {"mp": mpk, "target": t["kind"], "mode": spec["mode"], "batch": len(arrays) if spec["batched"] else 0,
             "all_outcomes": ao}

    if t["kind"] == "mv" and _rmul_int_float(t["expr"], len(t["w"])):
        sig = "mv:int-times-float"
        feats = dict(feats, rmul_int_float=True)
    used = [a[sr[0]:sr[1]] if sr else a for a in arrays]

    def reference(A):
        sub = A[:, cols]
        bits = [tuple(int(x) for x in row) for row in sub]
        N = len(bits)
        if vf is not None:
            vals = [vf(b) for b in bits]
            fv = np.array([float(v) for v in vals])
        if mpk == "expval":
            return float(fv.sum() / N)
        if mpk == "var":
            m = fv.sum() / N
            return float(((fv - m) ** 2).sum() / N)
        if mpk == "sample":
            return sub if vf is None else fv
        if mpk == "probs":
            p = np.zeros(2 ** k)
            for b in bits:
                p[int("".join(map(str, b)), 2)] += 1
            return p / N
        if vf is None:
            c = dict(Counter("".join(map(str, b)) for b in bits))
            if ao:
                for b in itertools.product("01", repeat=k):
                    c.setdefault("".join(b), 0)
            return c
        c = dict(Counter(float(v) for v in vals))
        if ao:
            for b in itertools.product((0, 1), repeat=k):
                c.setdefault(float(vf(b)), 0)
        return c

    exp = [reference(A) for A in used]
    labels = [mpk, f"{mpk}:{t['kind']}", spec["mode"], f"n={n},k={k}", "batched" if spec["batched"] else "single"]
    if sr:
        labels.append("shot_range")

    if spec["mode"] == "samples":
        S = np.stack(arrays) if spec["batched"] else arrays[0]
        if binned:
            bs = [b for b in range(1, shots) if shots % b == 0 and b < shots]
            bsz = bs[len(bs) // 2] if bs else shots
            got = np.asarray(mp.process_samples(S, wo, bin_size=bsz))
            nb = shots // bsz
            labels.append("bin_size")
            if mpk == "expval":
                if got.size != nb or not close(float(np.mean(got)), exp[0], 1e-12):
                    raise Viol("bins", f"bin_size={bsz} shots={shots}: got {got.tolist()} overall {exp[0]}", sig=sig + ":bin", features=feats)
            else:
                ok = got.ndim == 2 and got.size == nb * 2 ** k and nb in got.shape
                if ok:
                    ax = 1 if got.shape[1] == nb and got.shape[0] == 2 ** k else 0
                    ok = close(got.mean(axis=ax), exp[0], 1e-12)
                if not ok:
                    raise Viol("bins", f"bin_size={bsz} shots={shots}: got shape {got.shape}", sig=sig + ":bin", features=feats)
            return Result(len({tuple(r) for r in arrays[0]}) >= 2, labels)
        kw = {"shot_range": sr} if sr else {}
        got = mp.process_samples(S, wo, **kw)
        if mpk == "counts":
            if spec["batched"]:
                if not isinstance(got, (list, tuple)) or len(got) != len(exp):
                    raise Viol("counts-batch", f"expected a list of {len(exp)} dicts, got {type(got).__name__}", sig=sig, features=feats)
                for g, e in zip(got, exp):
                    _cmp_dict(g, e, f"{mp}", sig, feats)
            else:
                _cmp_dict(got, exp[0], f"{mp}", sig, feats)
        else:
            e = np.stack([np.asarray(x) for x in exp]) if spec["batched"] else np.asarray(exp[0])
            f2 = dict(feats)
            if spec["batched"] and len(arrays) == 1 and np.shape(got) != e.shape and np.shape(got) == e.shape[1:]:
                raise Viol("batch1-squeezed", f"{mp}: samples shape {S.shape} gave result shape {np.shape(got)}, expected {e.shape}",
                           sig=f"{mpk}:batch1-squeezed", features=f2)
            _cmp_arr(got, e, f"{mp} order={order} sr={sr}", sig, feats)
    else:
        full = Counter("".join(map(str, r)) for r in arrays[0])
        cdict = dict(full)
        if spec["zeros"]:
            for b in itertools.product("01", repeat=n):
                cdict.setdefault("".join(b), 0)
        got = mp.process_counts(cdict, wo)
        if mpk == "counts":
            _cmp_dict(got, exp[0], f"{mp}", sig, feats)
        elif mpk == "sample":
            g = np.asarray(got)
            e = np.asarray(exp[0])
            if g.size != e.size:
                raise Viol("shape", f"{mp}: {g.shape} vs {e.shape}", sig=sig + ":shape", features=feats)
            g2 = g.reshape(e.shape) if e.ndim == 2 else g.reshape(-1)
            gs = sorted(map(tuple, g2.astype(float).reshape(len(e), -1).tolist()))
            es = sorted(map(tuple, e.astype(float).reshape(len(e), -1).tolist()))
            if not close(np.array(gs), np.array(es), 1e-12):
                raise Viol("value", f"{mp}: multiset of samples differs", sig=sig, features=feats)
        else:
            _cmp_arr(got, exp[0], f"{mp} order={order}", sig, feats)
    distinct = len({tuple(r) for A in used for r in A}) >= 2
    rearranged = cols != list(range(n))
    if rearranged:
        labels.append("subset" if k < n else "permuted")
    return Result(distinct and rearranged, labels)


def selftest():
    A = _expand_rows([0, 5, 6], 3)
    assert A.tolist() == [[0, 0, 0], [1, 0, 1], [1, 1, 0]]
    assert _eval_expr(["+", ["m", 0], ["*", ["c", 2], ["m", 1]]], (1, 1)) == 3
    assert _eval_expr(["==", ["m", 0], ["m", 1]], (1, 0)) is False
    assert _value_fn({"kind": "word", "letters": "ZIX", "c": -2})((1, 1, 1)) == -2.0
    assert _value_fn({"kind": "word", "letters": "ZIX", "c": None})((1, 1, 0)) == -1.0
