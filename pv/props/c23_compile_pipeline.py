"""C23 — compile pipelines compose transforms and route results; the container behaves like a list."""
import copy
import hashlib

import numpy as np
from hypothesis import strategies as st

from pv import gen, specs
from pv.engine import Reject, Result, Viol

ID = "C23"
TECHNIQUE = ("hypothesis-generated pipelines of synthetic fan-out transforms (0..3 outputs, affine post-processing) and real "
             "transforms vs recursive hand application on a fingerprint executor; edit histories vs a Python-list model")
RULE = (
    "Mode A (results): batch of 0-4 small tapes (1-3 wires, 1-3 expval/probs measurements, optional broadcast parameter) and a "
    "pipeline of 1-5 transforms drawn from synthetic T(k, tag, coeffs, const, uneven) (fan-out k in 0..3, or tape-dependent "
    "(k+len(ops))%4; outputs tagged by an appended RX; post-processing = const + sum c_j*res_j, checks its slice length), a "
    "synthetic transform with expand_transform, and real split_non_commuting / broadcast_expand / cancel_inverses / param_shift "
    "(last only). Execution = deterministic fingerprint of the tape content shaped like its measurements, so every distinct "
    "tape has a distinct result. Oracle: depth-first recursive hand application of the raw tape transforms per input tape == "
    "pipeline(batch) + post-processing, per input and in order (1e-10); execution tapes == depth-first flattening; the same "
    "through transform-on-batch dispatch chained by hand. Non-trivial: >= 2 stacked transforms with different fan-out. "
    "Mode B (container): history of append/add_transform/insert/pop/remove/extend/+/radd/+=/*/slicing/copy/add_marker/"
    "remove_marker on a CompilePipeline vs a list-of-slots + marker-dict model (a transform with expand_transform is two "
    "slots; two terminal transforms -> TransformError; marker level = number of transforms before it); after every step "
    "len/bool/iter/index/in/==/markers/get_marker_level/has_final_transform agree with the model, failed operations leave the "
    "pipeline unchanged, earlier copies are not aliased. Non-trivial: >= 3 edits incl. one with a marker present."
)
ASSUMPTIONS = [
    "Classical cotransforms / CotransformCache (QNode-level hybrid jacobians) are not exercised; cotransform_cache is None.",
    "A terminal transform that ends up in the middle of a pipeline (append after a terminal one) is accepted either way: the "
    "implementation allows it, the comment says it should not; only >= 2 terminal transforms must raise TransformError.",
    "Marker placement exactly at an insertion point / slice boundary is not specified: both neighbours are accepted.",
    "If the hand application of a (real) transform raises, the case is rejected: the transform, not the pipeline, refused it.",
]
BUDGET = {"quick": {"examples": 2400}, "thorough": {"examples": 160000, "shards": 16}}
SHRINK_LISTS = ("steps", "pipe", "batch", "ops", "meas", "init", "ts")

# ------------------------------------------------------------------------------------------------ helpers


class _Mismatch(Exception):
    """tree arithmetic on results of different structure"""


def t_lin(const, coeffs, items):
    """const + sum_j coeffs[j] * items[j] over nested tuples of arrays."""
    out = const
    for c, it in zip(coeffs, items):
        out = _t_add(out, _t_scale(c, it))
    return out


def _t_scale(c, a):
    if isinstance(a, (tuple, list)):
        return tuple(_t_scale(c, x) for x in a)
    return c * np.asarray(a)


def _t_full(a, c):
    if isinstance(a, (tuple, list)):
        return tuple(_t_full(x, c) for x in a)
    return np.full(np.shape(a), float(c))


def _t_add(a, b):
    ta, tb = isinstance(a, (tuple, list)), isinstance(b, (tuple, list))
    if ta != tb or (ta and len(a) != len(b)):
        raise _Mismatch()
    if ta:
        return tuple(_t_add(x, y) for x, y in zip(a, b))
    a, b = np.asarray(a), np.asarray(b)
    if a.shape != b.shape:
        raise _Mismatch()
    return a + b


def t_close(a, b, tol=1e-10):
    ta, tb = isinstance(a, (tuple, list)), isinstance(b, (tuple, list))
    if ta or tb:
        if not (ta and tb) or len(a) != len(b):
            # a tuple vs an array of the same content is still a different result structure
            try:
                a2, b2 = np.asarray(a, dtype=float), np.asarray(b, dtype=float)
            except (ValueError, TypeError):
                return False
            return a2.shape == b2.shape and bool(np.all(np.abs(a2 - b2) <= tol * max(1.0, np.abs(b2).max() if b2.size else 1.0)))
        return all(t_close(x, y, tol) for x, y in zip(a, b))
    try:
        a, b = np.asarray(a, dtype=float), np.asarray(b, dtype=float)
    except (ValueError, TypeError):
        return False
    if a.shape != b.shape:
        return False
    return bool(np.all(np.abs(a - b) <= tol * max(1.0, float(np.abs(b).max()) if b.size else 1.0)))


def tape_key(tape):
    parts = []
    for op in tape.operations:
        parts.append((op.name, [repr(w) for w in op.wires], [np.round(np.asarray(p, dtype=complex), 9).tolist() for p in op.data]))
    ms = [(type(m).__name__, repr(m.obs) if m.obs is not None else None, [repr(w) for w in m.wires]) for m in tape.measurements]
    return repr((parts, ms))


def _floats(key, n):
    out = []
    for j in range(n):
        h = hashlib.sha1(f"{key}|{j}".encode()).digest()
        out.append(int.from_bytes(h[:6], "big") / 2**47 - 1.0)
    return out


def leaf_shape(m, batch):
    from pennylane.measurements import ProbabilityMP

    base = (2 ** len(m.wires),) if isinstance(m, ProbabilityMP) else ()
    return ((batch,) if batch else ()) + base


def fp_exec(tape):
    """Deterministic fake execution: a value shaped like the tape's result, determined by the tape content."""
    key = tape_key(tape)
    b = tape.batch_size
    leaves = []
    for i, m in enumerate(tape.measurements):
        shp = leaf_shape(m, b)
        n = int(np.prod(shp)) if shp else 1
        leaves.append(np.array(_floats(f"{key}#{i}", n)).reshape(shp))
    return leaves[0] if len(leaves) == 1 else tuple(leaves)


def const_like(tape, c):
    b = tape.batch_size
    leaves = [np.full(leaf_shape(m, b), float(c)) for m in tape.measurements]
    return leaves[0] if len(leaves) == 1 else tuple(leaves)


# ------------------------------------------------------------------------------------------------ transforms

_CACHE = {}


def T():
    """Synthetic transforms (created once per process, after pennylane is importable)."""
    if _CACHE:
        return _CACHE
    import pennylane as qp

    def _tagged(tape, tag, j):
        w = tape.wires[0] if len(tape.wires) else 0
        return tape.copy(operations=list(tape.operations) + [qp.RX(tag + 0.37 * j, w)])

    def synth(tape, k, tag, coeffs, const, uneven=False):
        kk = (k + len(tape.operations)) % 4 if uneven else k
        new = tuple(_tagged(tape, tag, j) for j in range(kk))
        base = const_like(tape, const)

        def post(res):
            if len(res) != kk:
                raise Viol("slice-length", f"post-processing of a fan-out {kk} transform received {len(res)} results", sig="slice")
            b0 = _t_add(_t_scale(0.0, res[0]), _t_full(res[0], const)) if kk else base
            return t_lin(b0, [coeffs[j % len(coeffs)] for j in range(kk)], res)

        return new, post

    def synth_expand(tape, k, tag, coeffs, const, uneven=False):
        # the expand step of `synth_e`: duplicates the tape with two different tags and averages with weights 2, -1
        new = (_tagged(tape, tag + 5.0, 0), _tagged(tape, tag + 6.0, 0))

        def post(res):
            if len(res) != 2:
                raise Viol("slice-length", f"expand post-processing received {len(res)} results", sig="slice")
            return t_lin(_t_scale(0.0, res[0]), [2.0, -1.0], res)

        return new, post

    def synth_e(tape, k, tag, coeffs, const, uneven=False):
        return synth(tape, k, tag, coeffs, const, uneven)

    # container-mode transforms (identity behaviour, distinguishable by function identity)
    def _mk(name):
        def fn(tape, a=0):
            return (tape,), lambda r: r[0]
        fn.__name__ = name
        return fn

    raw = {n: _mk(n) for n in ("a", "b", "c", "e", "E", "f", "i")}
    _CACHE.update(
        qp=qp,
        synth=qp.transform(synth), synth_raw=synth,
        synth_e=qp.transform(synth_e, expand_transform=synth_expand), synth_expand_raw=synth_expand,
        raw=raw,
        a=qp.transform(raw["a"]), b=qp.transform(raw["b"]), c=qp.transform(raw["c"]),
        e=qp.transform(raw["e"], expand_transform=raw["E"]),
        f=qp.transform(raw["f"], final_transform=True),
        i=qp.transform(raw["i"], is_informative=True),
    )
    return _CACHE


FINAL = {"f", "i"}

# ------------------------------------------------------------------------------------------------ strategies

nz = st.sampled_from([0.5, -1.0, 2.0, 1.5, -0.25, 3.0])
tagv = st.sampled_from([0.11, 0.23, 0.41, 0.59, 0.73, 0.97, 1.3])


def synth_spec(kind="synth"):
    return st.fixed_dictionaries({
        "kind": st.just(kind), "k": st.sampled_from([0, 1, 1, 2, 2, 3]), "tag": tagv,
        "coeffs": st.lists(nz, min_size=1, max_size=3), "const": st.sampled_from([0.0, 0.7, -1.2]),
        "uneven": st.booleans()})


REAL = ["split_non_commuting", "broadcast_expand", "cancel_inverses"]
POOL = {k: gen.ALL_GATES[k] for k in ("RX", "RY", "RZ", "Hadamard", "PauliX", "CNOT", "CZ", "S")}


@st.composite
def tape_spec(draw, allow_batch=True):
    n = draw(st.integers(1, 3))
    wires = draw(gen.wire_labels(n))
    ops = draw(gen.op_list(wires, POOL, max_depth=5, min_depth=0, ang=gen.generic_angles(), p_derive=0.35))
    if allow_batch and draw(st.integers(0, 4)) == 0:
        bs = draw(st.integers(1, 3))
        ops.append({"op": "RY", "p": [[round(0.2 + 0.31 * j, 3) for j in range(bs)]], "w": [wires[0]]})
    m_exp = gen.pauli_word_obs(wires, 2).map(lambda o: {"mp": "expval", "obs": o})
    m_sum = st.lists(gen.pauli_word_obs(wires, 2), min_size=2, max_size=3).map(
        lambda os: {"mp": "expval", "obs": {"op": "sum", "operands": os}})
    m_probs = st.integers(1, n).flatmap(lambda k: gen.subset(wires, k)).map(lambda w: {"mp": "probs", "w": w})
    meas = draw(st.lists(st.one_of(m_exp, m_exp, m_sum, m_probs), min_size=1, max_size=3))
    return {"ops": ops, "meas": meas}


@st.composite
def results_case(draw):
    with_ps = draw(st.integers(0, 9)) == 0
    n = draw(st.integers(1, 5))
    item = st.one_of(synth_spec(), synth_spec(), synth_spec(), synth_spec("synth_e"),
                     st.sampled_from(REAL).map(lambda r: {"kind": r}))
    pipe = draw(st.lists(item, min_size=n, max_size=n))
    # bound the worst-case number of leaf tapes per input tape (fan-outs multiply)
    def width(t):
        w = {"synth": 3 if t.get("uneven") else max(t.get("k", 1), 1), "synth_e": 2 * (3 if t.get("uneven") else max(t.get("k", 1), 1))}
        return w.get(t["kind"], 2)
    while len(pipe) > 1 and np.prod([width(t) for t in pipe]) > 48:
        pipe = pipe[:-1]
    if with_ps:
        pipe = pipe[:3] + [{"kind": "param_shift"}]
    nb = draw(st.sampled_from([0, 1, 1, 2, 2, 3, 3, 4, 4]))
    batch = draw(st.lists(tape_spec(allow_batch=not with_ps), min_size=nb, max_size=nb))
    return {"mode": "results", "pipe": pipe, "batch": batch,
            "build": draw(st.sampled_from(["ctor", "ctor_list", "add", "append", "mixed"])),
            "single": draw(st.booleans())}


NAMES = ["a", "a", "b", "c", "e", "e", "f", "i"]
LABELS = ["m1", "m2", "m3"]
OTHER_LABELS = ["x1", "x2"]
BAD_LABELS = ["top", "user", "m1"]


def tok():
    return st.fixed_dictionaries({"t": st.sampled_from(NAMES), "arg": st.sampled_from([None, None, 1, 2]),
                                  "bound": st.booleans()})


def plain_tok():
    return st.fixed_dictionaries({"t": st.sampled_from(["a", "a", "b", "c", "e", "f"]), "arg": st.sampled_from([None, None, 1, 2]),
                                  "bound": st.booleans()})


def other_pipe():
    return st.fixed_dictionaries({
        "ts": st.lists(plain_tok(), min_size=0, max_size=3),
        "markers": st.lists(st.tuples(st.sampled_from(OTHER_LABELS), st.integers(0, 3)).map(list), max_size=2)})


def step():
    idx = st.integers(-7, 7)
    lab = st.sampled_from(LABELS)
    opt = st.one_of(st.none(), st.integers(-6, 7))
    return st.one_of(
        st.fixed_dictionaries({"op": st.just("append"), "t": tok()}),
        st.fixed_dictionaries({"op": st.just("add_transform"), "t": tok()}),
        st.fixed_dictionaries({"op": st.just("insert"), "i": idx, "t": tok()}),
        st.fixed_dictionaries({"op": st.just("insert"), "i": st.integers(0, 3), "t": plain_tok()}),
        st.fixed_dictionaries({"op": st.just("pop"), "i": st.one_of(st.none(), idx)}),
        st.fixed_dictionaries({"op": st.just("remove"), "t": tok()}),
        st.fixed_dictionaries({"op": st.just("remove"), "pick": st.integers(0, 7), "as_transform": st.booleans()}),
        st.fixed_dictionaries({"op": st.just("extend"), "ts": st.lists(plain_tok(), max_size=3), "as": st.sampled_from(["list", "tuple"])}),
        st.fixed_dictionaries({"op": st.just("extend_pipe"), "other": other_pipe()}),
        st.fixed_dictionaries({"op": st.just("add"), "other": other_pipe(), "inplace": st.booleans()}),
        st.fixed_dictionaries({"op": st.just("add_tok"), "t": tok(), "side": st.sampled_from(["right", "right", "left"]),
                               "inplace": st.booleans()}),
        st.fixed_dictionaries({"op": st.just("mul"), "n": st.sampled_from([0, 1, 2, 2, 3, -1]), "side": st.sampled_from(["right", "left"])}),
        st.fixed_dictionaries({"op": st.just("slice"), "a": opt, "b": opt, "c": st.sampled_from([None, None, None, 1, 2, -1])}),
        st.fixed_dictionaries({"op": st.just("copy")}),
        st.fixed_dictionaries({"op": st.just("add_marker"), "label": st.one_of(lab, lab, lab, st.sampled_from(BAD_LABELS)),
                               "level": st.one_of(st.none(), st.integers(-1, 7))}),
        st.fixed_dictionaries({"op": st.just("add_marker"), "label": lab, "level": st.integers(0, 3)}),
        st.fixed_dictionaries({"op": st.just("remove_marker"), "label": lab}),
    )


def container_case(tier):
    mx = 10 if tier == "quick" else 16
    return st.fixed_dictionaries({
        "mode": st.just("container"),
        "init": st.lists(plain_tok(), max_size=4),
        "init_how": st.sampled_from(["args", "list", "iadd"]),
        "init_markers": st.lists(st.tuples(st.sampled_from(LABELS), st.integers(0, 4)).map(list), max_size=3),
        "steps": st.lists(step(), min_size=1, max_size=mx)})


def strategy(tier):
    return st.one_of(results_case(), container_case(tier), container_case(tier), container_case(tier))


def enumerate_cases(tier):
    # the documented example history (class docstring, "Inspecting and Marking")
    a, b, c = ({"t": n, "arg": None, "bound": False} for n in "abc")
    yield {"mode": "container", "init": [a, b, c], "init_how": "args", "steps": [
        {"op": "add_marker", "label": "m1", "level": None},
        {"op": "add_marker", "label": "m2", "level": 1},
        {"op": "add_marker", "label": "m3", "level": None},
        {"op": "remove_marker", "label": "m1"},
        {"op": "mul", "n": 2, "side": "right", "keep": False},
        {"op": "add_tok", "t": b, "side": "right", "inplace": False, "keep": False},
        {"op": "pop", "i": None},
        {"op": "slice", "a": 1, "b": None, "c": None},
    ]}
    # the _batch_postprocessing docstring shape: fan-outs 2, 1, 1
    s = {"kind": "synth", "tag": 0.11, "coeffs": [1.0], "const": 0.0, "uneven": False}
    t = {"ops": [{"op": "RX", "p": [0.3], "w": [0]}], "meas": [{"mp": "expval", "obs": {"op": "PauliZ", "w": [0]}}]}
    for ks in ([2, 1], [0, 2], [3, 0], [2, 2, 2], [1, 0, 3]):
        yield {"mode": "results", "pipe": [{**s, "k": k, "tag": 0.11 + 0.1 * j} for j, k in enumerate(ks)], "batch": [t, t, t],
               "build": "ctor", "single": False}


# ------------------------------------------------------------------------------------------------ mode A

def _bound(spec):
    c = T()
    qp = c["qp"]
    from pennylane.transforms.core import BoundTransform

    k = spec["kind"]
    if k in ("synth", "synth_e"):
        return BoundTransform(c[k], args=(spec["k"], spec["tag"], tuple(spec["coeffs"]), spec["const"], spec["uneven"]))
    if k == "param_shift":
        return BoundTransform(qp.gradients.param_shift)
    return BoundTransform(getattr(qp.transforms, k))


def _hand_apply(spec, tape):
    """One transform applied to one tape by hand -> (tapes, post). Raw functions for synthetic ones."""
    c = T()
    qp = c["qp"]
    k = spec["kind"]
    args = (spec.get("k"), spec.get("tag"), tuple(spec.get("coeffs", ())), spec.get("const"), spec.get("uneven"))
    if k == "synth":
        return c["synth_raw"](tape, *args)
    if k == "synth_e":
        ex, pe = c["synth_expand_raw"](tape, *args)
        subs = [c["synth_raw"](t, *args) for t in ex]

        def post(res):
            out, pos = [], 0
            for ts, p in subs:
                out.append(p(tuple(res[pos:pos + len(ts)])))
                pos += len(ts)
            return pe(tuple(out))

        return tuple(t for ts, _ in subs for t in ts), post
    fn = qp.gradients.param_shift if k == "param_shift" else getattr(qp.transforms, k)
    return fn(tape)


def _hand(pipe, tape, depth, leaves, fan):
    if depth == len(pipe):
        leaves.append(tape_key(tape))
        return fp_exec(tape)
    tapes, post = _hand_apply(pipe[depth], tape)
    fan[depth].add(len(tapes))
    return post(tuple(_hand(pipe, t, depth + 1, leaves, fan) for t in tapes))


def _build_pipeline(spec, bounds):
    from pennylane import CompilePipeline

    how = spec["build"]
    if how == "ctor":
        return CompilePipeline(*bounds)
    if how == "ctor_list":
        # a plain list of BoundTransforms is stored as is: expand transforms have to be given explicitly
        full = []
        for b in bounds:
            if b.expand_transform:
                full.append(b.expand_transform)
            full.append(b)
        return CompilePipeline(full)
    if how == "add":
        p = CompilePipeline()
        for b in bounds:
            p = p + b
        return p
    if how == "append":
        p = CompilePipeline()
        for b in bounds:
            p.append(b)
        return p
    half = len(bounds) // 2
    p = CompilePipeline(*bounds[:half])
    p += CompilePipeline(*bounds[half:])
    return p


def check_results(spec):
    c = T()
    qp = c["qp"]
    pipe = spec["pipe"]
    batch_specs = spec["batch"]

    def fresh():
        return [specs.build_tape(b) for b in batch_specs]

    # oracle: recursive hand application
    fan = [set() for _ in pipe]
    expected, leaves = [], []
    try:
        for t in fresh():
            expected.append(_hand(pipe, t, 0, leaves, fan))
    except _Mismatch:
        raise Reject("ill-typed pipeline (results of sibling tapes have different structure)") from None
    except Viol:
        raise
    except Exception as e:  # noqa: BLE001  the transform itself refused the tape
        raise Reject(f"hand application raised {type(e).__name__}") from None

    bounds = [_bound(t) for t in pipe]
    pipeline = _build_pipeline(spec, bounds)
    tapes_in = fresh()
    single = spec.get("single") and len(tapes_in) == 1
    out_tapes, post = pipeline(tapes_in[0] if single else tuple(tapes_in))
    keys = [tape_key(t) for t in out_tapes]
    feats = {"kinds": sorted({t["kind"] for t in pipe})}
    if keys != leaves:
        raise Viol("execution-tapes", f"pipeline produced {len(keys)} tapes, depth-first hand application {len(leaves)}; "
                   f"first difference at {next((i for i, (x, y) in enumerate(zip(keys, leaves)) if x != y), min(len(keys), len(leaves)))}",
                   sig="tapes", features=feats)
    try:
        got = post(tuple(fp_exec(t) for t in out_tapes))
    except _Mismatch:
        raise Viol("routing", "post-processing combined results of different structure (mis-routed slice)", sig="routing",
                   features=feats) from None
    if len(got) != len(expected):
        raise Viol("result-count", f"{len(got)} results for {len(expected)} input tapes", sig="count", features=feats)
    for i, (g, e) in enumerate(zip(got, expected)):
        if not t_close(g, e):
            raise Viol("routing", f"input tape {i}: pipeline {g!r} != hand {e!r}", sig="routing", features=feats)

    # the same pipeline by chaining transform-on-batch dispatch by hand (docs: function1(function2(result)))
    cur = tuple(fresh())
    posts = []
    for b in bounds:
        cur, p = b(cur)
        posts.append(p)
    if [tape_key(t) for t in cur] != leaves:
        raise Viol("execution-tapes", "chained batch dispatch produced different tapes", sig="tapes-dispatch", features=feats)
    try:
        res = tuple(fp_exec(t) for t in cur)
        for p in reversed(posts):
            res = p(res)
    except _Mismatch:
        raise Viol("routing", "batch dispatch combined results of different structure", sig="routing-dispatch", features=feats) from None
    if len(res) != len(expected) or not all(t_close(g, e) for g, e in zip(res, expected)):
        raise Viol("routing", f"chained batch dispatch {res!r} != hand {expected!r}", sig="routing-dispatch", features=feats)

    fans = [max(f) if f else None for f in fan]
    seen = [f for f in fans if f is not None]
    uneven = any(len(f) > 1 for f in fan)
    nontrivial = len(batch_specs) >= 1 and len(seen) >= 2 and (len(set(seen)) >= 2 or uneven)
    labels = ["A:results", f"A:batch={len(batch_specs)}", f"A:depth={len(pipe)}", f"A:leaves={min(len(leaves), 20) // 5 * 5}+"]
    labels += [f"A:{k}" for k in feats["kinds"]]
    if any(0 in f for f in fan):
        labels.append("A:dropped-tape")
    if uneven:
        labels.append("A:uneven-fanout")
    if single:
        labels.append("A:single-tape-input")
    return Result(nontrivial, labels)


# ------------------------------------------------------------------------------------------------ mode B

def slots_of(t):
    """Model slots of one transform token: (name, arg)."""
    arg = t.get("arg")
    if t["t"] == "e":
        return [("E", arg), ("e", arg)]
    return [(t["t"], arg)]


def obj_of(t):
    from pennylane.transforms.core import BoundTransform

    c = T()
    tr = c[t["t"]]
    if t.get("arg") is None and not t.get("bound"):
        return tr
    return BoundTransform(tr, args=() if t.get("arg") is None else (t["arg"],))


def bound_of_slot(s):
    from pennylane.transforms.core import BoundTransform

    c = T()
    args = () if s[1] is None else (s[1],)
    if s[0] == "E":
        return BoundTransform(c["e"], args=args).expand_transform
    return BoundTransform(c[s[0]], args=args)


def observed_slots(p):
    raw = T()["raw"]
    inv = {id(f): n for n, f in raw.items()}
    out = []
    for b in p:
        n = inv.get(id(b.tape_transform), "?")
        out.append((n, b.args[0] if b.args else None))
    return out


class Model:
    def __init__(self, slots=(), markers=None):
        self.slots = list(slots)
        self.markers = dict(markers or {})

    def clone(self):
        return Model(self.slots, self.markers)

    @property
    def n_final(self):
        return sum(1 for s in self.slots if s[0] in FINAL)


def surviving_level(v, removed_positions):
    return v - sum(1 for p in removed_positions if p < v)


def rebuild(m):
    from pennylane import CompilePipeline

    p = CompilePipeline([bound_of_slot(s) for s in m.slots])
    for k, v in m.markers.items():
        p.add_marker(k, v)
    return p


def agree(p, m, what, sig):
    feats = {"op": sig}
    obs = observed_slots(p)
    if obs != m.slots:
        raise Viol("list-model", f"{what}: transforms {obs} != model {m.slots}", sig=sig, features=feats)
    if len(p) != len(m.slots) or bool(p) != bool(m.slots):
        raise Viol("len-bool", f"{what}: len={len(p)} bool={bool(p)} model len {len(m.slots)}", sig=sig, features=feats)
    n = len(m.slots)
    for i in range(-n, n):
        b = p[i]
        if observed_slots([b]) != [m.slots[i]]:
            raise Viol("getitem", f"{what}: p[{i}] = {b} != {m.slots[i]}", sig=sig, features=feats)
    got = {k: p.get_marker_level(k) for k in LABELS + OTHER_LABELS}
    got = {k: v for k, v in got.items() if v is not None}
    if sorted(p.markers) != sorted(got):
        raise Viol("markers", f"{what}: markers {p.markers} vs get_marker_level {got}", sig=sig, features=feats)
    if got != m.markers:
        raise Viol("markers", f"{what}: markers {got} != model {m.markers} (transforms {m.slots})", sig=sig + "/markers", features=feats)
    for k, v in got.items():
        if not 0 <= v <= n:
            raise Viol("marker-range", f"{what}: marker {k} at level {v} in a pipeline of {n} transforms", sig=sig + "/range", features=feats)
    if p.has_final_transform != (m.n_final > 0):
        raise Viol("has-final", f"{what}: has_final_transform={p.has_final_transform} model {m.slots}", sig=sig, features=feats)
    if p.is_informative != any(s[0] == "i" for s in m.slots):
        raise Viol("is-informative", f"{what}: {p.is_informative} model {m.slots}", sig=sig, features=feats)
    twin = rebuild(m)
    if not (p == twin) or not (twin == p):
        raise Viol("eq", f"{what}: pipeline != pipeline rebuilt from model {m.slots} {m.markers}", sig=sig, features=feats)
    if m.slots:
        if p == rebuild(Model(m.slots[:-1], {})) or (p == rebuild(Model(m.slots, {})) and m.markers):
            raise Viol("eq", f"{what}: pipeline equal to a different pipeline", sig=sig, features=feats)
    c = T()
    from pennylane.transforms.core import BoundTransform

    for name in ("a", "b", "c", "e", "f", "i"):
        exp_t = any(s[0] == name for s in m.slots)
        if (c[name] in p) != exp_t:
            raise Viol("contains", f"{what}: ({name} in p)={c[name] in p} model {m.slots}", sig=sig, features=feats)
        for arg in (None, 1, 2):
            bt = BoundTransform(c[name], args=() if arg is None else (arg,))
            if (bt in p) != ((name, arg) in m.slots):
                raise Viol("contains", f"{what}: (<{name}({arg})> in p)={bt in p} model {m.slots}", sig=sig, features=feats)


def norm_insert(i, n):
    if i < 0:
        i = max(0, n + i)
    return min(i, n)


def _merge_markers(observed, allowed, n_new):
    """allowed: label -> set of permitted levels (None in the set = may be absent); '*' -> anything in range.
    Returns the adopted marker dict or raises ValueError(label)."""
    out = {}
    for k, alts in allowed.items():
        v = observed.get(k)
        if alts == "*":
            if v is not None:
                out[k] = v
            continue
        if v not in alts:
            raise ValueError(f"marker {k}: level {v} not in allowed {sorted(alts, key=repr)}")
        if v is not None:
            out[k] = v
    for k in observed:
        if k not in allowed:
            raise ValueError(f"unexpected marker {k} at {observed[k]}")
    return out


def resolve(m, s):
    """Steps that refer to an element of the current pipeline ('pick') are turned into explicit tokens."""
    if s["op"] == "remove" and "pick" in s:
        if m.slots:
            name, arg = m.slots[s["pick"] % len(m.slots)]
            name = "e" if name == "E" else name
        else:
            name, arg = "a", None
        as_t = s["as_transform"]
        return {"op": "remove", "t": {"t": name, "arg": None if as_t else arg, "bound": not as_t}}
    return s


def expect(m, s):
    """Model of one step. Returns dict(err=None|cls|('maybe', cls), slots, markers(label->set|'*'), new=bool, ret=slot|None)."""
    from pennylane.exceptions import TransformError

    op = s["op"]
    n = len(m.slots)
    keep = {k: {v} for k, v in m.markers.items()}

    def final_rule(new_slots):
        nf = sum(1 for x in new_slots if x[0] in FINAL)
        if nf >= 2:
            return TransformError
        if nf == 1 and new_slots[-1][0] not in FINAL:
            return ("maybe", TransformError)
        return None

    if op in ("append", "add_transform"):
        new = m.slots + slots_of(s["t"])
        return dict(err=final_rule(new), slots=new, markers=keep, new=False)
    if op == "insert":
        add = slots_of(s["t"])
        idx = norm_insert(s["i"], n)
        new = m.slots[:idx] + add + m.slots[idx:]
        err = final_rule(new)
        if s["t"]["t"] in FINAL and n > 0:
            # documented: "Terminal transform can only be added to the end of the pipeline"
            err = TransformError if idx < n or err is TransformError else ("maybe", TransformError)
        mk = {}
        for k, v in m.markers.items():
            mk[k] = {v} if v < idx else {v + len(add)} if v > idx else {v, v + len(add)}
        return dict(err=err, slots=new, markers=mk, new=False)
    if op == "pop":
        i = -1 if s["i"] is None else s["i"]
        if not -n <= i < n:
            return dict(err=IndexError, slots=m.slots, markers=keep, new=False)
        idx = i % n
        removed = [idx]
        if idx > 0 and m.slots[idx][0] == "e" and m.slots[idx - 1] == ("E", m.slots[idx][1]):
            removed.append(idx - 1)
        new = [x for j, x in enumerate(m.slots) if j not in removed]
        mk = {k: {surviving_level(v, removed)} for k, v in m.markers.items()}
        return dict(err=None, slots=new, markers=mk, new=False, ret=m.slots[idx])
    if op == "remove":
        t = s["t"]
        is_transform = t.get("arg") is None and not t.get("bound")
        target = (t["t"], t.get("arg"))
        removed = []
        for j, x in enumerate(m.slots):
            if (x[0] == target[0]) if is_transform else (x == target):
                removed.append(j)
                if j > 0 and x[0] == "e" and m.slots[j - 1] == ("E", x[1]) and (j - 1) not in removed:
                    removed.append(j - 1)
        new = [x for j, x in enumerate(m.slots) if j not in removed]
        mk = {k: {surviving_level(v, removed)} for k, v in m.markers.items()}
        return dict(err=None if removed else ("maybe", ValueError), slots=new, markers=mk, new=False)
    if op == "extend":
        new = list(m.slots)
        for t in s["ts"]:
            new = new + slots_of(t)
        return dict(err=final_rule(new), slots=new, markers=keep, new=False, partial=True)
    if op in ("extend_pipe", "add"):
        o = other_model(s["other"])
        new = m.slots + o.slots
        mk = dict(keep)
        for k, v in o.markers.items():
            mk[k] = {v + n}
        err = TransformError if (m.n_final and o.n_final) else final_rule(new)
        return dict(err=err, slots=new, markers=mk, new=(op == "add" and not s["inplace"]))
    if op == "add_tok":
        add = slots_of(s["t"])
        if s["side"] == "left":
            new = add + m.slots
            mk = {k: {v + len(add)} for k, v in m.markers.items()}
            return dict(err=final_rule(new), slots=new, markers=mk, new=True)
        new = m.slots + add
        return dict(err=final_rule(new), slots=new, markers=keep, new=not s["inplace"])
    if op == "mul":
        k = s["n"]
        if k < 0:
            return dict(err=ValueError, slots=m.slots, markers=keep, new=True)
        new = m.slots * k
        err = None
        if m.n_final:
            err = TransformError if k >= 2 else ("maybe", TransformError)
        return dict(err=err, slots=new, markers=keep if k >= 1 else {kk: "*" for kk in m.markers}, new=True)
    if op == "slice":
        sl = slice(s["a"], s["b"], s["c"])
        start, stop, stp = sl.indices(n)
        new = m.slots[sl]
        mk = {}
        for k, v in m.markers.items():
            if stp != 1:
                mk[k] = {None}  # "Markers have been dropped from the result" (documented warning)
            elif start < v < stop:
                mk[k] = {v - start}
            elif start <= stop and v in (start, stop):
                mk[k] = {None, v - start}
            else:
                mk[k] = {None}
        return dict(err=None, slots=new, markers=mk, new=True)
    if op == "copy":
        return dict(err=None, slots=list(m.slots), markers=keep, new=True)
    if op == "add_marker":
        lab, lev = s["label"], s["level"]
        bad = lab in ("top", "user") or lab in m.markers or (lev is not None and not 0 <= lev <= n)
        if bad:
            return dict(err=ValueError, slots=m.slots, markers=keep, new=False)
        mk = dict(keep)
        mk[lab] = {n if lev is None else lev}
        return dict(err=None, slots=m.slots, markers=mk, new=False)
    if op == "remove_marker":
        if s["label"] not in m.markers:
            return dict(err=ValueError, slots=m.slots, markers=keep, new=False)
        mk = {k: v for k, v in keep.items() if k != s["label"]}
        return dict(err=None, slots=m.slots, markers=mk, new=False)
    raise ValueError(op)


def other_model(o):
    slots = []
    for t in o["ts"]:
        slots += slots_of(t)
    # at most one terminal transform and only at the end (otherwise the operand itself is outside the documented domain)
    nf = [j for j, x in enumerate(slots) if x[0] in FINAL]
    if len(nf) > 1 or (nf and nf[0] != len(slots) - 1):
        slots = [x for x in slots if x[0] not in FINAL]
    mk = {}
    for lab, lev in o["markers"]:
        if lab not in mk and 0 <= lev <= len(slots):
            mk[lab] = lev
    return Model(slots, mk)


def run_step(p, s):
    """Execute the step on the real pipeline. Returns (result_pipeline_or_None, return_value)."""
    op = s["op"]
    if op == "append":
        p.append(obj_of(s["t"]))
        return None, None
    if op == "add_transform":
        t = s["t"]
        p.add_transform(T()[t["t"]], *(() if t.get("arg") is None else (t["arg"],)))
        return None, None
    if op == "insert":
        p.insert(s["i"], obj_of(s["t"]))
        return None, None
    if op == "pop":
        return None, (p.pop() if s["i"] is None else p.pop(s["i"]))
    if op == "remove":
        p.remove(obj_of(s["t"]))
        return None, None
    if op == "extend":
        objs = [obj_of(t) for t in s["ts"]]
        p.extend(objs if s["as"] == "list" else tuple(objs))
        return None, None
    if op == "extend_pipe":
        p.extend(rebuild(other_model(s["other"])))
        return None, None
    if op == "add":
        o = rebuild(other_model(s["other"]))
        if s["inplace"]:
            p += o
            return None, None
        return p + o, None
    if op == "add_tok":
        o = obj_of(s["t"])
        if s["side"] == "left":
            return o + p, None
        if s["inplace"]:
            p += o
            return None, None
        return p + o, None
    if op == "mul":
        return (p * s["n"] if s["side"] == "right" else s["n"] * p), None
    if op == "slice":
        return p[slice(s["a"], s["b"], s["c"])], None
    if op == "copy":
        return copy.copy(p), None
    if op == "add_marker":
        if s["level"] is None:
            p.add_marker(s["label"])
        else:
            p.add_marker(s["label"], s["level"])
        return None, None
    if op == "remove_marker":
        p.remove_marker(s["label"])
        return None, None
    raise ValueError(op)


def marker_state(p):
    got = {k: p.get_marker_level(k) for k in LABELS + OTHER_LABELS}
    return {k: v for k, v in got.items() if v is not None}


def check_container(spec):
    from pennylane import CompilePipeline
    from pennylane.exceptions import TransformError

    T()
    # initial pipeline (tokens without terminal transforms except possibly last: keep documented domain)
    init = list(spec["init"])
    seen_final = False
    clean = []
    for t in init:
        if t["t"] in FINAL:
            if seen_final:
                continue
            seen_final = True
        clean.append(t)
    if seen_final:
        clean = [t for t in clean if t["t"] not in FINAL] + [t for t in clean if t["t"] in FINAL]
    objs = [obj_of(t) for t in clean]
    m = Model()
    for t in clean:
        m.slots += slots_of(t)
    if spec["init_how"] == "args":
        p = CompilePipeline(*objs)
    elif spec["init_how"] == "list":
        p = CompilePipeline(objs)
        if not all(hasattr(o, "args") for o in objs):
            pass  # a list with bare Transforms goes through += and is expanded
        else:
            # a list of BoundTransforms only is stored as is (no expand slots added)
            m.slots = [(t["t"], t.get("arg")) for t in clean]
    else:
        p = CompilePipeline()
        for o in objs:
            p += o
    for lab, lev in spec.get("init_markers", []):
        if lab not in m.markers and 0 <= lev <= len(m.slots):
            p.add_marker(lab, lev)
            m.markers[lab] = lev
    agree(p, m, "initial", "init/" + spec["init_how"])

    older = []  # (pipeline, model) of earlier values that must stay untouched
    edits = 0
    with_marker = False
    labels = ["B:container"]
    for si, s in enumerate(spec["steps"]):
        s = resolve(m, s)
        op = s["op"]
        sig = op
        if op == "insert":
            sig += "/neg" if s["i"] < 0 else ""
            sig += "/expand" if s["t"]["t"] == "e" else ""
            sig += "/final" if s["t"]["t"] in FINAL else ""
        if op == "add_tok":
            sig += "/" + s["side"]
        if op == "mul":
            sig += f"/n={min(s['n'], 2)}"
        ex = expect(m, s)
        before = m.clone()
        what = f"step {si} {s} on {before.slots} {before.markers}"
        feats = {"op": sig}
        err = None
        try:
            res, ret = run_step(p, s)
        except (TransformError, ValueError, IndexError, TypeError) as e:
            err = e
        want = ex["err"]
        if err is not None:
            ok = want is not None and isinstance(err, want[1] if isinstance(want, tuple) else want)
            if not ok:
                raise Viol("unexpected-error", f"{what}: raised {type(err).__name__}: {err}", sig=sig, features=feats)
            # a refused operation must leave the pipeline as it was (extend may have appended a prefix, like list.extend)
            if ex.get("partial"):
                obs = observed_slots(p)
                if obs != ex["slots"][:len(obs)] or len(obs) < len(before.slots):
                    raise Viol("failed-op-state", f"{what}: after {type(err).__name__} transforms are {obs}", sig=sig, features=feats)
                m = Model(obs, marker_state(p))
                if m.markers != before.markers:
                    raise Viol("failed-op-state", f"{what}: markers changed to {m.markers}", sig=sig, features=feats)
            else:
                try:
                    agree(p, before, what + f" (after refused op: {type(err).__name__})", sig + "/failed-op-state")
                except Viol as v:
                    # resynchronise so that one defect is reported once per history, then re-raise
                    raise Viol("failed-op-state", v.detail, sig=sig + "/failed-op-state", features=feats) from None
            labels.append(f"B:{op}:error")
            continue
        if want is not None and not isinstance(want, tuple):
            raise Viol("missing-error", f"{what}: expected {want.__name__}, got no error", sig=sig, features=feats)
        target = res if ex["new"] else p
        if ex["new"] and res is None:
            raise Viol("harness", "no result")
        if ex["new"]:
            if not isinstance(target, CompilePipeline):
                raise Viol("result-type", f"{what}: returned {type(target).__name__}", sig=sig, features=feats)
            if target is p:
                raise Viol("aliasing", f"{what}: returned the same object", sig=sig, features=feats)
        try:
            adopted = _merge_markers(marker_state(target), ex["markers"], len(ex["slots"]))
        except ValueError as e:
            raise Viol("markers", f"{what} -> transforms {ex['slots']}: {e}", sig=sig + "/markers", features=feats) from None
        newm = Model(ex["slots"], adopted)
        if "ret" in ex and ex.get("ret") is not None:
            if observed_slots([ret]) != [ex["ret"]]:
                raise Viol("pop-return", f"{what}: returned {ret}, model {ex['ret']}", sig=sig, features=feats)
        agree(target, newm, what, sig)
        if ex["new"]:
            agree(p, before, what + " (left operand afterwards)", sig + "/operand-mutated")
            if s.get("keep", True) is False:
                pass
            else:
                older.append((p, before))
                older = older[-2:]
                p, m = target, newm
        else:
            m = newm
        for q, qm in older:
            agree(q, qm, what + " (earlier pipeline afterwards)", sig + "/aliasing")
        edits += 1
        if m.markers or before.markers:
            with_marker = True
        labels.append(f"B:{sig}")
    labels.append(f"B:final-len={min(len(m.slots), 8)}")
    return Result(edits >= 3 and with_marker, sorted(set(labels)))


def check(spec):
    if spec["mode"] == "results":
        return check_results(spec)
    return check_container(spec)


def selftest():
    assert surviving_level(3, [1, 2]) == 1 and surviving_level(1, [1]) == 1 and surviving_level(2, [1]) == 1
    assert norm_insert(-1, 3) == 2 and norm_insert(-9, 3) == 0 and norm_insert(9, 3) == 3
    r = t_lin((np.float64(1.0), np.zeros(2)), [2.0], [(np.float64(1.0), np.ones(2))])
    assert t_close(r, (3.0, 2 * np.ones(2)))
    assert not t_close((1.0, 2.0), (2.0, 1.0))
