"""C63 — ParametrizedEvolution equals independent integration of the Schroedinger equation; pulse gradients are correct."""
import numpy as np
from hypothesis import strategies as st

from pv import gen, specs
from pv.engine import Reject, Result, Viol
from pv.ref import gates as G
from pv.ref import pulse_ref as PR
from pv.ref import sim

ID = "C63"
TECHNIQUE = ("hypothesis-generated parametrized / hardware Hamiltonians with constant, piece-wise constant, windowed and smooth envelopes; "
             "oracle = scipy DOP853 (rtol 1e-11) / expm integration split at every envelope discontinuity, written from the documented "
             "envelope definitions; gradients against 5-point finite differences of that reference and the exact Monte-Carlo variance")
RULE = (
    "prop cases: Hamiltonian on 1-3 wires (int / str labels) with 1-4 terms, each an operator (Pauli word or weighted sum of words) times "
    "a coefficient from {fixed scalar, pulse.constant, pwc(span), pwc_from_function, rect(scalar | smooth, windows), a sin(w t), polyval, "
    "gaussian} or a hardware drive (rydberg_drive / transmon_drive with constant or callable amplitude, phase, detuning / frequency and "
    "the documented parameter order), built with qp.dot, operator arithmetic or as H1 + H2; time argument scalar, [t0,t1] or 3-5 "
    "increasing times overlapping the envelope spans, return_intermediate / complementary / dense options, atol=rtol=1e-10. Oracle: "
    "reference propagator by expm on segments where every envelope is constant and scipy DOP853 (rtol 1e-11) elsewhere, never stepping "
    "across a bin / window edge; (a) qp.matrix(qp.evolve(H)(params, t), wire_order=perm) == U(t_f,t_0) (all intermediate / "
    "complementary matrices when requested) within 1e-6; (b) a jax default.qubit QNode applying the evolution to a generated input state "
    "on 0-2 extra idle wires (both the matrix and the state-evolution path of apply_operation) returns the reference state within 1e-6. "
    "grad cases (fixed representatives in the quick tier, generated in the thorough tier): cost <B> after prep + evolution; reference "
    "gradient = 5-point central differences (h=2e-3) of the reference cost, cross-checked against the integral of the stochastic "
    "parameter-shift integrand i<[H_j,B(tau)]> df_j/dv; pulse_odegen within 1e-5, jax.grad within 1e-6, stoch_pulse_grad(num_split_times=100, "
    "fixed sampler_seed, broadcasting) within 5 sigma + 1e-6 where sigma = (t1-t0) std_tau(integrand)/sqrt(N) computed from the "
    "reference. Non-trivial: two non-commuting terms and a time-dependent coefficient inside the window."
)
ASSUMPTIONS = [
    "Envelope semantics are taken from the docstrings: pwc bins are half-open and 0 outside the span, rect windows are closed, "
    "pwc_from_function samples fn at linspace(t0, t1, num_bins) (pinned by its doc example), rydberg_drive = pi*amp(cos(phi) X - sin(phi) Y) - 2 pi det n, "
    "transmon_drive = 2 pi amp sin(phi + 2 pi freq t) Y.",
    "Times are increasing; Hamiltonians are Hermitian by construction; qp.pulse.drive (not in the documented API summary) is not used.",
    "stoch_pulse_grad is a Monte-Carlo estimator: only a 5-sigma band around the true derivative is asserted (sigma from the reference integrand).",
]
BUDGET = {"quick": {"examples": 20, "min_nontrivial": 2}, "thorough": {"examples": 1600, "shards": 16, "budget_s": 3300}}
SHRINK_LISTS = ("terms", "prep")

WIRE_SETS = [[0, 1, 2, 3, 4], ["a", "b", "c", "d", "e"], [2, "q", 0, "aux", 5]]
r3 = lambda lo, hi: st.floats(lo, hi).map(lambda v: round(v, 3)).filter(lambda v: abs(v) > 0.03)  # noqa: E731  (exact zeros create idle gaps)


# ----------------------------------------------------------------------------------------------------------------
# strategies
# ----------------------------------------------------------------------------------------------------------------

@st.composite
def smooth_coef(draw):
    kind = draw(st.sampled_from(["sin", "poly", "gauss", "constant"]))
    if kind == "sin":
        return {"f": "sin", "p": [draw(r3(-1.5, 1.5)), draw(r3(0.3, 3.0))]}
    if kind == "poly":
        return {"f": "poly", "p": draw(st.lists(r3(-0.6, 0.6), min_size=1, max_size=3))}
    if kind == "gauss":
        return {"f": "gauss", "p": [draw(r3(-1.5, 1.5)), draw(r3(0.2, 2.0))]}
    return {"f": "constant", "p": draw(r3(-1.5, 1.5))}


@st.composite
def span(draw):
    a = draw(st.sampled_from([0.0, 0.0, 0.5, -0.5, 1.0]))
    return [a, round(a + draw(st.sampled_from([1.0, 1.5, 2.0, 3.0])), 3)]


@st.composite
def coef(draw, fixed_ok=True):
    kind = draw(st.sampled_from((["fixed"] if fixed_ok else []) + ["smooth", "smooth", "pwc", "pwc", "rect", "pwcfn"]))
    if kind == "fixed":
        return {"f": "fixed", "c": draw(r3(-1.5, 1.5))}
    if kind == "smooth":
        return draw(smooth_coef())
    if kind == "pwc":
        sp = draw(span())
        return {"f": "pwc", "span": sp, "p": draw(st.lists(r3(-1.5, 1.5), min_size=1, max_size=5)),
                "scalar_span": sp[0] == 0.0 and draw(st.booleans())}
    if kind == "pwcfn":
        inner = draw(smooth_coef().filter(lambda c: c["f"] in ("sin", "poly") and (c["f"] != "poly" or len(c["p"]) >= 2)))
        sp = draw(span())
        return {"f": "pwcfn", "span": sp, "nb": draw(st.integers(2, 6)), "inner": inner, "scalar_span": sp[0] == 0.0 and draw(st.booleans())}
    a = draw(st.sampled_from([0.0, 0.3, 0.7, 1.0]))
    wins = [[a, round(a + draw(st.sampled_from([0.5, 1.0, 1.7])), 3)]]
    if draw(st.booleans()):
        b = round(wins[0][1] + draw(st.sampled_from([0.2, 0.5])), 3)
        wins.append([b, round(b + draw(st.sampled_from([0.4, 1.0])), 3)])
    inner = draw(st.one_of(smooth_coef(), r3(-1.5, 1.5).map(lambda v: {"f": "fixed", "c": v})))
    return {"f": "rect", "inner": inner, "win": wins, "single_tuple": len(wins) == 1 and draw(st.booleans())}


@st.composite
def pauli_op(draw, wires, max_terms=2):
    n_terms = draw(st.integers(1, max_terms))
    terms = []
    for i in range(n_terms):
        k = draw(st.integers(1, min(2, len(wires))))
        ws = draw(gen.subset(wires, k))
        word = draw(st.text("XYZ", min_size=k, max_size=k))
        terms.append([1.0 if n_terms == 1 else draw(r3(-1.2, 1.2).filter(lambda v: abs(v) > 0.05)), word, ws])
    return {"terms": terms}


@st.composite
def hw_term(draw, wires, kind):
    ws = draw(gen.subset(wires, draw(st.integers(1, len(wires)))))

    both = draw(st.booleans())  # amplitude and phase both callable: parameters are consolidated by the reorder function

    def part(scale, force=False):
        opts = [smooth_coef(), smooth_coef(), coef(fixed_ok=False).filter(lambda c: c["f"] == "pwc")]
        if not force:
            opts.append(r3(-scale, scale).map(lambda v: {"f": "fixed", "c": v}))
        return draw(st.one_of(*opts))

    amp = part(0.4, both).copy()
    if amp["f"] == "fixed" and abs(amp["c"]) < 0.05:
        amp["c"] = 0.25
    # keep drive strengths moderate: smooth amplitudes are scaled through their leading parameter
    t = {"hw": kind, "amp": amp, "phase": part(1.5, both), "w": ws}
    if kind == "rydberg":
        t["det"] = part(0.3)
    else:
        t["freq"] = part(0.3)
    return t


@st.composite
def times(draw):
    mode = draw(st.sampled_from(["scalar", "pair", "pair", "multi"]))
    if mode == "scalar":
        return draw(st.sampled_from([0.5, 1.0, 1.8, 2.5, 3.3]))
    t0 = draw(st.sampled_from([0.0, 0.0, 0.2, 0.2, 0.6, -0.4, 0.9, 1.3]))
    if mode == "pair":
        return [t0, round(t0 + draw(st.sampled_from([0.4, 1.0, 1.6, 2.7])), 3)]
    incs = draw(st.lists(st.sampled_from([0.3, 0.5, 0.8, 1.1]), min_size=2, max_size=4))
    return [round(t0 + sum(incs[:i]), 3) for i in range(len(incs) + 1)]


@st.composite
def hamiltonian(draw, n_max=3, hw_ok=True, max_terms=4):
    pool = draw(st.sampled_from(WIRE_SETS))
    n = draw(st.integers(1, n_max))
    wires = list(draw(st.permutations(pool[:n])))
    n_terms = draw(st.sampled_from([k for k in (1, 2, 2, 3, 3, 4) if k <= max_terms]))
    terms = []
    hw_kind = draw(st.sampled_from(["rydberg", "transmon"]))  # drives of different platforms cannot be added (documented ValueError)
    for _ in range(n_terms):
        if hw_ok and draw(st.integers(0, 3)) == 0:
            terms.append(draw(hw_term(wires, hw_kind)))
        else:
            terms.append({"coef": draw(coef()), "op": draw(pauli_op(wires))})
    if all("hw" not in t and t["coef"]["f"] == "fixed" for t in terms):
        terms[-1] = {"coef": draw(coef(fixed_ok=False)), "op": terms[-1]["op"]}
    return pool, wires, terms


@st.composite
def prop_case(draw):
    pool, wires, terms = draw(hamiltonian())
    t = draw(times())
    multi = isinstance(t, list) and len(t) > 2
    ri = draw(st.booleans()) if multi else draw(st.integers(0, 5)) == 0
    n_idle = draw(st.integers(0, 2))
    idle = [w for w in pool if w not in wires][:n_idle]
    dev_wires = list(draw(st.permutations(wires + idle)))
    return {"kind": "prop", "wires": wires, "terms": terms, "t": t, "ri": ri, "comp": ri and draw(st.booleans()),
            "dense": draw(st.sampled_from([None, None, True, False])), "build": draw(st.sampled_from(["dot", "arith", "split"])),
            "order": list(draw(st.permutations(wires))), "via": draw(st.sampled_from(["matrix", "matrix", "device", "device", "both"])),
            "dev_wires": dev_wires, "prep": draw(gen.op_list(dev_wires, pool=gen.GATES1 | {"CNOT": (0, 2), "CRY": (1, 2)}, max_depth=4,
                                                            ang=gen.generic_angles(), p_derive=0.0))}


@st.composite
def grad_case(draw, method=None):
    _, wires, terms = draw(hamiltonian(n_max=2, hw_ok=False, max_terms=3))
    for T in terms:  # keep the number of scalar parameters (finite differences, shift tapes) small
        c = T["coef"]
        if c["f"] == "pwc":
            c["p"] = c["p"][:3]
    t0 = draw(st.sampled_from([0.0, 0.2, 0.5]))
    return {"kind": "grad", "method": method or draw(st.sampled_from(["odegen", "stoch", "jax"])), "wires": wires, "terms": terms,
            "t": [t0, round(t0 + draw(st.sampled_from([0.6, 1.0, 1.5])), 3)],
            "prep": draw(gen.op_list(wires, pool={"RX": (1, 1), "RY": (1, 1), "Hadamard": (0, 1)}, max_depth=2, ang=gen.generic_angles(), p_derive=0.0)),
            "obs": draw(pauli_op(wires, max_terms=1)), "nsplit": 100, "seed": draw(st.integers(0, 1000)), "build": "dot"}


def strategy(tier):
    if tier == "quick":
        return prop_case()
    return st.one_of(*([prop_case()] * 12 + [grad_case()]))


GRAD_FIXED = [
    {"kind": "grad", "method": "odegen", "wires": ["a"], "t": [0.2, 1.1], "build": "dot", "nsplit": 40, "seed": 7,
     "terms": [{"coef": {"f": "fixed", "c": 0.5}, "op": {"terms": [[1.0, "X", ["a"]]]}},
               {"coef": {"f": "sin", "p": [0.9, 1.3]}, "op": {"terms": [[1.0, "Z", ["a"]]]}}],
     "prep": [{"op": "RY", "p": [0.4], "w": ["a"]}], "obs": {"terms": [[1.0, "Y", ["a"]]]}},
    {"kind": "grad", "method": "stoch", "wires": [0], "t": [0.1, 1.4], "build": "dot", "nsplit": 100, "seed": 18,
     "terms": [{"coef": {"f": "fixed", "c": 0.6}, "op": {"terms": [[1.0, "X", [0]]]}},
               {"coef": {"f": "sin", "p": [0.9, 1.1]}, "op": {"terms": [[1.0, "Z", [0]]]}}],
     "prep": [{"op": "RX", "p": [0.7], "w": [0]}], "obs": {"terms": [[1.0, "Y", [0]]]}},
    {"kind": "grad", "method": "jax", "wires": [1, 0], "t": [0.0, 0.9], "build": "arith", "nsplit": 40, "seed": 3,
     "terms": [{"coef": {"f": "gauss", "p": [1.1, 0.7]}, "op": {"terms": [[1.0, "XY", [0, 1]]]}},
               {"coef": {"f": "rect", "inner": {"f": "sin", "p": [1.2, 2.0]}, "win": [[0.3, 0.7]], "single_tuple": True}, "op": {"terms": [[1.0, "Z", [1]]]}},
               {"coef": {"f": "fixed", "c": -0.4}, "op": {"terms": [[1.0, "X", [1]]]}}],
     "prep": [{"op": "Hadamard", "p": [], "w": [0]}], "obs": {"terms": [[1.0, "ZZ", [0, 1]]]}},
    {"kind": "grad", "method": "odegen", "wires": [0, 1], "t": [0.2, 1.1], "build": "dot", "nsplit": 40, "seed": 7,
     "terms": [{"coef": {"f": "fixed", "c": 0.5}, "op": {"terms": [[1.0, "X", [0]]]}},
               {"coef": {"f": "constant", "p": 0.4}, "op": {"terms": [[1.0, "ZZ", [0, 1]]]}},
               {"coef": {"f": "sin", "p": [0.9, 1.3]}, "op": {"terms": [[0.2, "Y", [0]], [0.7, "X", [1]]]}}],
     "prep": [{"op": "RY", "p": [0.4], "w": [0]}], "obs": {"terms": [[1.0, "Y", [1]]]}},
    {"kind": "grad", "method": "stoch", "wires": ["a", "b"], "t": [0.1, 1.4], "build": "dot", "nsplit": 40, "seed": 5,
     "terms": [{"coef": {"f": "fixed", "c": 0.6}, "op": {"terms": [[1.0, "X", ["a"]]]}},
               {"coef": {"f": "pwc", "span": [0.0, 2.0], "p": [0.8, -0.5, 0.3], "scalar_span": False}, "op": {"terms": [[1.0, "ZZ", ["a", "b"]]]}},
               {"coef": {"f": "poly", "p": [0.5, 0.2]}, "op": {"terms": [[1.0, "Y", ["b"]]]}}],
     "prep": [{"op": "RX", "p": [0.7], "w": ["a"]}], "obs": {"terms": [[1.0, "Z", ["b"]]]}},
]


def enumerate_cases(tier):
    # gradient transforms cost 10-30 CPU-seconds each (jax differentiates through the ODE solver): the quick tier runs fixed representatives
    # intermediate / complementary propagators of Hamiltonians that do not commute with themselves at different times (the order
    # U(t0,tf) U(t0,ti)^dagger matters only there): fixed representatives, matrix and device routes
    noncomm = [{"coef": {"f": "poly", "p": [0.4, -0.7, 0.5]}, "op": {"terms": [[1.0, "X", [0]]]}},
               {"coef": {"f": "poly", "p": [-0.6, 0.9, 0.3]}, "op": {"terms": [[1.0, "ZY", [0, 1]]]}},
               {"coef": {"f": "fixed", "c": 0.8}, "op": {"terms": [[1.0, "Z", [1]]]}}]
    prep = [{"op": "RY", "p": [0.7], "w": [0]}, {"op": "CNOT", "p": [], "w": [0, 1]}, {"op": "RX", "p": [-0.4], "w": [1]}]
    fixed = [{"kind": "prop", "wires": [0, 1], "terms": noncomm, "t": [0.0, 0.6, 1.3, 2.1], "ri": True, "comp": comp, "dense": dense, "build": "dot",
              "order": order, "via": "both", "dev_wires": [1, 0], "prep": prep}
             for comp, dense, order in ((True, None, [0, 1]), (True, True, [1, 0]), (False, None, [1, 0]))]
    if tier == "quick":
        return fixed + GRAD_FIXED[:2]
    return fixed + GRAD_FIXED


# ----------------------------------------------------------------------------------------------------------------
# PennyLane-side builders
# ----------------------------------------------------------------------------------------------------------------

def jcoef(c, qp, jnp):
    kind = c["f"]
    if kind == "fixed":
        return float(c["c"])
    if kind == "constant":
        return qp.pulse.constant
    if kind == "sin":
        return lambda p, t: p[0] * jnp.sin(p[1] * t)
    if kind == "poly":
        return jnp.polyval
    if kind == "gauss":
        return lambda p, t: p[0] * jnp.exp(-p[1] * (t - 1.0) ** 2)
    if kind == "pwc":
        return qp.pulse.pwc(c["span"][1] if c.get("scalar_span") else tuple(c["span"]))
    if kind == "pwcfn":
        return qp.pulse.pwc_from_function(c["span"][1] if c.get("scalar_span") else tuple(c["span"]), c["nb"])(jcoef(c["inner"], qp, jnp))
    if kind == "rect":
        wins = tuple(c["win"][0]) if c.get("single_tuple") else [tuple(w) for w in c["win"]]
        return qp.pulse.rect(jcoef(c["inner"], qp, jnp), windows=wins)
    raise ValueError(kind)


def jop(o, qp):
    def word_op(word, wires):
        ops = [getattr(qp, "Pauli" + ch)(specs.wire(w)) for ch, w in zip(word, wires)]
        return ops[0] if len(ops) == 1 else qp.prod(*ops)

    ws = [word_op(word, wires) for _, word, wires in o["terms"]]
    if len(ws) == 1 and o["terms"][0][0] == 1.0:
        return ws[0]
    return qp.dot([c for c, _, _ in o["terms"]], ws)


def build_hamiltonian(spec, qp, jnp):
    """-> (H, params list in the documented order)."""
    parts, params = [], []
    for T in spec["terms"]:
        if "hw" in T:
            args = []
            for key in ("amp", "phase", "det" if T["hw"] == "rydberg" else "freq"):
                c = T[key]
                args.append(jcoef(c, qp, jnp))
                if c["f"] != "fixed":
                    params.append(PR.params_of(c))
            fn = qp.pulse.rydberg_drive if T["hw"] == "rydberg" else qp.pulse.transmon_drive
            parts.append(("hw", fn(*args, wires=[specs.wire(w) for w in T["w"]])))
        else:
            c = T["coef"]
            parts.append(("gen", (jcoef(c, qp, jnp), jop(T["op"], qp))))
            if c["f"] != "fixed":
                params.append(PR.params_of(c))
    build = spec.get("build", "dot")

    def gen_sum(items, how):
        if how == "dot":
            return qp.dot([c for c, _ in items], [o for _, o in items])
        H = None
        for c, o in items:
            term = c * o
            H = term if H is None else H + term
        return H

    # group consecutive generic terms, then add groups / drives in order of appearance
    groups, cur = [], []
    for kind, obj in parts:
        if kind == "gen":
            cur.append(obj)
        else:
            if cur:
                groups.append(("gen", cur))
                cur = []
            groups.append(("hw", obj))
    if cur:
        groups.append(("gen", cur))
    if build == "split" and len(groups) == 1 and groups[0][0] == "gen" and len(groups[0][1]) >= 2:
        items = groups[0][1]
        k = len(items) // 2
        groups = [("gen", items[:k]), ("gen", items[k:])]
    H = None
    for kind, obj in groups:
        part = obj if kind == "hw" else gen_sum(obj, "arith" if build == "arith" else "dot")
        H = part if H is None else H + part
    return H, [jnp.array(p, dtype=jnp.float64) for p in params]


def _times(spec):
    t = spec["t"]
    return [0.0, float(t)] if not isinstance(t, list) else [float(x) for x in t]


def _nontrivial(spec, order):
    ex = PR.expand_terms(spec["terms"], order)
    ts = _times(spec)
    mats = [M for _, M, _, _ in ex]
    noncomm = any(np.abs(A @ B - B @ A).max() > 1e-9 for i, A in enumerate(mats) for B in mats[i + 1:])
    grid = np.linspace(ts[0], ts[-1], 23)[1:-1]
    timedep = False
    for fn, _, _, _ in ex:
        vals = [float(fn(t)(t)) for t in grid]
        if max(vals) - min(vals) > 1e-6:
            timedep = True
    return noncomm and timedep, noncomm, timedep


def _zero_gap(spec, order):
    """True if H(t) vanishes identically on a segment of the window that is followed by a segment with H != 0
    (an adaptive solver with unbounded step size can step over the later pulse: known finding)."""
    ex = PR.expand_terms(spec["terms"], order)
    ts = _times(spec)
    pts = sorted({ts[0], ts[-1]} | {float(b) for _, _, br, _ in ex for b in br if ts[0] < b < ts[-1]})
    zero = []
    for s0, s1 in zip(pts[:-1], pts[1:]):
        grid = np.linspace(s0, s1, 7)[1:-1]
        zero.append(all(abs(float(fn(0.5 * (s0 + s1))(t))) < 1e-14 for fn, _, _, _ in ex for t in grid))
    return any(z and not all(zero[i + 1:]) for i, z in enumerate(zero))


def _labels(spec):
    labs = []
    for T in spec["terms"]:
        if "hw" in T:
            labs.append("hw:" + T["hw"])
            labs += [f"hw-{k}:{T[k]['f']}" for k in ("amp", "phase", "det", "freq") if k in T]
        else:
            labs.append("f:" + T["coef"]["f"])
    return labs


# ----------------------------------------------------------------------------------------------------------------
# checks
# ----------------------------------------------------------------------------------------------------------------

def check_prop(spec, qp, jax, jnp):
    wires = [specs.wire(w) for w in spec["wires"]]
    order = [specs.wire(w) for w in spec["order"]]
    ts = _times(spec)
    H, params = build_hamiltonian(spec, qp, jnp)
    if not isinstance(H, qp.pulse.ParametrizedHamiltonian):
        raise AssertionError(f"generator produced a non-parametrized Hamiltonian: {type(H)}")
    kw = {"atol": 1e-10, "rtol": 1e-10}
    if spec["ri"]:
        kw["return_intermediate"] = True
        if spec["comp"]:
            kw["complementary"] = True
    if spec["dense"] is not None:
        kw["dense"] = spec["dense"]
    feats = {"ri": spec["ri"], "comp": spec["comp"], "build": spec["build"], "hw": any("hw" in T for T in spec["terms"]),
             "coefs": sorted(set(_labels(spec))), "zero_gap": _zero_gap(spec, order)}
    tref = spec["t"] if not isinstance(spec["t"], list) else spec["t"]
    Us = PR.propagate(spec["terms"], order, ts)
    if spec["ri"]:
        ref = np.stack([Us[-1] @ U.conj().T for U in Us]) if spec["comp"] else np.stack(Us)
    else:
        ref = Us[-1]
    mode = "ri-comp" if spec["ri"] and spec["comp"] else "ri" if spec["ri"] else "final"
    if spec["via"] in ("matrix", "both"):
        op = qp.evolve(H)(params, tref, **kw)
        got = np.asarray(qp.matrix(op, wire_order=order))
        if got.shape != ref.shape:
            raise Viol("matrix-shape", f"{got.shape} vs {ref.shape} mode={mode}", sig="matrix:" + mode, features=feats)
        err = float(np.abs(got - ref).max())
        if err > 1e-6:
            raise Viol("propagator", f"max |U_pl - U_ref| = {err:.3g} mode={mode} t={spec['t']} terms={spec['terms']} build={spec['build']} "
                       f"dense={spec['dense']} order={spec['order']}", sig="matrix:" + mode, features=feats)
    if spec["via"] in ("device", "both"):
        dev_wires = [specs.wire(w) for w in spec["dev_wires"]]
        prep = [specs.build_op(o) for o in spec["prep"]]
        dev = qp.device("default.qubit", wires=dev_wires)

        @qp.qnode(dev, interface="jax")
        def circ(ps):
            for o in prep:
                qp.apply(o)
            qp.evolve(H)(ps, tref, **kw)
            return qp.state()

        got = np.asarray(circ(params))
        psi0 = sim.run_ops(prep, dev_wires)
        full = [sim.embed(U, order, dev_wires) for U in (ref if spec["ri"] else [ref])]
        exp = np.stack([F @ psi0 for F in full]) if spec["ri"] else full[0] @ psi0
        path = "state-path" if 2 * len(H.wires) > len(dev_wires) and not spec["comp"] else "matrix-path"
        if got.shape != exp.shape:
            raise Viol("state-shape", f"{got.shape} vs {exp.shape} mode={mode}", sig="device:" + mode, features=feats)
        err = float(np.abs(got - exp).max())
        if err > 1e-6:
            raise Viol("device-state", f"max |psi_pl - psi_ref| = {err:.3g} ({path}) mode={mode} t={spec['t']} terms={spec['terms']} "
                       f"dev_wires={spec['dev_wires']} prep={spec['prep']}", sig="device:" + mode + ":" + path, features={**feats, "path": path})
        feats["path"] = path
    nt, noncomm, timedep = _nontrivial(spec, order)
    labels = ["prop", "via:" + spec["via"], "mode:" + mode, "build:" + spec["build"], f"wires={len(wires)}",
              "t:" + ("scalar" if not isinstance(spec["t"], list) else "pair" if len(spec["t"]) == 2 else "multi")] + _labels(spec)
    if "path" in feats:
        labels.append(feats["path"])
    if not timedep:
        labels.append("constant-H(expm)")
    if feats["zero_gap"]:
        labels.append("zero-gap")
    return Result(nt, labels=labels)


def _flat_params(spec):
    """[(term index, sub-index or None, value)] for every scalar parameter of the generic Hamiltonian, in params order."""
    out = []
    k = 0
    for ti, T in enumerate(spec["terms"]):
        c = T["coef"]
        if c["f"] == "fixed":
            continue
        p = PR.params_of(c)
        if isinstance(p, list):
            out += [(ti, k, i, v) for i, v in enumerate(p)]
        else:
            out.append((ti, k, None, p))
        k += 1
    return out


def _with_value(spec, ti, i, v):
    terms = [dict(T) for T in spec["terms"]]
    c = terms[ti]["coef"]
    p = PR.params_of(c)
    if i is None:
        newp = v
    else:
        newp = list(p)
        newp[i] = v
    terms[ti] = {**terms[ti], "coef": PR.with_params(c, newp)}
    return {**spec, "terms": terms}


def _ref_cost(spec, order, psi0, B):
    U = PR.propagate(spec["terms"], order, _times(spec))[-1]
    psi = U @ psi0
    return float(np.vdot(psi, B @ psi).real)


def check_grad(spec, qp, jax, jnp):
    wires = [specs.wire(w) for w in spec["wires"]]
    order = wires
    H, params = build_hamiltonian(spec, qp, jnp)
    prep = [specs.build_op(o) for o in spec["prep"]]
    psi0 = sim.run_ops(prep, order)
    B = PR.op_matrix(spec["obs"], order)
    flat = _flat_params(spec)
    if not 1 <= len(flat) <= 8:
        raise Reject("parameter count outside the budget")
    # reference gradient: 5-point central differences of the reference cost
    h = 2e-3
    ref = []
    for ti, k, i, v in flat:
        f = [_ref_cost(_with_value(spec, ti, i, v + s * h), order, psi0, B) for s in (-2, -1, 1, 2)]
        ref.append((f[0] - 8 * f[1] + 8 * f[2] - f[3]) / (12 * h))
    ref = np.array(ref)
    ts = _times(spec)
    kw = {"atol": 1e-10, "rtol": 1e-10}
    method = spec["method"]
    obs = jop(spec["obs"], qp)
    feats = {"method": method, "coefs": sorted(set(_labels(spec)))}
    dev = qp.device("default.qubit", wires=wires)

    def flatten(g):
        out = []
        for x in g:
            out += list(np.asarray(x, dtype=float).reshape(-1))
        return np.array(out)

    if method == "jax":
        @qp.qnode(dev, interface="jax")
        def circ(ps):
            for o in prep:
                qp.apply(o)
            qp.evolve(H)(ps, ts, **kw)
            return qp.expval(obs)

        got = flatten(jax.grad(circ)(params))
        tol = 1e-6
    else:
        op = qp.evolve(H)(params, ts, **kw)
        tape = qp.tape.QuantumScript(prep + [op], [qp.expval(obs)])
        n_prep = sum(len(o.data) for o in prep)
        tape.trainable_params = list(range(n_prep, n_prep + len(params)))
        if method == "odegen":
            tapes, fn = qp.gradients.pulse_odegen(tape)
            tol = 1e-5
        else:
            tapes, fn = qp.gradients.stoch_pulse_grad(tape, num_split_times=spec["nsplit"], sampler_seed=spec["seed"], use_broadcasting=True)
            tol = None
        res = dev.execute(tapes) if tapes else ()
        g = fn(res)
        got = flatten(g if isinstance(g, (tuple, list)) else [g])
    if got.shape != ref.shape:
        raise Viol("grad-shape", f"{method}: {got.shape} vs {ref.shape}", sig=method, features=feats)
    if tol is not None:
        err = float(np.abs(got - ref).max())
        if err > tol:
            raise Viol("gradient", f"{method}: max |g - g_ref| = {err:.3g}; got {got.tolist()} ref {ref.tolist()} terms={spec['terms']} t={spec['t']} "
                       f"obs={spec['obs']} prep={spec['prep']}", sig=method, features=feats)
        sig_lab = "exact"
    else:
        # stochastic rule: integrand g(tau) = df_j/dv (tau) * i <phi(tau)| [H_j, B(tau)] |phi(tau)>,  estimator = (t1-t0) mean_N g(tau_n)
        Us, at = PR.propagate(spec["terms"], order, ts, dense=True)
        UT = Us[-1]
        taus = np.linspace(ts[0], ts[-1], 801)[1:-1]
        ex = PR.expand_terms(spec["terms"], order)
        integ = np.zeros((len(flat), len(taus)))
        for n, tau in enumerate(taus):
            Ut = at(tau)
            phi = Ut @ psi0
            Bt = Ut @ UT.conj().T @ B @ UT @ Ut.conj().T
            for r, (ti, k, i, v) in enumerate(flat):
                Hj = ex[ti][1]
                comm = 1j * np.vdot(phi, (Hj @ Bt - Bt @ Hj) @ phi)
                c = spec["terms"][ti]["coef"]
                e = 1e-6
                df = (PR.value(PR.with_params(c, _bump(PR.params_of(c), i, e)), tau) - PR.value(PR.with_params(c, _bump(PR.params_of(c), i, -e)), tau)) / (2 * e)
                integ[r, n] = df * comm.real
        T = ts[-1] - ts[0]
        mean = integ.mean(axis=1) * T
        # the integrand model must reproduce the finite-difference gradient (up to quadrature error of the grid)
        assert np.allclose(mean, ref, atol=5e-3), ("stochastic integrand model disagrees with finite differences", mean.tolist(), ref.tolist())
        sigma = T * integ.std(axis=1) / np.sqrt(spec["nsplit"])
        bad = np.abs(got - ref) > 5 * sigma + 1e-6
        if bad.any():
            raise Viol("gradient-stoch", f"stoch_pulse_grad outside 5 sigma: got {got.tolist()} ref {ref.tolist()} sigma {sigma.tolist()} "
                       f"terms={spec['terms']} t={spec['t']} seed={spec['seed']}", sig="stoch", features=feats)
        sig_lab = "sigma/|g|<0.2" if np.all(sigma < 0.2 * np.maximum(np.abs(ref), 1e-3)) else "sigma-large"
    nt, _, _ = _nontrivial(spec, order)
    return Result(True, labels=["grad", "method:" + method, sig_lab, f"nparams={len(flat)}", "noncommuting+timedep" if nt else "simple"] + _labels(spec))


def _bump(p, i, e):
    if i is None:
        return p + e
    q = list(p)
    q[i] = q[i] + e
    return q


def check(spec):
    import jax
    import jax.numpy as jnp
    import pennylane as qp

    jax.config.update("jax_enable_x64", True)
    return (check_prop if spec["kind"] == "prop" else check_grad)(spec, qp, jax, jnp)


def selftest():
    G.selftest()
    PR.selftest()
