"""C54 — binary / unary / Christiansen boson-to-qubit mappings represent truncated boson operators."""
import numpy as np
from hypothesis import strategies as st

from pv import gen
from pv.cmp import close, maxdiff
from pv.engine import Reject, Result, Viol
from pv.ref import bose as Bo

ID = "C54"
TECHNIQUE = "hypothesis-generated Bose sentences x mapping x truncation vs products of truncated ladder matrices on the encoded subspace"
RULE = (
    "Bose sentences A, B (0-3 terms, words of 0-4 ladder operators on m = 1-3 modes (Christiansen up to 4), repeated "
    "modes favoured, exact quarter-integer complex coefficients; words built from a sorted dict, a dict in reverse "
    "insertion order, or products of single-operator words) x mapping in {binary, unary (n_states 2..8, total qubits "
    "<= 6 in quick, 8 in thorough), christiansen} x ps x wire_map (bijection on the qubit indices) x tol. Oracle "
    "(pv.ref.bose): with V the isometry of the documented encoding (binary: qubit b*nq+t = bit t of the level, unary: "
    "one-hot, Christiansen: occupation qubit), V^dag M V == ordered product of *truncated* ladder matrices and "
    "(1 - V V^dag) M V == 0 (the encoded subspace is invariant) for M = image of A, B, A+B, A-B, k*A, A^dagger, "
    "single words, word*word and A*B; full-space identities image(A)+image(B) == image(A+B), image(A)^dag == "
    "image(A^dag); n_states < 2 raises ValueError. Tolerance 1e-9. Non-trivial: a word with >= 2 operators and B "
    "non-empty."
)
ASSUMPTIONS = [
    "Products are compared as products of truncated matrices (truncation per factor), as the statement says.",
    "wire_map is a bijection on all qubit indices 0..Q-1; tol <= 1e-8 only drops rounding-level imaginary parts.",
    "Word lengths are capped per configuration so that the Pauli expansion stays below ~4^6 words.",
]
BUDGET = {"quick": {"examples": 500}, "thorough": {"examples": 30000, "shards": 16}}
SHRINK_LISTS = ("A", "B", "f")
TOL = 1e-9

_q = st.sampled_from([1.0, 1.0, -1.0, 0.5, -0.5, 0.25, 2.0, -1.5, 0.0])
_coef = st.one_of(st.tuples(_q, st.just(0.0)), st.tuples(_q, st.just(0.0)), st.tuples(_q, _q), st.tuples(st.just(0.0), _q)).map(list)


def _configs(tier):
    """(kind, d, m, max word length) with total qubits Q = m * qubits_per_mode bounded."""
    qmax = 6 if tier == "quick" else 8
    out = []
    for d in range(2, 9):
        nq = Bo.qubits_per_mode("binary", d)
        for m in (1, 2, 3):
            if m * nq <= qmax:
                L = 4 if (nq == 1 or m == 1 or (nq == 2 and m == 2)) else (3 if nq == 2 else 2)
                out.append(("binary", d, m, L))
            if m * d <= qmax:
                out.append(("unary", d, m, 4))
    for m in (1, 2, 3, 4):
        out.append(("christiansen", 2, m, 4))
    return out


@st.composite
def _word(draw, m, L):
    k = draw(st.sampled_from([x for x in [0, 1, 1, 2, 2, 2, 3, 4, 4] if x <= L]))
    f = []
    for _ in range(k):
        if f and draw(st.integers(0, 2)) > 0:
            b = draw(st.sampled_from(f))[0]  # repeated mode: products of truncated matrices matter
        else:
            b = draw(st.integers(0, m - 1))
        f.append([b, draw(st.sampled_from(["+", "-"]))])
    return f


@st.composite
def _sentence(draw, m, L, max_terms):
    return [{"c": draw(_coef), "f": draw(_word(m, L)), "style": draw(st.sampled_from(["dict", "dict-rev", "ops"]))}
            for _ in range(draw(st.sampled_from([0] + list(range(1, max_terms + 1)) * 2)))]


@st.composite
def _case(draw, tier):
    kind, d, m, L = draw(st.sampled_from(_configs(tier)))
    Q = m * Bo.qubits_per_mode(kind, d)
    wm = draw(st.sampled_from([None, None, "perm", "labels"]))
    return {
        "kind": kind, "d": d, "m": m, "L": L,
        "A": draw(_sentence(m, L, 3)),
        "B": draw(_sentence(m, max(L // 2, 1), 2)),
        "k": draw(_coef),
        "ps": draw(st.booleans()),
        "wm": None if wm is None else {"kind": wm, "perm": list(draw(st.permutations(list(range(Q)))))},
        "tol": draw(st.sampled_from([None, None, 1e-12, 1e-8])),
    }


def strategy(tier):
    return _case(tier)


def enumerate_cases(tier):
    """Every single ladder operator and the number operator for every configuration; the n_states < 2 rejection."""
    yield {"reject": True}
    for kind, d, m, _ in _configs(tier):
        b = m - 1
        A = [{"c": [1.0, 0.0], "f": [[b, "+"]], "style": "dict"}, {"c": [0.5, 0.0], "f": [[b, "+"], [b, "-"]], "style": "dict"}]
        yield {"kind": kind, "d": d, "m": m, "L": 4, "A": A, "B": [{"c": [1.0, 0.0], "f": [[0, "-"]], "style": "dict"}],
               "k": [2.0, 0.0], "ps": True, "wm": None, "tol": None}


# ---------------------------------------------------------------- builders
def _c(pair):
    re, im = pair
    return complex(re, im) if im != 0 else float(re)


def _bw(t):
    from pennylane.bose import BoseWord

    f = t["f"]
    items = [((i, b), s) for i, (b, s) in enumerate(f)]
    if t["style"] == "dict-rev":
        return BoseWord(dict(reversed(items)))
    if t["style"] == "ops" and f:
        out = None
        for b, s in f:
            x = BoseWord({(0, b): s})
            out = x if out is None else out * x
        return out
    return BoseWord(dict(items))


def _bs(terms):
    from pennylane.bose import BoseSentence

    out = BoseSentence({})
    for t in terms:
        out = out + _c(t["c"]) * _bw(t)
    return out


def _ref_terms(terms):
    return [(complex(*t["c"]), [(b, s) for b, s in t["f"]]) for t in terms]


def _mat(res, order):
    import pennylane as qp
    from pennylane.pauli import PauliSentence

    if isinstance(res, PauliSentence):
        return np.asarray(res.to_mat(wire_order=order))
    return np.asarray(qp.matrix(res, wire_order=order))


def _mapper(kind, d):
    import pennylane as qp

    if kind == "binary":
        return lambda op, **kw: qp.binary_mapping(op, n_states=d, **kw)
    if kind == "unary":
        return lambda op, **kw: qp.unary_mapping(op, n_states=d, **kw)
    return lambda op, **kw: qp.christiansen_mapping(op, **kw)


def check(spec):
    import pennylane as qp
    from pennylane.bose import BoseWord
    from pennylane.pauli import PauliSentence

    if "reject" in spec:
        for fn in (qp.binary_mapping, qp.unary_mapping):
            for ns in (1, 0):
                try:
                    fn(BoseWord({(0, 0): "+"}), n_states=ns)
                except ValueError:
                    pass
                else:
                    raise Viol("n_states-range", f"{fn.__name__} accepted n_states={ns}")
        return Result(False, labels=["reject-n_states"])

    kind, d, m, L = spec["kind"], spec["d"], spec["m"], spec["L"]
    qpm = Bo.qubits_per_mode(kind, d)
    Q = m * qpm
    V = Bo.isometry(kind, m, d)
    Pperp = np.eye(2**Q) - V @ V.T
    fn = _mapper(kind, d)
    kw = {"ps": spec["ps"]}
    if spec["tol"] is not None:
        kw["tol"] = spec["tol"]
    order = list(range(Q))
    if spec["wm"] is not None:
        if spec["wm"]["kind"] == "perm":
            wire_map = {i: spec["wm"]["perm"][i] for i in range(Q)}
        else:
            wire_map = {i: f"q{spec['wm']['perm'][i]}" for i in range(Q)}
        kw["wire_map"] = wire_map
        order = [wire_map[i] for i in range(Q)]

    A, B = _bs(spec["A"]), _bs(spec["B"])
    ta, tb = _ref_terms(spec["A"]), _ref_terms(spec["B"])
    RA, RB = Bo.sentence_matrix(ta, m, d), Bo.sentence_matrix(tb, m, d)
    k, kc = _c(spec["k"]), complex(*spec["k"])
    Id = np.eye(d**m)
    derived = {
        "A": (A, RA, False),
        "B": (B, RB, False),
        "A+B": (A + B, RA + RB, False),
        "A-B": (A - B, RA - RB, False),
        "k*A": (k * A, kc * RA, False),
        "A+k": (A + k, RA + kc * Id, False),
        "adj(A)": (A.adjoint(), RA.conj().T, False),
    }
    lens_a = [len(t["f"]) for t in spec["A"]] or [0]
    lens_b = [len(t["f"]) for t in spec["B"]] or [0]
    unsorted_b = any(t["style"] == "dict-rev" and len(t["f"]) >= 2 for t in spec["B"])
    unsorted_a = any(t["style"] == "dict-rev" and len(t["f"]) >= 2 for t in spec["A"])
    if max(lens_a) + max(lens_b) <= L:
        derived["A*B"] = (A * B, RA @ RB, unsorted_b)
        derived["B*A"] = (B * A, RB @ RA, unsorted_a)
    for idx, t in enumerate(spec["A"][:2]):
        w = _bw(t)
        RW = Bo.word_matrix([(b, s) for b, s in t["f"]], m, d)
        derived[f"word{idx}"] = (w, RW, False)
        derived[f"adj(word{idx})"] = (w.adjoint(), RW.conj().T, False)
        if spec["B"] and len(t["f"]) + len(spec["B"][0]["f"]) <= L:
            t2 = spec["B"][0]
            w2 = _bw(t2)
            RW2 = Bo.word_matrix([(b, s) for b, s in t2["f"]], m, d)
            derived[f"word{idx}*word"] = (w * w2, RW @ RW2, t2["style"] == "dict-rev" and len(t2["f"]) >= 2)
            derived[f"word*word{idx}"] = (w2 * w, RW2 @ RW, t["style"] == "dict-rev" and len(t["f"]) >= 2)

    mats = {}
    for what, (op, R, unsorted_operand) in derived.items():
        res = fn(op, **kw)
        if spec["ps"] and not isinstance(res, PauliSentence):
            raise Viol("return-type", f"{kind}({what}, ps=True) returned {type(res)}", sig=kind)
        if not spec["ps"] and not isinstance(res, qp.operation.Operator):
            raise Viol("return-type", f"{kind}({what}, ps=False) returned {type(res)}", sig=kind)
        M = _mat(res, order)
        if M.shape != (2**Q, 2**Q):
            raise Viol("shape", f"{kind}({what}): {M.shape} for {Q} qubits", sig=kind)
        MV = M @ V
        got = V.T @ MV
        cls = ("product" if "*" in what and what != "k*A" else "adjoint" if what.startswith("adj") else
               "linear" if what in ("A+B", "A-B", "k*A", "A+k") else "value")
        feats = {"mapping": kind, "what": what.split("(")[0], "unsorted_right_operand": bool(unsorted_operand)}
        sig = "bose-mul-unsorted-operand" if (cls == "product" and unsorted_operand) else kind
        if not close(got, R, TOL):
            raise Viol("image-" + cls, f"{kind}(n_states={d})({what}) on the encoded subspace differs from the truncated "
                       f"ladder product by {maxdiff(got, R)}", sig=sig, features=feats)
        leak = np.abs(Pperp @ MV).max()
        if leak > TOL:
            raise Viol("subspace-leak", f"{kind}(n_states={d})({what}) maps encoded states out of the encoded subspace ({leak})",
                       sig=sig, features=feats)
        mats[what] = M
    if not close(mats["A"] + mats["B"], mats["A+B"], TOL):
        raise Viol("sum-preserved", f"{kind}: image(A)+image(B) != image(A+B)", sig=kind)
    if not close(mats["A"].conj().T, mats["adj(A)"], TOL):
        raise Viol("adjoint-preserved", f"{kind}: image(A)^dag != image(A^dag)", sig=kind)
    if not close(kc * mats["A"], mats["k*A"], TOL):
        raise Viol("sum-preserved", f"{kind}: k*image(A) != image(k*A)", sig=kind)

    maxlen = max(lens_a)
    labs = [kind, f"d={d}", f"m={m}", "ps" if spec["ps"] else "op", f"maxlen={maxlen}",
            "wire_map=" + (spec["wm"]["kind"] if spec["wm"] else "none")]
    if kind == "binary" and d not in (2, 4, 8):
        labs.append("binary-non-pow2")
    if any(len({b for b, _ in t["f"]}) < len(t["f"]) for t in spec["A"]):
        labs.append("repeated-mode")
    if "A*B" in derived:
        labs.append("sentence-product")
    if unsorted_a or unsorted_b:
        labs.append("unsorted-dict")
    return Result(nontrivial=maxlen >= 2 and bool(spec["B"]), labels=labs)


def selftest():
    Bo.selftest()
    assert ("binary", 8, 2, 2) in _configs("quick") and ("unary", 6, 1, 4) in _configs("quick")
