"""C13 — measurement-based decomposition rules implement their target on every outcome branch."""
import numpy as np

from pv.engine import Reject, Result, Viol
from pv.props.c10_decomp_rules import all_work_wires, domain, ref_matrix
from pv.ref import dyn
from pv.ref import rules as R
from pv.ref import sim

ID = "C13"
TECHNIQUE = ("run-time discovery of registered rules whose queue contains MidMeasure / PauliMeasure; exhaustive enumeration of all 2^k "
             "measurement-outcome histories on an independent numpy dynamic-circuit reference; per-branch Kraus operator compared with "
             "the target matrix at matrix level")
RULE = (
    "Rules are discovered at run time: every zoo leaf class (bare and under Adjoint) is scanned through qp.list_decomps and the rules "
    "whose declared resources contain MidMeasure / PauliMeasure are kept (currently Hadamard PPM, CNOT / CY / CZ lattice surgery, "
    "Adjoint(TemporaryAND) by measurement); instances vary wire labels (ints / strings / mixed, random order) and control values. The "
    "rule is recorded under an AnnotatedQueue and translated instruction by instruction (operators -> reference matrices, MidMeasure "
    "with reset / postselect, PauliMeasure -> (I +- P)/2 projectors, Conditional -> predicate over recorded outcomes evaluated from the "
    "MeasurementValue) into pv.ref.dyn, which enumerates ALL outcome histories with unnormalised states started from the identity on "
    "the operator wires and |0> on allocated wires, i.e. each history yields its Kraus operator K_b. Oracle per history with non-zero "
    "weight: K_b = c_b * U (x) |w_b> on the documented input domain (U = target matrix from the closed-form table; Adjoint(TemporaryAND): "
    "inputs in the image of TemporaryAND), residual <= 1e-9, so the action is the same unitary up to a global phase and the weight "
    "|c_b|^2 is input independent; |w_b> is a normalised pure state of the allocated wires (|0..0> when the allocation promises "
    "restoration); sum_b |c_b|^2 = 1. Non-trivial: at least one measurement and at least two histories with non-zero weight."
)
ASSUMPTIONS = [
    "Conditional predicates are evaluated by calling the recorded MeasurementValue's processing function on concrete outcome bits; "
    "PauliMeasure outcome 0/1 means eigenvalue +1/-1 (documented convention of qp.pauli_measure).",
    "_qrom_measurement_decomposition reports itself applicable only under an active compiler, so it makes no claim here.",
    "A rule is called as register_resources documents (see C10).",
]
BUDGET = {"quick": {"examples": 250}, "thorough": {"examples": 6000, "shards": 4}}
EXHAUSTIVE = False
SHRINK_LISTS = ()
TOL = 1e-9

_NAMES = None


def discover():
    """[(leaf name, form)] having at least one rule with measurement resources (one probe instance per class and form)."""
    global _NAMES
    if _NAMES is None:
        import warnings

        warnings.simplefilter("ignore")
        found = []
        for spec in R.sweep({"B": 1, "A": 1}):
            if spec["r"] != 0:
                continue
            try:
                op = R.build_target(spec["t"])
                params, _, _ = R.call_convention(op)
                if any(R._has_measurement_resources(r, params) for r in R.all_rules(op)):
                    key = (R.leaf_of(spec["t"])["op"], R.form_of(spec["t"]))
                    if key not in found:
                        found.append(key)
            except Exception:  # noqa: BLE001
                continue
        _NAMES = found
    return _NAMES


def strategy(tier):
    from hypothesis import strategies as st

    pairs = discover()
    return st.sampled_from(pairs).flatmap(lambda p: R.targets(names=[p[0]], forms=[p[1]]))


def enumerate_cases(tier):
    for name, form in discover():
        yield from R.sweep({form: 4 if tier == "quick" else 12}, names=[name])


def measurement_runs(op):
    params, _, _ = R.call_convention(op)
    out = []
    for rule in R.all_rules(op):
        if not rule.is_applicable(**params):
            continue
        if R._has_measurement_resources(rule, params):
            out.append(rule)
    return out


def translate(run, order):
    """Recorded queue -> pv.ref.dyn program over the wire order."""
    import pennylane as qp

    keys = {}

    def key(m):
        for i, o in enumerate(run.raw):
            if o is m:
                return i
        uid = getattr(m, "meas_uid", None) or getattr(m, "id", None)
        for i, o in enumerate(run.raw):
            if uid is not None and (getattr(o, "meas_uid", None) == uid or getattr(o, "id", None) == uid):
                return i
        raise Reject("conditional refers to a measurement that is not in the queue")

    def one(o):
        nm = type(o).__name__
        if isinstance(o, qp.ops.PauliMeasure):
            return ("PM", str(o.pauli_word), [order.index(w) for w in o.wires], key(o), o.postselect)
        if isinstance(o, qp.ops.MidMeasure):
            return ("M", order.index(o.wires[0]), key(o), bool(o.reset), o.postselect)
        if nm == "GlobalPhase":
            return ("phase", float(np.asarray(o.data[0])))
        if nm in ("Identity", "Barrier"):
            return ("phase", 0.0)
        return ("U", sim.op_matrix(o), [order.index(w) for w in o.wires])

    prog = []
    for o in run.raw:
        nm = type(o).__name__
        if nm in ("Allocate", "Deallocate"):
            continue
        if isinstance(o, qp.ops.Conditional):
            mv = o.meas_val
            ks = [key(m) for m in mv.measurements]
            fn = mv.processing_fn
            prog.append(("C", (lambda outcomes, ks=ks, fn=fn: bool(fn(*[outcomes[k] for k in ks]))), one(o.base)))
        elif isinstance(o, qp.operation.Operator):
            prog.append(one(o))
        else:
            raise Reject(f"unsupported queue entry {nm}")
    del keys
    return prog


def check(spec):
    op = R.build_target(spec["t"])
    rules = measurement_runs(op)
    if not rules:
        raise Reject("no applicable measurement-based rule")
    rule = rules[spec["r"] % len(rules)]
    name = R.reg_name(op)
    sig = f"{name}:{rule.name}"
    leaf = R.leaf_of(spec["t"])
    feats = {"op": name, "rule": rule.name, "leaf": leaf["op"]}
    run = R.run_rule(op, rule)
    if not run.has_measure:
        raise Viol("declared-measurement-not-emitted", f"{sig}: resources list a measurement but the queue has none", sig=sig, features=feats)
    opw = list(op.wires)
    user = all_work_wires(op)
    aux = [w for w, _ in user] + [a["label"] for a in run.allocs]
    if any(t != "zeroed" for _, t in user) or any(a["state"] != "zero" for a in run.allocs):
        raise Reject("borrowed work wires in a measurement-based rule")
    must_zero = [w for w, _ in user] + [a["label"] for a in run.allocs if a["restored"]]
    order = opw + aux
    for o in run.ops:
        for w in getattr(o, "wires", []):
            if w not in order:
                raise Viol("foreign-wire", f"{sig}: {o} acts outside operator and work wires", sig=sig, features=feats)
    prog = translate(run, order)
    n, na = len(opw), len(aux)
    U = ref_matrix(op, leaf)
    D = domain(op, leaf)
    if D is None:
        D = np.eye(2**n, dtype=complex)
    UD = U @ D
    branches = dyn.enumerate_branches(prog, dyn.kraus_input(n, n + na))
    total = 0.0
    live = 0
    ws = []
    for outcomes, T in branches:
        K = T.reshape(2**n, 2**na, 2**n) @ D  # (sys, aux, domain dim)
        if np.abs(K).max() < 1e-12:
            continue
        c, w, res = dyn.factor_out(K, UD, TOL)
        hist = "".join(str(outcomes[k]) for k in sorted(outcomes))
        if c is None:
            raise Viol("branch-not-target", f"{sig} on {op}: outcome history {hist} does not act as c*U (x)|w> (residual {res:.3g})",
                       sig=sig, features=feats)
        if must_zero:
            idx = [aux.index(x) for x in must_zero]
            wt = w.reshape((2,) * na)
            sel = tuple(0 if i in idx else slice(None) for i in range(na))
            if abs(np.linalg.norm(wt[sel]) - 1) > 1e-7:
                raise Viol("work-wire-not-restored", f"{sig} on {op}: history {hist} leaves a restored work wire outside |0>", sig=sig, features=feats)
        total += abs(c) ** 2
        live += 1
        ws.append(w)
    if abs(total - 1) > 1e-7:
        raise Viol("weights-do-not-sum-to-one", f"{sig} on {op}: sum |c_b|^2 = {total}", sig=sig, features=feats)
    n_meas = sum(1 for ins in prog if dyn._kind(ins) in ("M", "PM"))
    same_aux = all(abs(abs(np.vdot(ws[0], w)) - 1) < 1e-7 for w in ws)
    labels = [name, sig, f"measurements:{n_meas}", f"live-branches:{live}", "aux-state:" + ("branch-independent" if same_aux else "branch-dependent")]
    if len(D[0]) < 2**n:
        labels.append("domain:restricted")
    return Result(n_meas >= 1 and live >= 2, labels=labels)


def selftest():
    sim.selftest()
    dyn.selftest()
