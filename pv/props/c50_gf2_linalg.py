"""C50 — GF(2) linear algebra is exact (brute-force reference)."""
from hypothesis import strategies as st

from pv.engine import Reject, Result, Viol
from pv.ref import gf2

ID = "C50"
TECHNIQUE = "exhaustive small binary matrices + hypothesis low-rank/regular/sparse matrices vs brute-force GF(2) reference"
RULE = (
    "Enumerated in full: every binary matrix of shape r x c with r<=3,c<=4 and r<=4,c<=3 (incl. all right-hand "
    "sides / test vectors of length r). Generated: matrices up to 12x12 (thorough 14x14) as dense random, products "
    "of thin factors (rank deficient), L*P*U (regular) and sparse, plus test vectors. Oracle (pv.ref.gf2, spans "
    "enumerated explicitly): binary_matrix_rank == log2|row space| (also of the transpose); "
    "binary_finite_reduced_row_echelon is structurally an RREF, has the same row space, equals an independent "
    "Gauss-Jordan, leaves the input alone unless inplace; binary_solve_linear_system on regular A returns the "
    "(brute-force unique) x with Ax=b, on singular A raises LinAlgError or returns a true solution; "
    "binary_is_independent(v, basis of full rank) <=> v not in column span; binary_select_basis returns independent "
    "columns spanning the column space and the remaining columns; tapering._kernel(trimmed RREF) is a basis of the "
    "null space. Non-trivial: non-zero matrix that is rank deficient, or regular square and not the identity."
)
ASSUMPTIONS = [
    "Inputs are integer numpy arrays with entries 0/1 (documented array[int]); JAX inputs are documented unsupported.",
    "binary_is_independent is only asserted when basis has rank min(r, m) (documented precondition).",
    "binary_solve_linear_system on singular A: only 'raises LinAlgError or returns a true solution' is asserted.",
    "qchem.tapering._kernel is exercised only the way symmetry_generators calls it (RREF with zero rows removed, "
    "non-zero matrix).",
]
BUDGET = {"quick": {"examples": 2000}, "thorough": {"examples": 60000, "shards": 16}}
SHRINK_LISTS = ("vecs",)
BRUTE_SOLVE_MAX = 10


def _mul(A, B):
    return [[sum(a * b for a, b in zip(row, col)) % 2 for col in zip(*B)] for row in A]


def _bits(nr, nc):
    return st.lists(st.lists(st.integers(0, 1), min_size=nc, max_size=nc), min_size=nr, max_size=nr)


@st.composite
def _matrix(draw, mx):
    kind = draw(st.sampled_from(["dense", "lowrank", "lowrank", "regular", "regular", "sparse", "duprows"]))
    nr = draw(st.integers(1, mx))
    nc = draw(st.integers(1, mx))
    if kind == "dense":
        A = draw(_bits(nr, nc))
    elif kind == "lowrank":
        k = draw(st.integers(1, max(1, min(nr, nc))))
        A = _mul(draw(_bits(nr, k)), draw(_bits(k, nc)))
    elif kind == "regular":
        n = nr
        L = draw(_bits(n, n))
        U = draw(_bits(n, n))
        for i in range(n):
            for j in range(n):
                if i == j:
                    L[i][j] = U[i][j] = 1
                elif j > i:
                    L[i][j] = 0
                else:
                    U[i][j] = 0
        perm = draw(st.permutations(list(range(n))))
        P = [[1 if perm[i] == j else 0 for j in range(n)] for i in range(n)]
        A = _mul(_mul(L, P), U)
    elif kind == "sparse":
        A = [[0] * nc for _ in range(nr)]
        for i, j in draw(st.lists(st.tuples(st.integers(0, nr - 1), st.integers(0, nc - 1)), max_size=nr + nc)):
            A[i][j] = 1
    else:
        base = draw(_bits(max(1, nr // 2), nc))
        idx = draw(st.lists(st.integers(0, len(base) - 1), min_size=nr, max_size=nr))
        A = [list(base[i]) for i in idx]
    return {"kind": kind, "A": A}


def strategy(tier):
    mx = 12 if tier == "quick" else 14
    return st.fixed_dictionaries({
        "m": _matrix(mx),
        "vecs": st.lists(st.integers(0, 2**mx - 1), min_size=1, max_size=4),
        "comb": st.lists(st.integers(0, 2**mx - 1), min_size=1, max_size=3),
    }).map(lambda d: {"kind": d["m"]["kind"], "A": d["m"]["A"], "vecs": d["vecs"], "comb": d["comb"]})


def enumerate_cases(tier):
    shapes = {(r, c) for r in range(1, 4) for c in range(1, 5)} | {(r, c) for r in range(1, 5) for c in range(1, 4)}
    for nr, nc in sorted(shapes):
        for A in gf2.all_matrices(nr, nc):
            yield {"kind": "enum", "A": A, "vecs": "all", "comb": []}


def _viol(clause, detail, A):
    return Viol(clause, detail, sig=clause, features={"shape": [len(A), len(A[0])]})


def check(spec):
    import numpy as np

    import pennylane as qp
    from pennylane.qchem.tapering import _kernel

    Al = spec["A"]
    nr, nc = len(Al), len(Al[0])
    A = np.array(Al, dtype=int).reshape(nr, nc)
    A0 = A.copy()
    rows = [gf2.pack(r) for r in Al]
    cols_l = gf2.transpose(Al)
    cols = [gf2.pack(c) for c in cols_l]
    rk = gf2.rank(Al)
    if spec["vecs"] == "all":
        vecs = list(gf2.all_vectors(nr))
    else:
        vecs = [gf2.unpack(m, nr) for m in spec["vecs"]]
        # vectors inside the column space are rare for thin matrices: add combinations of columns
        for m in spec["comb"]:
            v = 0
            for j in range(nc):
                if (m >> j) & 1:
                    v ^= cols[j]
            vecs.append(gf2.unpack(v, nr))

    # ---- rank ------------------------------------------------------------------------------------------
    got = qp.math.binary_matrix_rank(A)
    if int(got) != rk:
        raise _viol("rank", f"binary_matrix_rank({Al}) = {got}, row space has 2^{rk} elements", Al)
    if not np.array_equal(A, A0):
        raise _viol("rank-modifies-input", f"{Al}", Al)
    got = qp.math.binary_matrix_rank(A.T.copy())
    if int(got) != rk:
        raise _viol("rank", f"binary_matrix_rank(transpose of {Al}) = {got} vs {rk}", Al)

    # ---- reduced row echelon form ----------------------------------------------------------------------
    R = qp.math.binary_finite_reduced_row_echelon(A)
    if not np.array_equal(A, A0):
        raise _viol("rref-modifies-input", f"inplace=False changed {Al}", Al)
    if R.shape != A.shape:
        raise _viol("rref-shape", f"{R.shape} vs {A.shape}", Al)
    Rl = [[int(x) for x in r] for r in R]
    if not gf2.is_rref(Rl):
        raise _viol("rref-structure", f"rref({Al}) = {Rl} is not in reduced row-echelon form", Al)
    if gf2.span([gf2.pack(r) for r in Rl]) != gf2.span(rows):
        raise _viol("rref-rowspace", f"rref({Al}) = {Rl} has another row space", Al)
    if Rl != gf2.rref(Al):
        raise _viol("rref-unique", f"rref({Al}) = {Rl} vs reference {gf2.rref(Al)}", Al)
    A2 = A.copy()
    R2 = qp.math.binary_finite_reduced_row_echelon(A2, inplace=True)
    if R2 is not A2 or not np.array_equal(R2, R):
        raise _viol("rref-inplace", f"inplace=True: same object {R2 is A2}, equal {np.array_equal(R2, R)}", Al)

    # ---- linear systems -----------------------------------------------------------------------------------
    labels = [spec["kind"], f"{nr}x{nc}" if spec["kind"] == "enum" else f"size<={4 * ((max(nr, nc) + 3) // 4)}"]
    if nr == nc:
        regular = rk == nr
        labels.append("regular" if regular else "singular")
        for b in vecs:
            bb = np.array(b, dtype=int)
            b0 = bb.copy()
            try:
                x = qp.math.binary_solve_linear_system(A, bb)
            except np.linalg.LinAlgError:
                if regular:
                    raise _viol("solve-regular-raises", f"A={Al} is regular (rank {rk}) but LinAlgError for b={b}", Al)
                continue
            if not np.array_equal(A, A0) or not np.array_equal(bb, b0):
                raise _viol("solve-modifies-input", f"A={Al} b={b}", Al)
            xl = [int(v) for v in np.asarray(x).reshape(-1)]
            if np.asarray(x).shape != (nr,) or any(v not in (0, 1) for v in xl):
                raise _viol("solve-shape", f"x={x!r} for A={Al} b={b}", Al)
            if gf2.matvec(Al, xl) != b:
                raise _viol("solve", f"A={Al} b={b}: x={xl} gives Ax={gf2.matvec(Al, xl)}"
                            + ("" if regular else " (A singular)"), Al)
            if regular and nr <= BRUTE_SOLVE_MAX:
                sols = gf2.solutions(Al, b)
                if sols != [xl]:
                    raise _viol("solve-bruteforce", f"A={Al} b={b}: x={xl}, all solutions {sols}", Al)

    # ---- independence ---------------------------------------------------------------------------------------
    colspan = gf2.span(cols)
    if rk == min(nr, nc):
        labels.append("basis-cols-independent" if nc <= nr else "basis-wide")
        for v in vecs:
            exp = gf2.pack(v) not in colspan
            got = qp.math.binary_is_independent(np.array(v, dtype=int), A)
            if bool(got) != exp:
                raise _viol("is_independent", f"v={v} basis={Al}: {got}, v in span: {not exp}", Al)
    # empty basis, as used by binary_select_basis
    for v in vecs[:2]:
        got = qp.math.binary_is_independent(np.array(v, dtype=int), np.zeros((nr, 0), dtype=int))
        if bool(got) != any(v):
            raise _viol("is_independent", f"v={v} vs empty basis: {got}", Al)

    # ---- basis selection ------------------------------------------------------------------------------------
    basis, other = qp.math.binary_select_basis(A)
    if not np.array_equal(A, A0):
        raise _viol("select_basis-modifies-input", f"{Al}", Al)
    basis, other = np.asarray(basis), np.asarray(other)
    if basis.ndim != 2 or other.ndim != 2 or basis.shape[0] != nr or other.shape[0] != nr or \
            basis.shape[1] + other.shape[1] != nc:
        raise _viol("select_basis-shape", f"{Al}: shapes {basis.shape} {other.shape}", Al)
    bcols = [gf2.pack(c) for c in basis.T.tolist()]
    ocols = [gf2.pack(c) for c in other.T.tolist()]
    if len(bcols) != rk or len(gf2.span(bcols)) != 2 ** len(bcols):
        raise _viol("select_basis-independent", f"{Al}: basis {basis.T.tolist()} (as columns), rank {rk}", Al)
    if gf2.span(bcols) != colspan:
        raise _viol("select_basis-span", f"{Al}: basis {basis.T.tolist()} does not span the column space", Al)
    if sorted(bcols + ocols) != sorted(cols):
        raise _viol("select_basis-partition", f"{Al}: basis+other columns are not the input columns", Al)

    # ---- null space the way qchem.tapering.symmetry_generators computes it -------------------------------------
    if rk > 0:
        trimmed = R[~np.all(R == 0, axis=1)]
        K = np.asarray(_kernel(trimmed))
        if K.ndim != 2 or K.shape != (nc - rk, nc):
            raise _viol("kernel-shape", f"{Al}: kernel shape {K.shape}, expected {(nc - rk, nc)}", Al)
        Kl = [[int(x) for x in r] for r in K]
        for kv in Kl:
            if any(x not in (0, 1) for x in kv) or any(gf2.matvec(Al, kv)):
                raise _viol("kernel", f"{Al}: {kv} is not in the null space", Al)
        if gf2.rank(Kl) != nc - rk if Kl else nc - rk != 0:
            raise _viol("kernel-rank", f"{Al}: kernel {Kl} does not have dimension {nc - rk}", Al)

    labels.append("rank0" if rk == 0 else "full-rank" if rk == min(nr, nc) else "rank-deficient")
    ident = nr == nc and all(Al[i][j] == (i == j) for i in range(nr) for j in range(nc))
    nontrivial = rk > 0 and (rk < min(nr, nc) or (nr == nc and not ident))
    return Result(nontrivial=nontrivial, labels=labels)


def selftest():
    gf2.selftest()
    assert _mul([[1, 1], [0, 1]], [[1, 0], [1, 1]]) == [[0, 1], [1, 1]]
