"""C71 — qp.snapshots reports, under every tag, the requested measurement of the circuit prefix; final results unchanged."""
import hashlib
import json

import numpy as np
from hypothesis import strategies as st

from pv import gen, specs
from pv.cmp import close, maxdiff, to_np
from pv.engine import Reject, Result, Viol
from pv.props import c29_sampling_born as c29
from pv.props.c28_channels_mixed import ONE_PARAM, _sqrt_eps_endpoint, _standard_order, build_op, channel
from pv.ref import kraus as kr
from pv.ref import sim
from pv.ref import stattest as stt

ID = "C71"
TECHNIQUE = ("hypothesis circuits with Snapshot operations at random positions, run through qp.snapshots (QNode path with the device "
             "debugger, and tape-splitting path); every snapshot compared with the reference simulation of its prefix")
RULE = (
    "Circuits 1-4 wires (int/str/mixed labels), depth<=10 over the full gate table (default.mixed: plus channels), 1-4 Snapshots at "
    "random positions incl. before the first / after the last gate and adjacent ones; tags none / unique strings / duplicates; snapshot "
    "measurement None (state) / state / expval / var / probs(wires, random order) / density_matrix / purity; workflow analytic or with "
    "shots (then state snapshots stay exact and sampled snapshots probs / expval / counts / sample are tested statistically), Snapshot "
    "shots= override inside an analytic workflow; devices default.qubit and default.mixed via qp.snapshots(QNode) (wires none / same / "
    "permuted / idle extras) and via the tape transform + qp.execute (explicit device wires). Oracle: key set = documented tags "
    "(running index over all snapshots for untagged ones) + 'execution_results'; value j = pv.ref.sim / pv.ref.kraus measurement of "
    "the operations before snapshot j (1e-8, +2e-7 per damping channel at gamma=1 before it, as in C28); duplicate tags: the stored value(s) must be snapshots carrying that tag (list in order "
    "or a single one); execution_results = reference results of the circuit without snapshots (analytic 1e-8; shots: C29 statistical "
    "test, p<1e-9 twice). Non-trivial: >= 2 snapshots separated by a gate that changes the snapshot value."
)
ASSUMPTIONS = [
    "Behaviour for duplicate tags is not documented (default.qubit collects a list, default.mixed keeps the last): any of the two is accepted.",
    "Device without wires: snapshots cover the operator wires only (measurement-only wires are added after the last operation).",
    "Tape-splitting path is only compared with explicit device wires (the docs say each split tape only sees the wires used so far).",
    "PennyLane's documented constant _SQRT_STABILITY_EPS=1e-14 under the square roots of the damping channels leaves 1e-7 of coherence at "
    "gamma = 1 exactly (AmplitudeDamping/PhaseDamping/GeneralizedAmplitudeDamping); as in C28 this is float tolerance (2e-7 per such "
    "channel in the compared prefix), not a snapshot defect: the same deviation is present without any Snapshot.",
]
BUDGET = {"quick": {"examples": 260}, "thorough": {"examples": 15000, "shards": 16}}
SHRINK_LISTS = ("ops", "meas")
ALPHA = stt.ALPHA


# ----------------------------------------------------------------------------------------------
# generator
# ----------------------------------------------------------------------------------------------

@st.composite
def _snap_meas(draw, wires, shots_mode):
    n = len(wires)
    sub = st.integers(1, n).flatmap(lambda k: gen.subset(wires, k))
    if shots_mode:
        kind = draw(st.sampled_from(["none", "state", "probs", "expval", "counts", "sample"]))
    else:
        kind = draw(st.sampled_from(["none", "none", "state", "probs", "expval", "var", "density_matrix", "purity", "probs_op"]))
    if kind == "none":
        return None
    if kind == "state":
        return {"mp": "state"}
    if kind == "probs":
        return {"mp": "probs", "w": draw(sub)}
    if kind == "probs_op":
        return {"mp": "probs", "obs": draw(gen.pauli_word_obs(wires))}
    if kind == "expval":
        return {"mp": "expval", "obs": draw(gen.pauli_word_obs(wires) if shots_mode else gen.observable(wires))}
    if kind == "var":
        return {"mp": "var", "obs": draw(gen.observable(wires))}
    if kind == "density_matrix":
        return {"mp": "density_matrix", "w": draw(sub)}
    if kind == "purity":
        return {"mp": "purity", "w": draw(sub)}
    if kind == "counts":
        return {"mp": "counts", "w": draw(sub), "all_outcomes": draw(st.booleans())}
    return {"mp": "sample", "w": draw(sub)}


@st.composite
def _case(draw):
    dev = draw(st.sampled_from(["default.qubit", "default.qubit", "default.mixed"]))
    n = draw(st.integers(1, 4))
    wires = draw(gen.wire_labels(n))
    ops = []
    if draw(st.booleans()):
        ops = [{"op": "RY", "p": [draw(gen.generic_angles())], "w": [w]} for w in wires]
    ops += draw(gen.op_list(wires, None, 10, extras=True, p_derive=0.15))
    if dev == "default.mixed":
        for _ in range(draw(st.integers(0, 2))):
            ops.insert(draw(st.integers(0, len(ops))), draw(channel(wires)))
    mode = draw(st.sampled_from(["analytic", "analytic", "analytic", "shots"]))
    nsnap = draw(st.integers(1, 4))
    tagpool = draw(st.sampled_from([[None], [None, "a", "b", "tag with space"], ["a", "a", None], ["x", "y", "z", "w"], [None, "dup", "dup"]]))
    for _ in range(nsnap):
        snap = {"op": "Snapshot", "tag": draw(st.sampled_from(tagpool)), "m": draw(_snap_meas(wires, mode == "shots")), "shots": "workflow"}
        if mode == "analytic" and snap["m"] is not None and snap["m"]["mp"] == "probs" and "w" in snap["m"] and draw(st.integers(0, 3)) == 0:
            snap["shots"] = draw(st.sampled_from([5000, 20000]))
        ops.insert(draw(st.integers(0, len(ops))), snap)
    if mode == "shots":
        meas = draw(st.lists(st.one_of(gen.pauli_word_obs(wires).map(lambda o: {"mp": "expval", "obs": o}),
                                       st.integers(1, n).flatmap(lambda k: gen.subset(wires, k)).map(lambda w: {"mp": "probs", "w": w}),
                                       st.integers(1, n).flatmap(lambda k: gen.subset(wires, k)).map(lambda w: {"mp": "counts", "w": w, "all_outcomes": False})),
                             min_size=1, max_size=2))
    else:
        meas = draw(st.lists(gen.analytic_measurement(wires, with_state=True), min_size=1, max_size=3))
    via = draw(st.sampled_from(["qnode", "qnode", "qnode", "tape"]))
    devw = draw(st.sampled_from(["same", "perm", "extra"] + ([] if via == "tape" else ["none", "none"])))
    dev_wires = None
    if devw == "same":
        dev_wires = list(wires)
    elif devw == "perm":
        dev_wires = list(draw(st.permutations(wires)))
    elif devw == "extra":
        dev_wires = list(draw(st.permutations(wires + ["idle1"])))
    return {"dev": dev, "ops": ops, "meas": meas, "wires": wires, "dev_wires": dev_wires, "mode": mode, "via": via,
            "shots": draw(st.sampled_from([5000, 10000, 20000])) if mode == "shots" else None, "seed": draw(st.integers(0, 2**31 - 1))}


def strategy(tier):
    return _case()


# ----------------------------------------------------------------------------------------------
# helpers
# ----------------------------------------------------------------------------------------------

def _mk_snapshot(s):
    import pennylane as qp

    m = specs.build_meas(s["m"]) if s["m"] is not None else None
    kw = {} if s.get("shots", "workflow") == "workflow" else {"shots": s["shots"]}
    return qp.Snapshot(s["tag"], measurement=m, **kw)


def _build(spec):
    ops = []
    for o in spec["ops"]:
        ops.append(_mk_snapshot(o) if o["op"] == "Snapshot" else build_op(o))
    return ops, [specs.build_meas(m) for m in spec["meas"]]


def expected_tags(spec):
    tags = []
    i = 0
    for o in spec["ops"]:
        if o["op"] == "Snapshot":
            tags.append(o["tag"] if o["tag"] is not None else i)
            i += 1
    return tags


class _Ctx:
    def __init__(self, spec, mps):
        self.spec = spec
        self.mps = mps


def _ref_state(spec, ops, order):
    if spec["dev"] == "default.mixed":
        return kr.run_ops(ops, order)
    return sim.run_ops(ops, order)


def _ref_measure(spec, state, mp, order):
    if spec["dev"] == "default.mixed":
        return kr.measure(state, mp, order)
    return sim.measure(state, mp, order)


def _as_rho(spec, state):
    return state if spec["dev"] == "default.mixed" else np.outer(state, np.conj(state))


def _stat_check(spec, mspec, mp, value, nshots, rho, order, feats):
    """First-stage statistic + p-value for a sampled result (snapshot or final measurement)."""
    ctx = _Ctx({"meas": [mspec]}, [mp])
    model = c29.build_models(ctx, order, rho)[0]
    v = value if isinstance(value, dict) else to_np(value)
    kind, val = c29.evaluate(mspec, mp, v, nshots, model, {**feats, "dev": spec["dev"]})
    p, info = c29.stat_p(mspec, model, [(kind, val, nshots)])
    return p, info


def _tol(spec_ops):
    """1e-8, plus 2e-7 for every damping channel at gamma = 1 among the given operations. Was a flat 1e-8: the thorough tier then
    reported default.mixed circuits containing AmplitudeDamping/PhaseDamping/GeneralizedAmplitudeDamping(gamma=1.0) with differences of
    ~2e-8 (also without any Snapshot), which is PennyLane's documented _SQRT_STABILITY_EPS (sqrt(1 - gamma + 1e-14) = 1e-7 in the
    Kraus matrices), i.e. the channel reference was compared too tightly (same rule as C28), not a snapshot discrepancy."""
    return 1e-8 + 2e-7 * sum(1 for o in spec_ops if o["op"] in kr.CHANNELS and _sqrt_eps_endpoint(o))


def _values_match(spec, got, exp, tol):
    got = np.asarray(to_np(got))
    exp = np.asarray(exp)
    return got.shape == exp.shape and close(got, exp, tol)


def check(spec):
    import pennylane as qp

    ops, mps = _build(spec)
    dev_wires = [specs.wire(w) for w in spec["dev_wires"]] if spec.get("dev_wires") else None
    for m in mps:
        if type(m).__name__ == "MutualInfoMP":
            raise Reject("mutual_info not generated")
    shots = spec["shots"]
    tape = qp.tape.QuantumScript(ops, mps, shots=shots)
    feats = {"dev": spec["dev"], "mode": spec["mode"], "via": spec["via"]}

    def execute(seed, shots_now):
        kw = {"wires": dev_wires} if dev_wires else {}
        dev = qp.device(spec["dev"], seed=seed, **kw)
        if spec["via"] == "tape":
            t = qp.tape.QuantumScript(ops, mps, shots=shots_now)
            tapes, fn = qp.snapshots(t)
            return dev, fn(qp.execute(tapes, dev))

        def circuit():
            for o in spec["ops"]:
                if o["op"] == "Snapshot":
                    _mk_snapshot(o)
                else:
                    build_op(o)
            out = [specs.build_meas(m) for m in spec["meas"]]
            return tuple(out) if len(out) > 1 else out[0]

        qn = qp.QNode(circuit, dev)
        if shots_now:
            qn = qp.set_shots(qn, shots_now)
        return dev, qp.snapshots(qn)()

    dev, out = execute(spec["seed"], shots)
    if dev_wires:
        order = list(dev_wires)
    else:
        (pt,), _ = dev.preprocess()[0]([tape])
        if set(pt.wires) != set(tape.wires):
            raise Reject("device without wires: decomposition dropped a wire")
        # same precondition for the operator wires: a wire-less device simulates the wires of the *decomposed* operations, so when
        # the decomposition drops an operator wire (default.mixed: PauliRot(theta, "I", wires=[0]) -> GlobalPhase on no wires) the
        # snapshot legitimately covers fewer wires than the reference prefix (which applies the undecomposed operators) can express.
        # The oracle used the undecomposed operator wires and alarmed with a shape mismatch (1, 1) vs (2, 2).
        if set(w for op in pt.operations for w in op.wires) != set(w for op in tape.operations for w in op.wires):
            raise Reject("device without wires: decomposition dropped an operator wire")
        order = _standard_order(pt)
    if not isinstance(out, dict):
        raise Viol("result-type", f"qp.snapshots returned {type(out).__name__}", sig="type", features=feats)
    # a device without wires simulates the operator wires (Snapshot wires included); measurement-only wires are appended after
    # the last operation, so snapshots only see the operator wires ("the available wires")
    opw = set(w for op in tape.operations for w in op.wires)
    order_s = list(order) if dev_wires else [w for w in order if w in opw]
    tags = expected_tags(spec)
    want_keys = set(tags) | {"execution_results"}
    if set(out.keys()) != want_keys:
        raise Viol("snapshot-keys", f"keys {sorted(map(str, out.keys()))} expected {sorted(map(str, want_keys))}; ops={spec['ops']}", sig="keys:" + spec["via"], features=feats)

    # reference prefix states
    snaps = []
    prefix = []
    prefix_spec = []
    for o, op in zip(spec["ops"], ops):
        if o["op"] == "Snapshot":
            snaps.append((o, op, list(prefix), _tol(prefix_spec)))
        else:
            prefix.append(op)
            prefix_spec.append(o)
    gate_ops = prefix
    final_tol = _tol(prefix_spec)
    flagged = []   # (description, recompute(out2) -> p)
    distinct_vals = []
    for tag in dict.fromkeys(tags):
        group = [(o, op, pre, tol) for (o, op, pre, tol), t in zip(snaps, tags) if t == tag]
        got = out[tag]
        cands = []
        for o, op, pre, tol in group:
            mp = op.hyperparameters["measurement"]
            st_ = _ref_state(spec, pre, order_s)
            sh = op.hyperparameters["shots"]
            nsh = (shots if sh == "workflow" else (sh.total_shots if sh else None))
            sampled = bool(nsh) and type(mp).__name__ != "StateMP"
            cands.append((o, mp, st_, nsh if sampled else None, tol))
        if len(group) > 1:
            items = got if isinstance(got, list) and len(got) == len(group) else None
        else:
            items = [got]
        what = f"tag {tag!r} dev={spec['dev']} via={spec['via']} dev_wires={spec.get('dev_wires')} ops={spec['ops']}"
        if items is None:
            # duplicates collapsed to a single stored value: must match one of the candidates (exact ones only)
            ok = False
            for o, mp, st_, nsh, tol in cands:
                if nsh is None and _values_match(spec, got, _ref_measure(spec, st_, mp, order_s), tol):
                    ok = True
                if nsh is not None:
                    ok = True  # sampled candidate: cannot be decided exactly, accepted
            if not ok:
                raise Viol("snapshot-value", f"{what}: stored value matches none of the {len(group)} snapshots with this tag", sig="duplicate-tag:" + spec["dev"], features=feats)
            continue
        for idx, ((o, mp, st_, nsh, tol), g) in enumerate(zip(cands, items)):
            mname = type(mp).__name__
            if nsh is None:
                exp = _ref_measure(spec, st_, mp, order_s)
                if not _values_match(spec, g, exp, tol):
                    gg = np.asarray(to_np(g))
                    raise Viol("snapshot-value", f"{what}: snapshot #{idx} measurement {o['m']} got shape {gg.shape} expected {np.shape(exp)} diff="
                                                 f"{maxdiff(gg, np.asarray(exp)) if gg.shape == np.shape(exp) else 'shape'}",
                               sig=mname + ":" + spec["dev"] + ":" + spec["via"], features={**feats, "mp": mname})
                distinct_vals.append(np.asarray(exp).round(6).tobytes())
            else:
                rho = _as_rho(spec, st_)
                p, info = _stat_check(spec, o["m"], mp, g, nsh, rho, order_s, feats)
                if p < ALPHA:
                    flagged.append((tag, idx, o, mp, rho, nsh, p, info))
    # final results
    res = out["execution_results"]
    final_state = _ref_state(spec, gate_ops, order)
    rs = list(res) if len(mps) > 1 else [res]
    if len(rs) != len(mps):
        raise Viol("final-structure", f"execution_results has {len(rs)} entries for {len(mps)} measurements", sig="final-structure", features=feats)
    final_flag = []
    for j, (m, mp) in enumerate(zip(spec["meas"], mps)):
        if shots:
            p, info = _stat_check(spec, m, mp, rs[j], shots, _as_rho(spec, final_state), order, feats)
            if p < ALPHA:
                final_flag.append((j, p, info))
        else:
            exp = _ref_measure(spec, final_state, mp, order)
            if not _values_match(spec, rs[j], exp, final_tol):
                gg = np.asarray(to_np(rs[j]))
                raise Viol("final-result", f"execution_results[{j}] {m} differs from the circuit without snapshots: got shape {gg.shape} expected {np.shape(exp)} "
                                           f"diff={maxdiff(gg, np.asarray(exp)) if gg.shape == np.shape(exp) else 'shape'}; dev={spec['dev']} via={spec['via']} ops={spec['ops']}",
                           sig="final:" + type(mp).__name__ + ":" + spec["dev"], features=feats)
    labels = ["dev:" + spec["dev"], "mode:" + spec["mode"], "via:" + spec["via"], "devw:" + ("given" if dev_wires else "none"), f"snaps:{len(snaps)}"] + \
             ["snap:" + (o["m"]["mp"] if o["m"] else "default") + ("" if o.get("shots", "workflow") == "workflow" else ":shots-override") for o, _, _, _ in snaps] + \
             (["dup-tags"] if len(set(tags)) < len(tags) else []) + (["untagged+tagged"] if any(isinstance(t, int) for t in tags) and any(isinstance(t, str) for t in tags) else [])
    if flagged or final_flag:
        # second stage: 4x the shots, fresh seed; snapshot shot overrides cannot be scaled from outside, they are re-sampled at the same size 4 times and pooled
        seed2 = int(hashlib.sha1(json.dumps(spec, sort_keys=True, default=str).encode()).hexdigest()[:8], 16) & 0x7FFFFFFF
        outs = [execute(seed2 + k, 4 * shots if shots else None)[1] for k in range(1 if shots else 4)]
        for tag, idx, o, mp, rho, nsh, p, info in flagged:
            if len([t for t in tags if t == tag]) > 1:
                continue  # duplicate tags: position inside the list already checked in stage 1 only
            if shots and o.get("shots", "workflow") == "workflow":
                p2, info2 = _stat_check(spec, o["m"], mp, outs[0][tag], 4 * nsh, rho, order_s, feats)
            else:
                pooled = np.sum([np.asarray(to_np(ou[tag]), dtype=float) * nsh for ou in outs], axis=0) / (nsh * len(outs))
                p2, info2 = _stat_check(spec, o["m"], mp, pooled, nsh * len(outs), rho, order_s, feats)
            if p2 < ALPHA:
                raise Viol("snapshot-distribution", f"tag {tag!r} {o['m']} (shots {nsh}): stage 1 p={p:.2e} [{info}]; stage 2 p={p2:.2e} [{info2}]; ops={spec['ops']}",
                           sig="sampled:" + o["m"]["mp"] + ":" + spec["dev"], features=feats)
        for j, p, info in final_flag:
            r2 = outs[0]["execution_results"]
            r2 = list(r2)[j] if len(mps) > 1 else r2
            p2, info2 = _stat_check(spec, spec["meas"][j], mps[j], r2, 4 * shots, _as_rho(spec, final_state), order, feats)
            if p2 < ALPHA:
                raise Viol("final-distribution", f"execution_results[{j}] {spec['meas'][j]}: stage 1 p={p:.2e} [{info}]; stage 2 p={p2:.2e} [{info2}]; ops={spec['ops']}",
                           sig="final-sampled:" + spec["dev"], features=feats)
        labels.append("stage1-flag-not-repeated")
    return Result(len(snaps) >= 2 and len(set(distinct_vals)) >= 2, labels=labels)


def selftest():
    sim.selftest()
    kr.selftest()
    assert expected_tags({"ops": [{"op": "Snapshot", "tag": None}, {"op": "X"}, {"op": "Snapshot", "tag": "a"}, {"op": "Snapshot", "tag": None}]}) == [0, "a", 2]
