"""C24 — circuit cutting reconstructs the uncut expectation value (exactly; Monte Carlo variant statistically)."""
import hashlib
import math

import numpy as np

from pv import gen, specs
from pv.engine import Reject, Result, Viol
from pv.ref import rgen, sim

ID = "C24"
TECHNIQUE = ("generated circuits with manual WireCuts / automatic cutter; all fragment configurations executed on the reference "
             "simulator + returned tensor-contraction post-processing vs the uncut reference expectation; cut_circuit_mc through a "
             "deterministic inverse-CDF sampler with an exact-variance Bernstein bound and a confirmation run")
RULE = (
    "cut: circuit of 3-9 one- and two-qubit gates on 3-5 wires (int/str/mixed labels), 1-2 WireCut operations (single- or "
    "two-wire) placed mostly between two gates of a wire (15% anywhere, incl. before the first / after the last gate), one "
    "expval of a Pauli word (qp.prod / nested, optional Identity factor), single Pauli, 1-wire Hermitian, s_prod or a 2-term Sum; "
    "device_wires = enough fresh or integer labels; use_opt_einsum random. auto: the same circuits without WireCuts, "
    "auto_cutter=True with 2..n-1 device wires, KaHyPar seed from the spec, optional CutStrategy(min_free_wires / "
    "num_fragments_probed). Oracle: every returned tape is run on pv.ref.sim on its own wires, the post-processing function "
    "is applied and must equal the reference expectation of the circuit with the WireCuts removed (1e-8). mc: 3-4 wire "
    "circuits with one WireCut (15% two), sample(wires=subset in random order), 4000 shots (6000 in the docstring example), classical_processing_fn = "
    "+-parity of a subset of the *positions of the sampled wires* (scaled by 1 or 0.5), settings seed from the spec; each "
    "one-shot fragment tape is sampled by inverse CDF from its exact joint distribution with uniforms from "
    "numpy.default_rng(sha1(spec)); the estimate must lie within the Bernstein radius t (two-sided failure probability 5e-10, "
    "|X| <= 4^K*fmax, Var <= 16^K*fmax^2 - mu^2 which is exact for |f| = 1) of the exact mu = sum_b p(b) f(b); a failure is "
    "confirmed by a second run with independent uniforms and settings before it is reported (false alarm < 1e-18). "
    "Non-trivial: >= 2 fragments (mc: additionally |mu| >= 0.3 so that sign / weight errors exceed t)."
)
ASSUMPTIONS = [
    "Fragment tapes are executed on their own wire sets, so device_wires only relabels; device_wires always has at least as many labels as the largest fragment needs in manual mode.",
    "classical_processing_fn receives the bits in the order of qp.sample(wires=...) ('a flat array of length wires'); position-dependent functions are generated on that reading.",
    "cut_circuit_mc without classical_processing_fn returns unweighted fragment samples that are not distributed like the uncut circuit; only the expectation mode is checked.",
    "If the automatic cutter raises ValueError because no partition satisfies the strategy the case is rejected; whether fragments fit the device is recorded as a label, not asserted.",
    "MC uniforms come from numpy's PCG64 seeded with a hash of the spec (deterministic per case), as the task prescribes for the statistical clause.",
]
BUDGET = {"quick": {"examples": 600}, "thorough": {"examples": 30000, "shards": 16}}
SHRINK_LISTS = ("ops",)

POOL = {**gen.GATES1, **gen.GATES2}


# ------------------------------------------------------------------------------------------------ generators

def _obs(R, ws):
    r = R.random()
    if r < 0.55:
        sub = rgen.subset(R, ws, 1, min(4, len(ws)))
        fs = [{"op": R.choice(["PauliX", "PauliY", "PauliZ"]), "w": [w]} for w in sub]
        if len(fs) >= 2 and R.random() < 0.15:
            fs[R.randint(0, len(fs) - 1)]["op"] = "Identity"
        if len(fs) == 1:
            return fs[0]
        if len(fs) >= 3 and R.random() < 0.3:  # nested product
            return {"op": "prod", "operands": [{"op": "prod", "operands": fs[:2]}] + fs[2:]}
        return {"op": "prod", "operands": fs}
    if r < 0.7:
        return {"op": R.choice(["PauliX", "PauliY", "PauliZ", "Hadamard"]), "w": [R.choice(ws)]}
    if r < 0.8:
        return {"op": "Hermitian", "p": [{"H": [round(R.uniform(-1, 1), 4) for _ in range(5)], "n": 1}], "w": [R.choice(ws)]}
    if r < 0.9:
        return {"op": "s_prod", "c": round(R.uniform(-2, 2), 3), "base": rgen.pauli_word(R, ws, 2)}
    return {"op": "sum", "operands": [rgen.pauli_word(R, ws, 2), {"op": "s_prod", "c": round(R.uniform(-1, 1), 3), "base": rgen.pauli_word(R, ws, 2)}]}


def _gates(R, ws, lo, hi, two=0.55):
    ops = []
    for _ in range(R.randint(lo, hi)):
        ops.append(rgen.gate(R, ws, gen.GATES2 if R.random() < two else gen.GATES1))
    return ops


def _place_cuts(R, ops, ws, n_cuts, measured, allow_multi=True):
    """Insert WireCut specs. Returns the new op list."""
    ops = list(ops)
    for _ in range(n_cuts):
        multi = allow_multi and len(ws) >= 2 and R.random() < 0.12
        good = []
        for i in range(1, len(ops) + 1):
            for w in ws:
                before = any(w in o.get("w", []) for o in ops[:i] if o["op"] != "WireCut")
                after = any(w in o.get("w", []) for o in ops[i:] if o["op"] != "WireCut") or w in measured
                if before and after:
                    good.append((i, w))
        if good and R.random() < 0.85:
            i, w = R.choice(good)
        else:
            i, w = R.randint(0, len(ops)), R.choice(ws)
        cw = [w]
        if multi:
            cw.append(R.choice([v for v in ws if v != w]))
        ops.insert(i, {"op": "WireCut", "p": [], "w": cw})
    return ops


def _dev_wires(R, k):
    return [f"d{i}" for i in range(k)] if R.random() < 0.5 else list(range(k))


def _blocky(R, ws):
    """Two (or three) blocks of gates that only share the wire that is cut between them: guarantees >= 2 fragments."""
    ws = list(ws)
    R.shuffle(ws)
    n_blocks = 3 if len(ws) >= 5 and R.random() < 0.3 else 2
    sizes = [1] * n_blocks
    for _ in range(len(ws) - 1 - n_blocks):
        sizes[R.randint(0, n_blocks - 1)] += 1
    ops, pos = [], 0
    shared = ws[0]
    rest = ws[1:]
    for b in range(n_blocks):
        block = rest[pos:pos + sizes[b]] + [shared]
        pos += sizes[b]
        if b:
            ops.append({"op": "WireCut", "p": [], "w": [shared]})
        g = _gates(R, block, 2, 4)
        if not any(shared in o["w"] and len(o["w"]) == 2 for o in g):
            g.append({"op": R.choice(["CNOT", "CZ", "CRX"]), "p": [], "w": [shared, block[0]]})
            if g[-1]["op"] == "CRX":
                g[-1]["p"] = [rgen.angle(R)]
        ops += g
    return ops


def case_cut(R, tier):
    n = R.randint(3, 5 if tier == "quick" else 6)
    ws = rgen.wire_labels(R, n)
    obs = _obs(R, ws)
    measured = specs.spec_wires(obs)
    if R.random() < 0.55:
        ops = _blocky(R, ws)
        if R.random() < 0.3:
            ops = _place_cuts(R, ops, ws, 1, measured)
    else:
        ops = _gates(R, ws, 3, 9)
        n_cuts = R.choice([1, 1, 2] if tier == "quick" else [1, 1, 2, 2, 3])
        ops = _place_cuts(R, ops, ws, n_cuts, measured)
    k = n + sum(len(o["w"]) for o in ops if o["op"] == "WireCut")
    return {"t": "cut", "wires": ws, "ops": ops, "obs": obs, "dev": _dev_wires(R, k), "opt_einsum": R.random() < 0.3}


def case_auto(R, tier):
    n = R.randint(3, 5)
    ws = rgen.wire_labels(R, n)
    ops = _gates(R, ws, 3, 9, two=0.45)
    spec = {"t": "auto", "wires": ws, "ops": ops, "obs": _obs(R, ws), "dev": _dev_wires(R, R.randint(2, n - 1)), "seed": R.randint(0, 10**6),
            "opt_einsum": False, "strategy": None}
    r = R.random()
    if r < 0.2:
        spec["strategy"] = {"min_free_wires": R.randint(2, len(spec["dev"]))}
    elif r < 0.35:
        spec["strategy"] = {"num_fragments_probed": R.randint(2, 3)}
    if R.random() < 0.15:  # an existing manual cut is preserved by the automatic cutter
        spec["ops"] = _place_cuts(R, ops, ws, 1, specs.spec_wires(spec["obs"]))
    return spec


def case_mc(R, tier):
    n = R.randint(3, 4)
    ws = rgen.wire_labels(R, n)
    ops = _gates(R, ws, 3, 7)
    mw = rgen.subset(R, ws, 1, n)
    K = 2 if R.random() < 0.15 else 1
    ops = _place_cuts(R, ops, ws, K, mw, allow_multi=False)
    T = rgen.subset(R, list(range(len(mw))), 1, len(mw))
    return {"t": "mc", "wires": ws, "ops": ops, "mw": mw, "T": sorted(T), "sign": R.choice([1, -1]), "fscale": R.choice([1.0, 1.0, 0.5]),
            "shots": 4000, "seed": R.randint(0, 10**6), "dev": _dev_wires(R, n + 2 * K)}


def strategy(tier):
    def mk(R):
        r = R.random()
        if r < 0.8:
            return case_cut(R, tier)
        if r < 0.995:
            return case_auto(R, tier)
        return case_mc(R, tier)
    return rgen.seeded(mk)


def enumerate_cases(tier):
    rx = lambda t, w: {"op": "RX", "p": [t], "w": [w]}
    ry = lambda t, w: {"op": "RY", "p": [t], "w": [w]}
    cut = lambda w: {"op": "WireCut", "p": [], "w": [w]}
    zzz = {"op": "prod", "operands": [{"op": "PauliZ", "w": [w]} for w in (0, 1, 2)]}
    doc = [rx(0.531, 0), ry(0.9, 1), rx(0.3, 2), {"op": "CZ", "p": [], "w": [0, 1]}, ry(-0.4, 0), cut(1), {"op": "CZ", "p": [], "w": [1, 2]}]
    yield {"t": "cut", "wires": [0, 1, 2], "ops": doc, "obs": zzz, "dev": [0, 1], "opt_einsum": False}
    yield {"t": "auto", "wires": [0, 1, 2], "ops": [o for o in doc if o["op"] != "WireCut"], "obs": zzz, "dev": [0, 1], "seed": 1, "opt_einsum": False, "strategy": None}
    cn = lambda a, b: {"op": "CNOT", "p": [], "w": [a, b]}
    mc = [rx(0.89, 0), ry(0.5, 1), rx(1.3, 2), cn(0, 1), cut(1), cn(1, 2), rx(0.4, 0), ry(0.7, 1), rx(2.3, 2)]
    yield {"t": "mc", "wires": [0, 1, 2], "ops": mc, "mw": [0, 2], "T": [0, 1], "sign": 1, "fscale": 1.0, "shots": 6000, "seed": 11, "dev": [0, 1]}
    # computational-basis circuit whose fragments are not in wire order: position-dependent f
    x = lambda w: {"op": "PauliX", "p": [], "w": [w]}
    yield {"t": "mc", "wires": [0, 1, 2], "ops": [x(2), cn(2, 1), cut(1), cn(1, 0), x(1)], "mw": [0, 1, 2], "T": [1], "sign": 1, "fscale": 1.0,
           "shots": 4000, "seed": 5, "dev": [0, 1, 2]}
    # basis probes: the whole expectation is carried by the X / Y / Z settings of the cut (a wrong sign or pairing of one
    # setting changes the estimate by 1)
    g = lambda nm, w: {"op": nm, "p": [], "w": [w]}
    probes = {"X": [g("Hadamard", 0), cut(0), g("Hadamard", 0)],
              "Y": [g("Hadamard", 0), g("S", 0), cut(0), {"op": "adjoint", "base": g("S", 0)}, g("Hadamard", 0)],
              "Z": [x(0), cut(0), rx(0.2, 0)]}
    for i, ops in enumerate(probes.values()):
        yield {"t": "mc", "wires": [0], "ops": ops, "mw": [0], "T": [0], "sign": 1, "fscale": 1.0, "shots": 4000, "seed": 21 + i, "dev": [0, 1]}


# ------------------------------------------------------------------------------------------------ check helpers

def _tape(spec, with_cuts=True, meas=None):
    import pennylane as qp

    ops = [specs.build_op(o) for o in spec["ops"] if with_cuts or o["op"] != "WireCut"]
    return qp.tape.QuantumScript(ops, meas, shots=spec.get("shots"))


def _run_all(tapes):
    res = []
    for tp in tapes:
        r = sim.run_tape(tp, list(tp.wires))
        res.append(r[0] if len(r) == 1 else tuple(r))
    return res


def _find_comm_graph(obj, depth=0):
    """The communication graph the post-processing closes over (used for labels / the non-trivial rule only)."""
    import functools

    if depth > 10 or obj is None:
        return None
    if hasattr(obj, "number_of_nodes") and hasattr(obj, "out_degree"):
        return obj
    kids = []
    if isinstance(obj, functools.partial):
        kids = list(obj.keywords.values()) + list(obj.args) + [obj.func]
    elif isinstance(obj, (list, tuple)):
        kids = list(obj)
    elif callable(obj):
        for cell in getattr(obj, "__closure__", None) or ():
            try:
                kids.append(cell.cell_contents)
            except ValueError:
                pass
    for k in kids:
        if hasattr(k, "number_of_nodes") or isinstance(k, (list, tuple, functools.partial)) or callable(k):
            g = _find_comm_graph(k, depth + 1)
            if g is not None:
                return g
    return None


def check_cut(spec):
    import pennylane as qp

    order = [specs.wire(w) for w in spec["wires"]]
    obs = rgen.build_obs(spec["obs"])
    tape = _tape(spec, True, [qp.expval(obs)])
    exact = float(sim.run_tape(_tape(spec, False, [qp.expval(rgen.build_obs(spec["obs"]))]), order)[0])
    kw = {"device_wires": qp.wires.Wires([specs.wire(w) for w in spec["dev"]]), "use_opt_einsum": spec["opt_einsum"]}
    auto = spec["t"] == "auto"
    if auto:
        kw.update(auto_cutter=True, seed=spec["seed"])
        if spec["strategy"]:
            kw["cut_strategy"] = qp.qcut.CutStrategy(max_free_wires=len(spec["dev"]), **spec["strategy"])
    n_manual = sum(1 for o in spec["ops"] if o["op"] == "WireCut")
    try:
        tapes, fn = qp.cut_circuit(tape, **kw)
    except ValueError as e:
        if auto:
            raise Reject("automatic cutter found no partition (ValueError)") from None
        raise
    if not tapes:
        raise Viol("no-tapes", "cut_circuit returned no tapes", sig="cut:no-tapes")
    res = _run_all(tapes)
    got = fn(res)
    comm = _find_comm_graph(fn)
    if comm is None:
        raise RuntimeError("communication graph not found in the post-processing closure")
    n_frag, n_edges = comm.number_of_nodes(), comm.number_of_edges()
    feats = {"mode": spec["t"], "fragments": n_frag, "cut_edges": n_edges, "obs": spec["obs"]["op"]}
    g = np.asarray(got, dtype=complex)
    if g.shape != () or not np.isfinite(g) or abs(g - exact) > 1e-8 * max(1.0, abs(exact)):
        raise Viol("reconstruction", f"{spec['t']}: got {got} expected {exact}; fragments={n_frag} cuts={n_edges} ops={spec['ops']} obs={spec['obs']}",
                   sig=f"{spec['t']}:value:{'multi' if n_frag > 1 else 'single'}-fragment", features=feats)
    fits = max(len(tp.wires) for tp in tapes) <= len(spec["dev"])
    labels = [spec["t"], f"{spec['t']}:fragments={min(n_frag, 4)}", f"{spec['t']}:cut_edges={min(n_edges, 4)}", f"obs:{spec['obs']['op']}",
              f"{spec['t']}:tapes={'<=10' if len(tapes) <= 10 else '<=50' if len(tapes) <= 50 else '>50'}"]
    if auto:
        labels += [f"auto:fits={fits}", f"auto:manual_cuts={n_manual}"]
    if spec["opt_einsum"]:
        labels.append("opt_einsum")
    return Result(n_frag >= 2, labels)


# ---- Monte Carlo

_ROT = {"PauliX": lambda G: G.H, "Hadamard": None}


def _joint_distribution(tp):
    """Exact joint distribution of the single-wire sample measurements of a one-shot fragment tape.
    Returns (probabilities over bitstrings of the measured non-identity wires, value tables per measurement)."""
    from pv.ref import gates as G

    order = list(tp.wires)
    for m in tp.measurements:
        for w in m.wires:
            if w not in order:
                order.append(w)
    psi = sim.run_ops(tp.operations, order).reshape((2,) * len(order))
    Sdg = np.diag([1, -1j])
    meas_wires, kinds = [], []
    for m in tp.measurements:
        nm = m.obs.name
        w = m.obs.wires[0]
        if nm == "Identity":
            kinds.append(("const", None))
            continue
        if w in meas_wires:
            raise RuntimeError("two measurements on one wire")
        if nm == "PauliX":
            psi = sim.apply(psi, G.H, [order.index(w)])
        elif nm == "PauliY":
            psi = sim.apply(psi, G.H @ Sdg, [order.index(w)])
        elif nm not in ("PauliZ", "Projector"):
            raise RuntimeError("unexpected fragment measurement " + nm)
        kinds.append(("bit" if nm == "Projector" else "pm", len(meas_wires)))
        meas_wires.append(w)
    p = sim.marginal_probs(psi.reshape(-1), order, meas_wires) if meas_wires else np.array([1.0])
    return np.cumsum(p), kinds, len(meas_wires)


def _mc_once(spec, run):
    import pennylane as qp

    mw = [specs.wire(w) for w in spec["mw"]]
    T, sign, fs = spec["T"], spec["sign"], spec["fscale"]

    def f(bits):
        return fs * sign * (-1) ** int(sum(int(round(float(bits[i]))) for i in T))

    tape = _tape(spec, True, [qp.sample(wires=mw)])
    seed = spec["seed"] + 7919 * run
    tapes, fn = qp.cut_circuit_mc(tape, classical_processing_fn=f, device_wires=qp.wires.Wires([specs.wire(w) for w in spec["dev"]]), seed=seed)
    h = hashlib.sha1(repr((sorted(spec.items(), key=lambda kv: kv[0]), run)).encode()).digest()
    rng = np.random.default_rng(int.from_bytes(h[:8], "big"))
    us = rng.random(len(tapes))
    cache = {}
    res = []
    for tp, u in zip(tapes, us):
        key = (tuple(str(o) for o in tp.operations), tuple(str(m) for m in tp.measurements))
        if key not in cache:
            cache[key] = _joint_distribution(tp)
        cdf, kinds, nb = cache[key]
        idx = min(int(np.searchsorted(cdf, u, side="right")), len(cdf) - 1)
        vals = []
        for kind, pos in kinds:
            if kind == "const":
                vals.append(np.array([1.0]))
            else:
                bit = (idx >> (nb - 1 - pos)) & 1
                vals.append(np.array([float(bit) if kind == "bit" else 1.0 - 2.0 * bit]))
        res.append(vals[0] if len(vals) == 1 else tuple(vals))
    est = float(fn(res))
    comm = None
    return est, len(tapes)


def check_mc(spec):
    import pennylane as qp

    order = [specs.wire(w) for w in spec["wires"]]
    mw = [specs.wire(w) for w in spec["mw"]]
    K = sum(len(o["w"]) for o in spec["ops"] if o["op"] == "WireCut")
    S = spec["shots"]
    psi = sim.run_ops(_tape(spec, False, []).operations, order)
    p = sim.marginal_probs(psi, order, mw)
    nb = len(mw)
    fvals = np.array([spec["fscale"] * spec["sign"] * (-1) ** sum((b >> (nb - 1 - i)) & 1 for i in spec["T"]) for b in range(2**nb)])
    mu = float(p @ fvals)
    fmax = spec["fscale"]
    M = 4**K * fmax + abs(mu)
    var = 16**K * fmax**2 - mu**2
    L = math.log(2 / 5e-10)
    a = 2 * M * L / 3
    t = (a + math.sqrt(a * a + 8 * var * L * S)) / (2 * S)
    ests = []
    for run in (0, 1):
        est, n_tapes = _mc_once(spec, run)
        ests.append(est)
        if abs(est - mu) <= t:
            break
    else:
        full = len(spec["T"]) == nb
        raise Viol("mc-consistency", f"estimates {ests} (two independent runs) vs exact {mu:.6f}, Bernstein radius {t:.4f}; K={K} shots={S} "
                                     f"sample wires={spec['mw']} f=parity of positions {spec['T']} * {spec['sign'] * spec['fscale']} ops={spec['ops']}",
                   sig=f"mc:{'full' if full else 'subset'}-parity", features={"mode": "mc", "K": K, "full_parity": full})
    return Result(abs(mu) >= 0.3 and K >= 1, ["mc", f"mc:K={K}", f"mc:|mu|>={'0.3' if abs(mu) >= 0.3 else '0'}", f"mc:runs={len(ests)}",
                                                f"mc:{'full' if len(spec['T']) == nb else 'subset'}-parity"])


def check(spec):
    if not spec["ops"]:
        raise Reject("empty circuit")
    if spec["t"] == "mc":
        if not any(o["op"] == "WireCut" for o in spec["ops"]):
            raise Reject("no WireCut left")
        return check_mc(spec)
    if spec["t"] == "cut" and not any(o["op"] == "WireCut" for o in spec["ops"]):
        raise Reject("no WireCut left")
    return check_cut(spec)


def selftest():
    sim.selftest()
    # Bernstein radius sanity: K=1, S=6000, mu=0 -> about 0.36
    L = math.log(2 / 5e-10)
    a = 2 * 4 * L / 3
    t = (a + math.sqrt(a * a + 8 * 16 * L * 6000)) / 12000
    assert 0.3 < t < 0.4, t
