"""C11 — declared decomposition resources match the emitted gates; work-wire declarations bound actual use."""
from collections import Counter

from pv.engine import Reject, Result, Viol
from pv.ref import rules as R

ID = "C11"
TECHNIQUE = ("same generated instance space as C10 (zoo leaf under adjoint / pow / controlled wrappers x every applicable registered "
             "rule); oracle = multiset of compressed representations of the recorded queue vs rule.compute_resources, and counted "
             "dynamic allocations vs rule.get_work_wire_spec")
RULE = (
    "A case is (operator instance, rule selector) drawn exactly as in C10 (named gates, matrix ops, arithmetic subroutines, state "
    "preparations, layer templates, composite operators; bare or under Adjoint / Pow / Controlled with 1-4 controls, all control "
    "value patterns, 0-3 user work wires of type zeroed or borrowed; nested wrappers), plus a deterministic sweep that visits every "
    "applicable rule of fixed instances of every leaf class and wrapper form. The rule is called under an AnnotatedQueue. Oracle: "
    "Counter(abstractify(op)) over the queue (Conditional unwrapped to its base, Allocate/Deallocate excluded) compared with "
    "rule.compute_resources(**params).gate_counts (zero-count entries dropped): equal multisets when the rule declares exact "
    "resources, emitted types a subset of the declared types otherwise (also for SubroutineOp with inexact subroutine resources); "
    "number of dynamically allocated wires per kind (state zero/any x restored yes/no = zeroed/borrowed/burnable/garbage) and in "
    "total must not exceed rule.get_work_wire_spec(**params). Non-trivial: at least two emitted gates or two declared types."
)
ASSUMPTIONS = [
    "Resource types are compared only through the public compressed representation (abstractify of the emitted operator vs the keys "
    "returned by compute_resources), exactly the comparison qp.ops.functions.assert_valid performs.",
    "A rule is called as register_resources documents (see C10).",
    "Only allocations made directly by the rule are counted; work wires consumed inside emitted operators' own decompositions are "
    "those operators' declarations.",
]
BUDGET = {"quick": {"examples": 900}, "thorough": {"examples": 30000, "shards": 8}}
SHRINK_LISTS = ()

KIND = {("zero", True): "zeroed", ("any", True): "borrowed", ("zero", False): "burnable", ("any", False): "garbage"}


def strategy(tier):
    return R.targets()


def enumerate_cases(tier):
    per = {"B": 2, "A": 1, "P": 1, "C": 2} if tier == "quick" else {"B": 6, "A": 3, "P": 6, "C": 12, "N": 8}
    return R.sweep(per)


def emitted_counts(raw):
    import pennylane as qp
    from pennylane.core.operator import abstractify

    counts = Counter()
    for o in raw:
        if isinstance(o, qp.ops.Conditional):
            o = o.base
        if type(o).__name__ in ("Allocate", "Deallocate"):
            continue
        if not isinstance(o, qp.operation.Operator):
            continue
        counts[abstractify(o)] += 1
    return counts


def _parts(k):
    if hasattr(k, "arguments"):
        return type(k).__name__, dict(k.arguments)
    if hasattr(k, "params") and hasattr(k, "op_type"):
        return k.op_type.__name__, dict(k.params)
    return None


def rep_diff(a, b):
    """Set of argument names in which two compressed representations differ (recursing into nested operators)."""
    pa, pb = _parts(a), _parts(b)
    if pa is None or pb is None:
        return set() if a == b else {"value"}
    if pa[0] != pb[0]:
        return {"type"}
    out = set()
    for key in set(pa[1]) | set(pb[1]):
        va, vb = pa[1].get(key), pb[1].get(key)
        if _parts(va) is not None and _parts(vb) is not None:
            out |= rep_diff(va, vb)
        elif key in ("base_params",) and isinstance(va, dict) and isinstance(vb, dict):
            out |= {k for k in set(va) | set(vb) if va.get(k) != vb.get(k)}
        else:
            try:
                same = bool(va == vb)
            except Exception:  # noqa: BLE001
                same = repr(va) == repr(vb)
            if not same:
                out.add(key)
    return out


def diagnose(missing, declared):
    """Why is an emitted type not declared? 'work_wire_type' / 'work_wires' when that is the only difference to some
    declared type for every missing type, else 'other'."""
    causes = set()

    def inner(k):  # strip Adjoint(..) / Pow(.., z) layers: (wrapper chain, innermost rep)
        # Pow layers were not stripped before, so the CNOT/Toffoli-vs-MultiControlledX alias seen through
        # ControlledSequence (emits pow(ctrl(base), z)) landed in 'other' instead of the mcx_alias class.
        chain = ()
        while _parts(k) is not None and "base" in _parts(k)[1]:
            nm, args = _parts(k)
            if nm in ("Adjoint", "Adjoint2"):
                chain += ("A",)
            elif nm in ("Pow", "Pow2") and isinstance(args.get("z"), (int, float)):
                chain += (("P", args["z"]),)
            else:
                break
            k = args["base"]
        return chain, k

    for e in missing:
        best = None
        de, ie = inner(e)
        if _parts(ie) is not None and _parts(ie)[0] in ("Toffoli", "CNOT"):
            want = 3 if _parts(ie)[0] == "Toffoli" else 2
            for d in declared:
                dd, idd = inner(d)
                pd = _parts(idd)
                if dd == de and pd is not None and pd[0] == "MultiControlledX" and len(pd[1].get("wires", ())) == want:
                    best = "mcx_alias"  # concrete qp.ctrl(X) dispatches to CNOT / Toffoli, the abstract rep stays MultiControlledX
        for d in declared:
            if best == "mcx_alias":
                break
            df = rep_diff(e, d)
            if df and df <= {"work_wire_type"}:
                best = "work_wire_type"
                break
            if df and df <= {"work_wires", "work_wire_type", "num_work_wires"}:
                best = best or "work_wires"
        causes.add(best or "other")
    return causes.pop() if len(causes) == 1 else "other"


def check(spec):
    import pennylane as qp

    op, rule, params = R.select(spec)
    name = R.reg_name(op)
    core = rule.name
    while "(" in core:
        core = core[core.index("(") + 1:core.rindex(")")]
    wrapper = rule.name[:rule.name.index("(")] if "(" in rule.name else ""
    leaf = R.leaf_of(spec["t"])
    if core.startswith("_") and core != "_impl":
        sig = f"{leaf['op']}:{core}" + (f"/{wrapper}" if wrapper else "")
    elif core == "_impl":
        sig = f"{name}:{rule.name}"
    else:
        sig = f"generic:{core}" + (f"/{wrapper}" if wrapper else "")
    ww, wwt = [], None
    o = op
    while o is not None:
        if getattr(o, "work_wires", None) is not None and len(o.work_wires) and wwt is None:
            ww, wwt = list(o.work_wires), getattr(o, "work_wire_type", None)
        o = getattr(o, "base", None) if hasattr(o, "base") else None
    feats = {"op": name, "rule": rule.name, "form": R.form_of(spec["t"]), "leaf": leaf["op"], "work_wire_type": wwt or "none",
             "n_work_wires": len(ww), "exact": bool(rule.exact_resources), "wrapper": wrapper or "none"}
    declared = {k: v for k, v in rule.compute_resources(**params).gate_counts.items() if v > 0}
    run = R.run_rule(op, rule)
    actual = emitted_counts(run.raw)
    exact = rule.exact_resources
    if isinstance(op, qp.templates.SubroutineOp) and not op.subroutine.exact_resources:
        exact = False
    missing = [k for k in actual if k not in declared]
    if missing:
        cause = diagnose(missing, declared)
        feats["differs_only_in"] = cause
        if cause != "other":  # one bucket per wrapper kind and cause: these share a root cause across operator classes
            sig = f"{wrapper or core}:only-{cause}-differs" if cause != "mcx_alias" else "any:only-mcx_alias-differs"
        raise Viol("emitted-type-not-declared",
                   f"{name} / {rule.name} on {op}: emitted {[str(k) for k in missing][:3]} not among declared {[str(k) for k in declared][:6]}"
                   f" (difference to the closest declared type: {cause})", sig=sig, features=feats)
    if exact:
        off = {str(k): (actual.get(k, 0), v) for k, v in declared.items() if actual.get(k, 0) != v}
        if off:
            raise Viol("exact-count-mismatch", f"{name} / {rule.name} on {op}: (emitted, declared) = {dict(list(off.items())[:6])}",
                       sig=sig, features=feats)
    # work wires
    spec_ww = rule.get_work_wire_spec(**params)
    used = Counter()
    for al in run.allocs:
        kind = KIND.get((al["state"], al["restored"]))
        if kind is None:
            raise Reject(f"allocation state {al['state']}")
        used[kind] += 1
    for kind, n in used.items():
        if n > getattr(spec_ww, kind):
            raise Viol("work-wires-exceed-declaration",
                       f"{name} / {rule.name}: allocates {n} {kind} wires, declares {getattr(spec_ww, kind)} ({spec_ww})", sig=sig, features=feats)
    if sum(used.values()) > spec_ww.total:
        raise Viol("work-wires-exceed-declaration", f"{name} / {rule.name}: allocates {sum(used.values())} wires, declares total {spec_ww.total}",
                   sig=sig, features=feats)
    labels = [name, "form:" + feats["form"], "exact" if exact else "inexact"]
    if run.allocs:
        labels.append("dynamic-allocation")
    if spec_ww.total:
        labels.append("declares-work-wires")
    if run.has_measure:
        labels.append("measurement-rule")
    if wwt:
        labels.append("user-work-wires:" + wwt)
    if wrapper:
        labels.append("wrapped:" + wrapper)
    return Result(sum(actual.values()) >= 2 or len(declared) >= 2, labels=labels)
