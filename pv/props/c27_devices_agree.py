"""C27 — the other simulator devices agree with default.qubit on the circuits they accept (null.qubit: same shapes)."""
import numpy as np
from hypothesis import strategies as st

from pv import gen, specs
from pv.cmp import close, maxdiff, to_np
from pv.engine import Reject, Result, Viol
from pv.props import c70_default_clifford as c70
from pv.props.c28_channels_mixed import ONE_PARAM, _standard_order
from pv.props.c28_channels_mixed import build_op as build28
from pv.ref import sim

ID = "C27"
TECHNIQUE = ("hypothesis circuits per target device (restricted to what its own preprocessing accepts) executed on the target and on "
             "default.qubit with the same wires configuration; differential comparison of every analytic result")
RULE = (
    "Targets: default.mixed (1-5 wires, full gate table + GlobalPhase/MultiRZ/PauliRot/QubitUnitary/MultiControlledX/adjoint, leading "
    "BasisState/StatePrep, optional broadcast parameter, channels with strength 0 interleaved (an Identity on the same wires in the baseline); all analytic measurements; qp.state is "
    "compared as |psi><psi|), reference.qubit (1-4 wires, same circuits; expval/var/probs/state/density_matrix/purity/entropies), "
    "default.tensor method=mps (max_bond_dim None or >= 2^floor(n/2), contract auto-mps/swap+split/nonlocal) and method=tn (contract "
    "auto-split-gate/split-gate/...), 1-6 wires, expval/var of Pauli words, sums, Hermitian, LinearCombination and state; "
    "default.clifford (C70's Clifford circuits, tableau on/off, all analytic measurements except the tableau itself); null.qubit "
    "(any circuit, analytic and finite shots incl. shot vectors: nesting, array shapes, dict-vs-array must equal default.qubit's). "
    "Device wires none / same / permuted / idle extras for both devices alike. A target-side DeviceError / NotImplementedError "
    "('not supported') is a rejection (circuit outside the device's supported set). Oracle: target result == default.qubit result, "
    "1e-7 (tensor and clifford state-vector paths 1e-6; clifford states up to a global phase). Non-trivial: >= 1 two-qubit gate and >= 2 "
    "measurements."
)
ASSUMPTIONS = [
    "default.qubit is the reference of this differential property; its own exactness is C26.",
    "null.qubit: dtype kinds are not compared (it returns a float state vector), only nesting and shapes.",
    "default.tensor(method='mps') with contract 'swap+split' / 'nonlocal' is only compared on circuits whose device-level gates act on <= 2 wires (quimb limitation).",
    "Known default.clifford defects recorded under C70 carry the same features / sig prefixes here.",
]
BUDGET = {"quick": {"examples": 260}, "thorough": {"examples": 25000, "shards": 16}}
SHRINK_LISTS = ("ops", "meas")

ENT2 = {"CNOT", "CZ", "CY", "CH", "SWAP", "ISWAP", "SISWAP", "ECR", "CRX", "CRY", "CRZ", "CRot", "IsingXX", "IsingYY", "IsingZZ", "IsingXY", "PSWAP",
        "Toffoli", "CSWAP", "CCZ", "MultiControlledX", "DoubleExcitation", "SingleExcitation", "ControlledPhaseShift", "FermionicSWAP", "OrbitalRotation",
        "SingleExcitationPlus", "SingleExcitationMinus", "DoubleExcitationPlus", "DoubleExcitationMinus", "CPhaseShift00", "CPhaseShift01", "CPhaseShift10",
        "MultiRZ", "PauliRot", "QubitUnitary"}


def _dev_wires(draw, wires, allow_none=True):
    devw = draw(st.sampled_from((["none"] if allow_none else []) + ["same", "perm", "extra"]))
    if devw == "same":
        return list(wires)
    if devw == "perm":
        return list(draw(st.permutations(wires)))
    if devw == "extra":
        return list(draw(st.permutations(wires + ["idle1"])))
    return None


@st.composite
def _rich_meas(draw, wires, entropies=True):
    n = len(wires)
    sub = st.integers(1, n).flatmap(lambda k: gen.subset(wires, k))
    lin = st.lists(st.tuples(gen.floats01, gen.pauli_word_obs(wires)), min_size=1, max_size=4).map(
        lambda ts: {"op": "lincomb", "coeffs": [c for c, _ in ts], "operands": [o for _, o in ts]})
    opts = [gen.observable(wires).map(lambda o: {"mp": "expval", "obs": o}), lin.map(lambda o: {"mp": "expval", "obs": o}),
            gen.observable(wires).map(lambda o: {"mp": "var", "obs": o}),
            sub.map(lambda w: {"mp": "probs", "w": w}), gen.pauli_word_obs(wires).map(lambda o: {"mp": "probs", "obs": o}),
            st.just({"mp": "state"}), sub.map(lambda w: {"mp": "density_matrix", "w": w})]
    # dense complex Hermitian observables (matrix-based expectation / variance paths differ per device)
    herm = st.integers(1, min(2, n)).flatmap(lambda k: st.tuples(gen.float_list(5), gen.subset(wires, k)).map(
        lambda t: {"op": "Hermitian", "p": [{"H": t[0], "n": len(t[1])}], "w": t[1]}))
    opts += [herm.map(lambda o: {"mp": "expval", "obs": o}), herm.map(lambda o: {"mp": "expval", "obs": o}), herm.map(lambda o: {"mp": "var", "obs": o})]
    if entropies:
        opts += [sub.map(lambda w: {"mp": "purity", "w": w}),
                 st.tuples(sub, st.sampled_from([None, 2])).map(lambda t: {"mp": "vn_entropy", "w": t[0], "log_base": t[1]})]
        if n >= 2:
            opts.append(st.permutations(wires).flatmap(lambda p: st.tuples(st.integers(1, n - 1), st.integers(1, n - 1)).map(
                lambda t: {"mp": "mutual_info", "w0": list(p)[:t[0]], "w1": list(p)[t[0]:t[0] + t[1]], "log_base": None})))
    return draw(st.one_of(*opts))


@st.composite
def _general_ops(draw, wires, depth, batch_ok=True):
    n = len(wires)
    ops = draw(gen.op_list(wires, None, depth, extras=True, p_derive=0.15))
    prep = draw(st.sampled_from([None, None, None, "basis", "state"]))
    if prep == "basis":
        k = draw(st.integers(1, n))
        ops.insert(0, {"op": "BasisState", "p": [draw(st.lists(st.integers(0, 1), min_size=k, max_size=k))], "w": draw(gen.subset(wires, k))})
    elif prep == "state":
        k = draw(st.integers(1, min(n, 3)))
        ops.insert(0, {"op": "StatePrep", "p": [{"vec": draw(gen.float_list(6)), "n": k}], "w": draw(gen.subset(wires, k))})
    if batch_ok and draw(st.integers(0, 5)) == 0:
        b = draw(st.integers(1, 3))
        nm = draw(st.sampled_from(["RX", "RZ", "PhaseShift"]))
        ops.insert(draw(st.integers(1 if prep else 0, len(ops))), {"op": nm, "p": [draw(st.lists(gen.angles(), min_size=b, max_size=b))], "w": draw(gen.subset(wires, 1))})
    return ops


@st.composite
def _mixed(draw):
    n = draw(st.integers(1, 5))
    wires = draw(gen.wire_labels(n))
    ops = draw(_general_ops(wires, 10))
    for _ in range(draw(st.integers(0, 2))):
        nm = draw(st.sampled_from(ONE_PARAM + ["PauliError"]))
        c = {"op": nm, "p": [0.0], "w": draw(gen.subset(wires, 1))}
        if nm == "PauliError":
            c["word"] = draw(st.sampled_from("XYZ"))
        ops.insert(draw(st.integers(1, len(ops))), c)
    return {"target": {"name": "default.mixed"}, "ops": ops, "meas": draw(st.lists(_rich_meas(wires), min_size=1, max_size=4)), "wires": wires,
            "dev_wires": _dev_wires(draw, wires), "shots": None}


@st.composite
def _reference(draw):
    n = draw(st.integers(1, 4))
    wires = draw(gen.wire_labels(n))
    return {"target": {"name": "reference.qubit"}, "ops": draw(_general_ops(wires, 8)), "meas": draw(st.lists(_rich_meas(wires), min_size=1, max_size=4)),
            "wires": wires, "dev_wires": _dev_wires(draw, wires), "shots": None}


@st.composite
def _tensor(draw):
    n = draw(st.integers(1, 6))
    wires = draw(gen.wire_labels(n))
    method = draw(st.sampled_from(["mps", "mps", "tn"]))
    tgt = {"name": "default.tensor", "method": method}
    if method == "mps":
        tgt["max_bond_dim"] = draw(st.sampled_from([None, 2 ** (n // 2), 2 ** (n // 2) + 3, 64]))
        tgt["contract"] = draw(st.sampled_from(["auto-mps", "auto-mps", "swap+split", "nonlocal"]))
    else:
        tgt["contract"] = draw(st.sampled_from(["auto-split-gate", "auto-split-gate", "split-gate", "reduce-split", "swap-split-gate", "split", True, False]))
    lin = st.lists(st.tuples(gen.floats01, gen.pauli_word_obs(wires)), min_size=1, max_size=4).map(
        lambda ts: {"op": "lincomb", "coeffs": [c for c, _ in ts], "operands": [o for _, o in ts]})
    m = st.one_of(gen.observable(wires).map(lambda o: {"mp": "expval", "obs": o}), lin.map(lambda o: {"mp": "expval", "obs": o}),
                  gen.observable(wires).map(lambda o: {"mp": "var", "obs": o}), st.just({"mp": "state"}))
    return {"target": tgt, "ops": draw(_general_ops(wires, 8, batch_ok=False)), "meas": draw(st.lists(m, min_size=1, max_size=4)), "wires": wires,
            "dev_wires": _dev_wires(draw, wires, allow_none=False), "shots": None}


@st.composite
def _clifford(draw):
    n = draw(st.sampled_from([1, 2, 3, 4, 5, 6]))
    wires = draw(gen.wire_labels(n))
    tableau = draw(st.booleans())
    meas = draw(st.lists(c70._analytic_meas(wires), min_size=1, max_size=4))
    if tableau:
        meas = [m for m in meas if m["mp"] != "state"] or [{"mp": "expval", "obs": {"op": "PauliZ", "w": [wires[0]]}}]
    return {"target": {"name": "default.clifford", "tableau": tableau}, "ops": draw(c70.clifford_ops(wires, 20)), "meas": meas, "wires": wires,
            "dev_wires": _dev_wires(draw, wires), "shots": None}


@st.composite
def _null(draw):
    n = draw(st.integers(1, 4))
    wires = draw(gen.wire_labels(n))
    shots = draw(st.sampled_from([None, None, 1, 7, [3, 4], [[2, 3]], [5, 1, 5]]))
    sub = st.integers(1, n).flatmap(lambda k: gen.subset(wires, k))
    if shots is None:
        meas = draw(st.lists(_rich_meas(wires), min_size=1, max_size=4))
    else:
        meas = draw(st.lists(st.one_of(sub.map(lambda w: {"mp": "sample", "w": w}), st.just({"mp": "sample", "w": None}),
                                       gen.pauli_word_obs(wires).map(lambda o: {"mp": "sample", "obs": o}),
                                       gen.pauli_word_obs(wires).map(lambda o: {"mp": "expval", "obs": o}),
                                       gen.pauli_word_obs(wires).map(lambda o: {"mp": "var", "obs": o}),
                                       sub.map(lambda w: {"mp": "probs", "w": w}),
                                       sub.map(lambda w: {"mp": "counts", "w": w, "all_outcomes": True})), min_size=1, max_size=4))
    return {"target": {"name": "null.qubit"}, "ops": draw(_general_ops(wires, 6)), "meas": meas, "wires": wires, "dev_wires": _dev_wires(draw, wires), "shots": shots}


def strategy(tier):
    return st.one_of(_mixed(), _mixed(), _reference(), _reference(), _tensor(), _tensor(), _tensor(), _clifford(), _clifford(), _null())


def enumerate_cases(tier):
    # default.clifford: C70's gate-table cases (every native gate on a generic stabilizer state, both wire orders) against default.qubit
    for c in c70.enumerate_cases(tier):
        if c["kind"] != "analytic":
            continue
        meas = [m for m in c["meas"] if not (c["tableau"] and m["mp"] == "state")]
        if meas:
            yield {"target": {"name": "default.clifford", "tableau": c["tableau"]}, "ops": c["ops"], "meas": meas, "wires": c["wires"], "dev_wires": c["dev_wires"], "shots": None}


# ----------------------------------------------------------------------------------------------

def _build_op(s):
    if s["op"] == "StatePrepStab":
        return c70.build_op(s)
    return build28(s)


def _mk_device(tgt, dev_wires, shots=None):
    import pennylane as qp

    kw = {"wires": dev_wires} if dev_wires else {}
    nm = tgt["name"]
    if nm == "default.tensor":
        kw.update({k: tgt[k] for k in ("method", "max_bond_dim", "contract") if k in tgt and not (k == "max_bond_dim" and tgt[k] is None)})
    if nm == "default.clifford":
        kw["tableau"] = tgt["tableau"]
    if nm in ("default.mixed", "default.clifford", "reference.qubit"):
        kw["seed"] = 7
    return qp.device(nm, **kw)


def _desc(x):
    if isinstance(x, (tuple, list)):
        return tuple(_desc(y) for y in x)
    if isinstance(x, dict):
        return ("dict", len(x))
    return ("array", tuple(np.shape(x)))


REJECT_MSG = ("Cannot split up terms in sums", "not supported", "doesn't support", "does not support", "Reached recursion limit", "not yet supported", "not accepted", "currently not supported",
              "only supports", "Unsupported")


def _leaf(o):
    return _leaf(o["base"]) if "base" in o else o["op"]


def _leafspec(o):
    return _leafspec(o["base"]) if "base" in o else o


def check(spec):
    import pennylane as qp

    tgt = spec["target"]
    nm = tgt["name"]
    channels = set(ONE_PARAM + ["PauliError"])
    ops_t = [_build_op(o) for o in spec["ops"]]
    # the strength-0 channels are identities for the baseline. They used to be dropped from the default.qubit tape, which also dropped (or
    # moved) their wires: on a device without wires the two tapes then had different wire sets / orders and qp.state() was compared between
    # registers of different size or order (false alarm, default.mixed was right). The baseline now keeps an Identity on the channel's wires.
    ops_b = [qp.Identity(wires=[specs.wire(w) for w in o["w"]]) if o["op"] in channels else _build_op(o) for o in spec["ops"]]
    mps = [specs.build_meas(m) for m in spec["meas"]]
    for m in mps:
        if type(m).__name__ == "MutualInfoMP" and (set(m.raw_wires[0]) & set(m.raw_wires[1]) or not len(m.raw_wires[1])):
            raise Reject("mutual_info overlapping/empty")
    dev_wires = [specs.wire(w) for w in spec["dev_wires"]] if spec.get("dev_wires") else None
    shots = spec.get("shots")
    raw_shots = shots if not isinstance(shots, list) else [tuple(x) if isinstance(x, list) else x for x in shots]
    tape_t = qp.tape.QuantumScript(ops_t, mps, shots=raw_shots)
    tape_b = qp.tape.QuantumScript(ops_b, mps, shots=raw_shots)
    batch = next((len(o["p"][0]) for o in spec["ops"] if o["op"] in ("RX", "RZ", "PhaseShift") and o.get("p") and isinstance(o["p"][0], list)), None)
    feats = {"target": nm, **{k: v for k, v in tgt.items() if k != "name"}, "batch": batch}
    if nm == "default.clifford":
        order0 = list(dev_wires) if dev_wires else _standard_order(tape_t)
        feats.update({"idle_tail": c70._idle_tail(spec, order0, dev_wires), "stateprep": c70._stateprep_unsorted(spec, tape_t),
                      "projector_no_tableau": (not tgt["tableau"]) and any(m["mp"] == "expval" and m["obs"]["op"] == "Projector" for m in spec["meas"])})
    if nm == "reference.qubit":
        def nonpauli(o):
            if o is None:
                return False
            if o["op"] in ("Hermitian", "Projector", "SparseHamiltonian"):
                return True
            return any(nonpauli(x) for x in o.get("operands", [])) or nonpauli(o.get("base"))
        # reference.qubit simulates the register tape.wires (device wires only enter through wire-less measurements): labels are positions only
        # if BOTH the device wires and the tape wires are 0..n-1 in order (device(wires=4), vn_entropy(wires=[3]) on an empty circuit has the
        # one-qubit register [3]: same recorded defect, "3 is not in list").
        tw = list(tape_t.wires) if not dev_wires else list(dev_wires)
        tw2 = list(tape_t.wires)
        feats.update({"ref_nonpauli_obs": any(nonpauli(m.get("obs")) for m in spec["meas"]),
                      "ref_labels_not_positions": tw != list(range(len(tw))) or tw2 != list(range(len(tw2)))})
    dev_first_use = None
    if nm == "default.tensor":
        first = spec["ops"][0] if spec["ops"] else None
        feats["partial_prep"] = bool(first and first["op"] in ("BasisState", "StatePrep") and dev_wires and
                                     (len(first["w"]) < len(dev_wires) or list(dev_wires) != list(range(len(dev_wires)))))
        feats["tn_reduce_split"] = tgt.get("contract") in ("reduce-split", "split")
        # default.tensor applies MultiRZ / PauliRot on >= 2 wires as an MPO written straight into the quimb state (apply_operation_core_paulirot),
        # for both methods; the class of the recorded defect is "such a gate reaches the device", i.e. it is in the circuit or in the device's
        # own decomposition of it (FermionicSWAP, OrbitalRotation, ... decompose into MultiRZ). Computed from the input by preprocessing only.
        dev_level = False
        try:
            (pt0,), _ = _mk_device(tgt, dev_wires).preprocess()[0]([tape_t])
            dev_first_use = list(qp.wires.Wires.all_wires([op.wires for op in pt0.operations]))
            dev_level = any(type(op).__name__ in ("MultiRZ", "PauliRot") and len(op.wires) >= 2 for op in pt0.operations)
        except Exception:  # noqa: BLE001  (the execution below rejects or reports it)
            pass
        spec_level = any(_leaf(o) in ("MultiRZ", "PauliRot") and len(_leafspec(o)["w"]) >= 2 for o in spec["ops"])
        feats["mps_multirz"] = tgt["method"] == "mps" and (spec_level or dev_level)
        feats["tn_multirz"] = tgt["method"] == "tn" and (spec_level or dev_level)
    # default.qubit (the reference side) sizes and orders wire-less results of a device without wires by the tape left after ITS preprocessing,
    # which deletes Barrier: a wire that only carries a Barrier is dropped (or moved behind the gate wires when a measurement names it), a wire whose first use is a
    # Barrier moves to the position of its first gate.
    # The class: the first-use order (or the set) of the gate wires changes when the Barriers are deleted.
    def _first_use(skip_barrier):
        out = []
        for o in spec["ops"]:
            if not (skip_barrier and _leaf(o) == "Barrier"):
                out += [w for w in _leafspec(o).get("w", []) if w not in out]
        return out
    feats["barrier_first_use"] = bool(not dev_wires and _first_use(False) != _first_use(True))
    if not dev_wires and not len(tape_b.wires):
        raise Reject("no wires at all")
    if not dev_wires and any(m["mp"] == "state" for m in spec["meas"]) and set(tape_b.wires) != set(w for op in ops_b for w in op.wires):
        raise Reject("state of a device without wires and measurement-only wires: size not documented")
    # baseline
    base = qp.execute([tape_b], qp.device("default.qubit", wires=dev_wires, seed=7) if dev_wires else qp.device("default.qubit", seed=7))[0]
    # target
    try:
        dev = _mk_device(tgt, dev_wires)
        if nm == "default.tensor" and tgt["method"] == "mps" and tgt.get("contract") != "auto-mps":
            (pt,), _ = dev.preprocess()[0]([tape_t])
            if any(len(op.wires) > 2 for op in pt.operations if not isinstance(op, qp.operation.StatePrepBase)):
                raise Reject("quimb contract options swap+split / nonlocal only apply 1- and 2-qubit gates (device docs: auto-mps handles 3/4-qubit gates)")
        got = qp.execute([tape_t], dev)[0]
    except (qp.exceptions.DeviceError, NotImplementedError, qp.exceptions.QuantumFunctionError, qp.exceptions.DecompositionUndefinedError, RuntimeError) as e:
        if isinstance(e, qp.exceptions.DeviceError) or any(m in str(e) for m in REJECT_MSG):
            raise Reject(f"{nm}: {type(e).__name__}") from None
        raise
    except Reject:
        raise
    except Exception as e:  # noqa: BLE001
        if "invalid for >2 sites" in str(e):
            raise Reject("quimb: contract option invalid for gates on more than 2 sites") from None
        pre = "idle-tail:" if feats.get("idle_tail") else ("partial-prep:" if feats.get("partial_prep") else ("reduce-split:" if feats.get("tn_reduce_split") else
              ("mps-multirz:" if feats.get("mps_multirz") else "")))
        if nm == "reference.qubit" and feats.get("ref_labels_not_positions") and any(m["mp"] in ("vn_entropy", "mutual_info", "purity") for m in spec["meas"]):
            pre = "entropy-labels:"
        raise Viol("unexpected-exception", f"{nm} {tgt}: {type(e).__name__}: {str(e)[:200]} meas={spec['meas']} dev_wires={spec.get('dev_wires')} ops={spec['ops']}",
                   sig=pre + type(e).__name__ + ":" + nm, features={**feats, "exc": type(e).__name__}) from e
    n_ent = sum(1 for o in spec["ops"] if _leaf(o) in ENT2 and len(_leafspec(o).get("w", [])) >= 2)
    labels = ["target:" + nm + (":" + tgt["method"] if "method" in tgt else ""), "devw:" + ("given" if dev_wires else "none")] + \
             ["mp:" + m["mp"] for m in spec["meas"]] + (["batched"] if batch else []) + (["shots"] if shots else [])
    nt = n_ent >= 1 and len(mps) >= 2
    if nm == "null.qubit":
        if _desc(got) != _desc(base):
            raise Viol("null-shapes", f"null.qubit result structure {_desc(got)} differs from default.qubit {_desc(base)}; meas={spec['meas']} shots={shots} "
                                      f"dev_wires={spec.get('dev_wires')} batch={batch} ops={spec['ops']}", sig="null:" + ("batch1-shots" if (batch == 1 and shots) else "counts-subset" if any(m["mp"] == "counts" and m.get("w") is not None and len(m["w"]) < len(tape_b.wires if not dev_wires else dev_wires)
                                                                         for m in spec["meas"]) else ("shots" if shots else "analytic")), features=feats)
        return Result(nt, labels=labels)
    got = to_np(got)
    base = to_np(base)
    if len(mps) == 1:
        got, base = (got,), (base,)
    if len(got) != len(mps):
        raise Viol("result-structure", f"{nm}: {len(got)} results for {len(mps)} measurements", sig="structure:" + nm, features=feats)
    tol = 1e-6 if nm == "default.tensor" else 1e-7
    for j, (m, mp) in enumerate(zip(spec["meas"], mps)):
        g = np.asarray(got[j])
        b = np.asarray(base[j])
        name = type(mp).__name__
        what = f"{nm} {tgt} {m} dev_wires={spec.get('dev_wires')} batch={batch} ops={spec['ops']}"
        f2 = {**feats, "mp": m["mp"]}
        pre = ""
        wireless = m["mp"] == "state" or (m["mp"] == "probs" and m.get("w") is None and not m.get("obs"))
        if nm == "default.clifford":
            pre = "stateprep:" if feats.get("stateprep") else ("idle-tail:" if feats.get("idle_tail") else "")
            if feats.get("projector_no_tableau") and m["mp"] == "expval" and m["obs"]["op"] == "Projector":
                pre = "projector-no-tableau:"
            if name == "ProbabilityMP" and (not tgt["tableau"] or not len(mp.wires)) and c70._unsorted_int(tape_t):
                pre = "probs-unsorted:"
                f2["probs_unsorted"] = True
        if nm == "reference.qubit":
            if feats.get("ref_nonpauli_obs") and m.get("obs") and nonpauli(m["obs"]):
                pre = "nonpauli-obs:"
            elif feats.get("ref_labels_not_positions") and m["mp"] in ("vn_entropy", "mutual_info", "purity"):
                pre = "entropy-labels:"
        if nm == "default.tensor":
            pre = "partial-prep:" if feats.get("partial_prep") else ("mps-multirz:" if feats.get("mps_multirz") and name in ("VarianceMP", "ExpectationMP") else
                                                                      ("tn-multirz:" if feats.get("tn_multirz") and name in ("VarianceMP", "ExpectationMP") else ""))
        if nm == "reference.qubit" and batch == 1 and m.get("obs") and m["obs"]["op"] in ("s_prod", "sum", "lincomb") and not pre:
            pre = "batch1-sum:"
            f2["ref_batch1_sum"] = True
        if feats.get("barrier_first_use") and wireless and nm in ("default.clifford", "reference.qubit"):
            pre = "barrier-first-use:"
        t = tol
        if name == "StateMP" and nm in ("default.tensor", "reference.qubit") and dev_wires and g.shape == b.shape and not close(g, b, t):
            alt_order = _standard_order(tape_t)
            # default.tensor maps the circuit to standard wires by FIRST USE whenever a mapping is needed (e.g. an idle device wire in state(wires=
            # device wires)), also when the gate wires are a permutation of 0..n-1: first-use order + unused device wires is a candidate too.
            # The order of first use is that of the DEVICE-level circuit (CH(3,x) decomposes into gates that touch x first).
            first_use = list(tape_t.wires)
            dfu = (dev_first_use if nm == "default.tensor" and dev_first_use is not None else first_use)
            for cand in (alt_order + [w for w in dev_wires if w not in alt_order], sorted(dev_wires, key=lambda w: (str(type(w)), w)), first_use,
                         first_use + [w for w in dev_wires if w not in first_use], dfu + [w for w in dev_wires if w not in dfu]):
                if len(cand) == len(dev_wires):
                    alt = sim.run_ops(tape_b.operations, cand) if batch is None else None
                    if alt is not None and alt.shape == g.shape and close(g, alt, t):
                        raise Viol("result-value", f"{what}: state is in wire order {cand}, not in the device wire order", sig="device-wire-order-ignored:" + nm,
                                   features={**f2, "device_order_ignored": True})
        if name == "StateMP":
            if nm == "default.mixed":
                b = np.einsum("...i,...j->...ij", b, b.conj())
            if nm == "default.clifford":
                if g.shape == b.shape and sim.allclose_phase(g, b, 1e-6):
                    continue
                if dev_wires:
                    alt_order = _standard_order(tape_t)
                    alt = sim.run_ops(tape_b.operations, alt_order + [w for w in dev_wires if w not in alt_order])
                    if g.shape == alt.shape and sim.allclose_phase(g, alt, 1e-6):
                        raise Viol("result-value", f"{what}: state is in the tape's wire order, not in the device wire order", sig="device-wire-order-ignored",
                                   features={**f2, "device_order_ignored": True})
                raise Viol("result-value" if g.shape == b.shape else "result-shape", f"{what}: state differs from default.qubit (up to phase): shapes {g.shape} {b.shape}",
                           sig=pre + "StateMP:" + ("value" if g.shape == b.shape else "shape") + ":" + nm, features=f2)
        if nm == "default.clifford" and (name == "DensityMatrixMP" or (name == "ProbabilityMP" and not tgt["tableau"])):
            t = 1e-6
        if g.shape != b.shape:
            bcsr = bool(batch == 1 and m.get("obs") and m["obs"]["op"] in ("lincomb", "SparseHamiltonian"))
            raise Viol("result-shape", f"{what}: shape {g.shape} vs default.qubit {b.shape}", sig=pre + name + ":shape:" + nm, features={**f2, "batch1_csr_obs": bcsr})
        if not close(g, b, t):
            if nm == "default.clifford" and dev_wires and not len(mp.wires):
                alt_order = _standard_order(tape_t)
                full = alt_order + [w for w in dev_wires if w not in alt_order]
                alt = np.asarray(sim.measure(sim.run_ops(tape_b.operations, full), mp, full))
                if alt.shape == g.shape and close(g, alt, t):
                    raise Viol("result-value", f"{what}: result is in the tape's wire order, not in the device wire order", sig="device-wire-order-ignored",
                               features={**f2, "device_order_ignored": True})
            raise Viol("result-value", f"{what}: target {np.round(g, 6).tolist() if g.size <= 8 else '...'} vs default.qubit {np.round(b, 6).tolist() if b.size <= 8 else '...'} "
                                       f"diff={maxdiff(g, b)}", sig=pre.replace("idle-tail:", "") + name + ":value:" + nm, features=f2)
    return Result(nt, labels=labels)


def selftest():
    sim.selftest()
