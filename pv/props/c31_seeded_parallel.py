"""C31 — seeded and parallel execution is reproducible and order-preserving."""
import time

import numpy as np  # noqa: F401
from hypothesis import strategies as st

from pv import gen, specs
from pv.cmp import close, to_np
from pv.engine import Result, Viol

ID = "C31"
TECHNIQUE = "hypothesis-generated batches, seeds, worker counts, executor backends and per-task delay vectors (harness-owned completion order); differential oracle vs serial execution and vs a second run"
RULE = (
    "Batches of 2-8 distinguishable circuits (circuit i starts with RX(0.05*(i+1)) on a fixed wire, then random gates), analytic or "
    "with shots (int / shot vector); seed in ints; backend in {serial, mp_pool, cf_procpool, cf_threadpool} x max_workers in "
    "{1,2,3,5}; two Hypothesis-drawn per-task delay vectors (0-25 ms) applied inside the worker function so that completion "
    "order is a generated permutation. Oracle: (a) analytic results from the parallel run equal serial device results "
    "position by position (1e-12); (b) two fresh devices with the same seed return bitwise-identical finite-shot results for the "
    "same sequence of two executions; (c) for a fixed seed, backend and worker count the shot results under delay vector A equal "
    "those under delay vector B; (d) every sample outcome is valid. Non-trivial: workers >= 2 and the drawn completion order "
    "differs from submission order."
)
ASSUMPTIONS = ["The harness controls completion order via delays inside the task function, not the OS scheduler.",
               "Process-pool workers are spawned and re-import pennylane (seconds per execution), so process backends get one execution per case and a small share of cases; the delay table travels through an environment variable."]
BUDGET = {"quick": {"examples": 18, "min_nontrivial": 2}, "thorough": {"examples": 80, "shards": 4}}
SHRINK_LISTS = ("circuits",)

ENV = "PV_C31_DELAYS"   # json {marker angle: seconds}; environment is inherited by forked AND spawned workers


def delayed_simulate(circuit, kwargs):
    """Module-level (picklable, importable in spawned workers) replacement for
    default_qubit._simulate_wrapper that sleeps for the delay assigned to this circuit first."""
    import json
    import os

    from pennylane.devices.qubit import simulate

    try:
        table = json.loads(os.environ.get(ENV, "{}"))
        key = repr(round(float(np.asarray(circuit.operations[0].data[0])), 6))
        d = float(table.get(key, 0.0))
    except Exception:  # noqa: BLE001
        d = 0.0
    if d:
        time.sleep(d)
    return simulate(circuit, **kwargs)


@st.composite
def _case(draw):
    n = draw(st.integers(1, 3))
    wires = list(range(n))
    k = draw(st.integers(2, 8))
    pool = {g: gen.ALL_GATES[g] for g in ("RX", "RY", "RZ", "Hadamard", "CNOT", "CRX", "IsingXX", "T", "S") if gen.ALL_GATES[g][1] <= n}
    circuits = []
    for i in range(k):
        ops = [{"op": "RX", "p": [round(0.05 * (i + 1), 6)], "w": [0]}] + draw(gen.op_list(wires, pool, 4, ang=gen.generic_angles(), p_derive=0.0))
        circuits.append(ops)
    shots = draw(st.sampled_from([None, None, 20, 50, [10, 20]]))
    if shots is None:
        meas = draw(st.lists(gen.analytic_measurement(wires, with_state=True), min_size=1, max_size=2))
    else:
        meas = draw(st.lists(st.one_of(
            st.just({"mp": "sample", "w": wires}), st.just({"mp": "counts", "w": wires}),
            gen.pauli_word_obs(wires).map(lambda o: {"mp": "expval", "obs": o}),
            st.just({"mp": "probs", "w": wires})), min_size=1, max_size=2))
    d = st.lists(st.sampled_from([0.0, 0.0, 0.005, 0.012, 0.025]), min_size=k, max_size=k)
    return {"circuits": circuits, "meas": meas, "shots": shots, "seed": draw(st.integers(0, 2**20)),
            "backend": draw(st.sampled_from(["cf_threadpool"] * 6 + ["serial"] * 2 + ["mp_pool", "cf_procpool"])),
            "workers": draw(st.sampled_from([1, 2, 3, 5])), "delays_a": draw(d), "delays_b": draw(d)}


def strategy(tier):
    return _case()


def _run(tapes, spec, delays, parallel, n_exec=2):
    import json
    import os

    import pennylane as qp
    import pennylane.devices.default_qubit as dq
    from pennylane.concurrency.executors.backends import get_executor
    from pennylane.devices import ExecutionConfig

    os.environ[ENV] = json.dumps({repr(round(0.05 * (i + 1), 6)): dl for i, dl in enumerate(delays)})
    if parallel:
        workers = 1 if spec["backend"] == "serial" else spec["workers"]
        dev = qp.device("default.qubit", seed=spec["seed"], max_workers=workers)
        cfg = ExecutionConfig(executor_backend=get_executor(spec["backend"]))
    else:
        dev = qp.device("default.qubit", seed=spec["seed"])
        cfg = ExecutionConfig()
    orig = dq._simulate_wrapper
    dq._simulate_wrapper = delayed_simulate
    try:
        out = [to_np(dev.execute(tuple(tapes), cfg)) for _ in range(n_exec)]
    finally:
        dq._simulate_wrapper = orig
        os.environ.pop(ENV, None)
    return out


def _eq(a, b, exact):
    if isinstance(a, (tuple, list)):
        return isinstance(b, (tuple, list)) and len(a) == len(b) and all(_eq(x, y, exact) for x, y in zip(a, b))
    if isinstance(a, dict):
        return isinstance(b, dict) and {str(k): int(v) for k, v in a.items()} == {str(k): int(v) for k, v in b.items()}
    a, b = np.asarray(a), np.asarray(b)
    if a.dtype == object or b.dtype == object:
        return _eq(a.tolist(), b.tolist(), exact) if a.shape == b.shape and a.ndim else (a.item() == b.item() if a.shape == b.shape else False)
    return a.shape == b.shape and (np.array_equal(a, b) if exact else close(a, b, 1e-12))


def check(spec):
    tapes = [specs.build_tape({"ops": ops, "meas": spec["meas"], "shots": spec["shots"]}) for ops in spec["circuits"]]
    feats = {"backend": spec["backend"], "workers": spec["workers"], "shots": spec["shots"] is not None}
    sig = spec["backend"]
    proc = spec["backend"] in ("mp_pool", "cf_procpool")   # workers are spawned and import pennylane: expensive
    n_exec = 1 if proc else 2
    ser = _run(tapes, spec, [0.0] * len(tapes), parallel=False, n_exec=n_exec)
    ser_b = _run(tapes, spec, [0.0] * len(tapes), parallel=False, n_exec=n_exec)
    if not all(_eq(x, y, True) for x, y in zip(ser, ser_b)):
        raise Viol("seed-reproducibility-serial", f"two fresh seeded devices differ; shots={spec['shots']} meas={spec['meas']}", sig="serial", features=feats)
    pa = _run(tapes, spec, spec["delays_a"], parallel=True, n_exec=n_exec)
    if spec["shots"] is None:
        for k, r in enumerate(pa):
            if not _eq(r, ser[k], False):
                bad = [i for i, (x, y) in enumerate(zip(r, ser[k])) if not _eq(x, y, False)]
                raise Viol("parallel-differs-from-serial", f"execution {k}: positions {bad} differ; backend={spec['backend']} workers={spec['workers']} "
                           f"delays={spec['delays_a']}", sig=sig, features=feats)
    else:
        pb = _run(tapes, spec, spec["delays_b"], parallel=True, n_exec=n_exec)
        if not all(_eq(x, y, True) for x, y in zip(pa, pb)):
            raise Viol("schedule-dependent-shots", f"same seed/backend/workers, different delay vectors give different shot results; backend={spec['backend']} "
                       f"workers={spec['workers']} a={spec['delays_a']} b={spec['delays_b']}", sig=sig, features=feats)
        for res in pa[0]:
            _valid(res, spec)
    order_a = sorted(range(len(tapes)), key=lambda i: (spec["delays_a"][i], i))
    reordered = order_a != list(range(len(tapes)))
    workers = 1 if spec["backend"] == "serial" else spec["workers"]
    return Result(workers >= 2 and reordered, labels=[spec["backend"], f"workers={workers}", "shots" if spec["shots"] else "analytic",
                                                       "reordered" if reordered else "in-order"])


def _valid(res, spec):
    n_meas = len(spec["meas"])
    copies = len(spec["shots"]) if isinstance(spec["shots"], list) else 1
    per_copy = res if copies > 1 else (res,)
    if len(per_copy) != copies:
        raise Viol("shot-vector-structure", f"{len(per_copy)} != {copies}", sig="structure")
    sizes = spec["shots"] if isinstance(spec["shots"], list) else [spec["shots"]]
    for r, s in zip(per_copy, sizes):
        items = r if n_meas > 1 else (r,)
        for m, x in zip(spec["meas"], items):
            if m["mp"] == "sample":
                x = np.asarray(x)
                if x.shape[0] != s or not set(np.unique(x).tolist()) <= {0, 1}:
                    raise Viol("invalid-sample", f"shape {x.shape} shots {s}", sig="sample")
            if m["mp"] == "counts":
                if sum(int(v) for v in x.items() and x.values()) != s:
                    raise Viol("counts-total", f"{x} shots {s}", sig="counts")
